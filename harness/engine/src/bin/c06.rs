//! C06 correspondence harness (model: coq/Model/C06_Fee.v, evaluation: coq/Corr/C06_run.v).
//!  (unit)   the real SystemLoanFeeReserve driven with random parameter sets (genesis and non-genesis
//!           prices, both tip kinds, free credit, abort flag) and random op sequences; every Result,
//!           fee_balance() after every op, fully_repaid(), every field of finalize() and the summary
//!           methods are compared with the model;
//!  (engine) LedgerSimulator notarized V1 (tip percentage) / V2 (tip basis points) transactions with
//!           1-3 fee locks (contingent / non-contingent, several accounts), success and failure,
//!           overridden costing parameters and free credit; the receipt's fee_summary, fee_source and
//!           fee_destination are compared with the model's finalize/distribute;
//!  (finding) with costing parameters for which price*tip is not a whole number of attos, a transaction
//!           locking exactly what the running balance deducts reaches assert!(required == 0).
//! Direct oracle: receipt identities of the property statement (see `engine_oracle`).
use radix_common::prelude::*;
use radix_engine::system::system_modules::costing::*;
use radix_engine::transaction::*;
use radix_engine_interface::blueprints::resource::LiquidFungibleResource;
use radix_engine_interface::prelude::*;
use radix_engine_interface::blueprints::package::*;
use radix_substate_store_impls::memory_db::InMemorySubstateDatabase;
use radix_transactions::model::*;
use radix_transactions::prelude::*;
use scrypto_test::prelude::{LedgerSimulator, LedgerSimulatorBuilder, NoExtension};
use serde_json::json;
use std::collections::BTreeMap;
use vh_common::*;

type Ledger = LedgerSimulator<NoExtension, InMemorySubstateDatabase>;

fn shares_coq() -> String {
    format!(
        "(mkShares {} {} {} {})",
        TIPS_PROPOSER_SHARE_PERCENTAGE, TIPS_VALIDATOR_SET_SHARE_PERCENTAGE, NETWORK_FEES_PROPOSER_SHARE_PERCENTAGE, NETWORK_FEES_VALIDATOR_SET_SHARE_PERCENTAGE
    )
}
fn dz(d: Decimal) -> String {
    coq_z(d.attos())
}
fn params_coq(p: &CostingParameters) -> String {
    format!(
        "(mkParams {} {} {} {} {} {} {} {})",
        dz(p.execution_cost_unit_price),
        coq_z(p.execution_cost_unit_limit),
        coq_z(p.execution_cost_unit_loan),
        dz(p.finalization_cost_unit_price),
        coq_z(p.finalization_cost_unit_limit),
        dz(p.usd_price),
        dz(p.state_storage_price),
        dz(p.archive_storage_price)
    )
}
fn tip_coq(t: &TipSpecifier) -> String {
    match t {
        TipSpecifier::None => "TipNone".into(),
        TipSpecifier::Percentage(p) => format!("(TipPercentage {})", coq_z(*p)),
        TipSpecifier::BasisPoints(b) => format!("(TipBasisPoints {})", coq_z(*b)),
    }
}
fn attos(n: i128) -> Decimal {
    Decimal::from_attos(I192::from(n))
}
/// TipExact: price * proportion is a whole number of attos for both unit prices
fn tip_exact(p: &CostingParameters, t: &TipSpecifier) -> bool {
    let one = Decimal::ONE.attos();
    let prop = t.proportion().attos();
    let ex = |price: Decimal| match price.attos().checked_mul(prop) {
        Some(x) => x % one == I192::ZERO,
        None => false, // product does not fit I192: `new` cannot build such a reserve anyway
    };
    ex(p.execution_cost_unit_price) && ex(p.finalization_cost_unit_price)
}

// ------------------------------------------------------------------------------------------------
// unit level
// ------------------------------------------------------------------------------------------------
fn pick_price(rng: &mut Rng, genesis: Decimal) -> Decimal {
    match rng.below(12) {
        0 => Decimal::ZERO,
        1 => attos(1),
        2 => attos(50_000_000_001),
        3 => attos(rng.below(1_000_000_000_000) as i128),
        4 => attos(123_456_789),
        5 if rng.chance(1, 4) => attos(-1),
        6 if rng.chance(1, 3) => Decimal::MAX,
        7 if rng.chance(1, 3) => attos(10i128.pow(38)),
        _ => genesis,
    }
}

fn pick_params(rng: &mut Rng) -> CostingParameters {
    let g = CostingParameters::babylon_genesis();
    if rng.chance(2, 5) {
        return g;
    }
    let mut p = g;
    if rng.chance(2, 3) {
        p.execution_cost_unit_price = pick_price(rng, g.execution_cost_unit_price);
    }
    if rng.chance(1, 2) {
        p.finalization_cost_unit_price = pick_price(rng, g.finalization_cost_unit_price);
    }
    if rng.chance(1, 4) {
        p.usd_price = pick_price(rng, g.usd_price);
    }
    if rng.chance(1, 4) {
        p.state_storage_price = pick_price(rng, g.state_storage_price);
    }
    if rng.chance(1, 6) {
        p.archive_storage_price = pick_price(rng, g.archive_storage_price);
    }
    if rng.chance(1, 2) {
        p.execution_cost_unit_loan = *rng.pick(&[0u32, 1, 1000, 50_000, 4_000_000, u32::MAX]);
    }
    if rng.chance(1, 3) {
        p.execution_cost_unit_limit = *rng.pick(&[0u32, 1000, 100_000, 100_000_000, u32::MAX]);
    }
    if rng.chance(1, 3) {
        p.finalization_cost_unit_limit = *rng.pick(&[0u32, 1000, 50_000_000, u32::MAX]);
    }
    p
}

fn pick_tip(rng: &mut Rng) -> TipSpecifier {
    match rng.below(10) {
        0 | 1 => TipSpecifier::None,
        2 => TipSpecifier::Percentage(*rng.pick(&[0u16, 1, 5, 100, u16::MAX])),
        3 | 4 => TipSpecifier::Percentage(rng.below(300) as u16),
        5 => TipSpecifier::BasisPoints(*rng.pick(&[0u32, 1, 3, 10_000, 1_000_000, u32::MAX])),
        _ => TipSpecifier::BasisPoints(rng.below(20_000) as u32),
    }
}

#[derive(Clone, Debug)]
enum Op {
    DeferExec(u32),
    DeferFin(u32),
    DeferStorage(bool, usize),
    ConsumeExec(u32),
    ConsumeFin(u32),
    ConsumeStorage(bool, usize),
    ConsumeRoyalty(u8, Decimal, u8), // 0 xrd, 1 usd, 2 free; amount; recipient
    LockFee(u8, Decimal, bool),
    RepayAll,
    RevertRoyalty,
}
fn st_coq(archive: bool) -> &'static str {
    if archive {
        "SArchive"
    } else {
        "SState"
    }
}
fn op_coq(o: &Op) -> String {
    match o {
        Op::DeferExec(u) => format!("DeferExec {}", coq_z(*u)),
        Op::DeferFin(u) => format!("DeferFin {}", coq_z(*u)),
        Op::DeferStorage(a, s) => format!("DeferStorage {} {}", st_coq(*a), coq_z(*s)),
        Op::ConsumeExec(u) => format!("ConsumeExec {}", coq_z(*u)),
        Op::ConsumeFin(u) => format!("ConsumeFin {}", coq_z(*u)),
        Op::ConsumeStorage(a, s) => format!("ConsumeStorage {} {}", st_coq(*a), coq_z(*s)),
        Op::ConsumeRoyalty(k, a, r) => format!(
            "ConsumeRoyalty {} {}",
            match k {
                0 => format!("(RXrd {})", dz(*a)),
                1 => format!("(RUsd {})", dz(*a)),
                _ => "RFree".to_string(),
            },
            coq_z(*r)
        ),
        Op::LockFee(v, a, c) => format!("LockFee {} {} {}", coq_z(*v), dz(*a), coq_bool(*c)),
        Op::RepayAll => "RepayAll".into(),
        Op::RevertRoyalty => "RevertRoyalty".into(),
    }
}
fn recipient(k: u8) -> RoyaltyRecipient {
    let mut a = [0u8; NodeId::LENGTH];
    a[0] = EntityType::GlobalGenericComponent as u8;
    a[29] = k;
    RoyaltyRecipient::Component(ComponentAddress::new_or_panic(a), NodeId([k; NodeId::LENGTH]))
}
fn recipient_id(r: &RoyaltyRecipient) -> u8 {
    r.vault_id().0[0]
}
fn err_coq(e: &FeeReserveError) -> &'static str {
    match e {
        FeeReserveError::InsufficientBalance { .. } => "(OErr InsufficientBalance)",
        FeeReserveError::Overflow => "(OErr Overflow)",
        FeeReserveError::LimitExceeded { .. } => "(OErr LimitExceeded)",
        FeeReserveError::LoanRepaymentFailed { .. } => "(OErr LoanRepaymentFailed)",
        FeeReserveError::Abort(_) => "(OErr Abort)",
    }
}

fn pick_amount(rng: &mut Rng, scale: Decimal) -> Decimal {
    match rng.below(8) {
        0 => Decimal::ZERO,
        1 => attos(1),
        2 => scale,
        3 => attos(rng.below(1_000_000_000) as i128),
        4 => Decimal::from(rng.below(1000)),
        _ => attos((rng.below(2_000_000_000_000_000_000) as i128) * (1 + rng.below(20) as i128)),
    }
}

fn pick_op(rng: &mut Rng, loan: u32) -> Op {
    let units = |rng: &mut Rng| -> u32 {
        match rng.below(10) {
            0 => 0,
            1 => 1,
            2 => loan,
            3 => loan.saturating_sub(1),
            4 if rng.chance(1, 4) => u32::MAX,
            5 => rng.below(100_000_000) as u32,
            _ => rng.below(2_000_000) as u32,
        }
    };
    let size = |rng: &mut Rng| -> usize {
        match rng.below(8) {
            0 => 0,
            1 if rng.chance(1, 6) => usize::MAX,
            2 => rng.below(10_000_000) as usize,
            _ => rng.below(5000) as usize,
        }
    };
    match rng.below(100) {
        0..=5 => Op::DeferExec(units(rng)),
        6..=9 => Op::DeferFin(units(rng)),
        10..=14 => Op::DeferStorage(rng.chance(1, 3), size(rng)),
        15..=39 => Op::ConsumeExec(units(rng)),
        40..=49 => Op::ConsumeFin(units(rng)),
        50..=59 => Op::ConsumeStorage(rng.chance(1, 3), size(rng)),
        60..=71 => {
            let k = rng.below(8);
            let kind = if k < 4 { 0 } else if k < 7 { 1 } else { 2 };
            let a = if rng.chance(1, 60) { attos(-5) } else { pick_amount(rng, Decimal::ONE) };
            Op::ConsumeRoyalty(kind, a, rng.below(3) as u8)
        }
        72..=87 => Op::LockFee(rng.below(3) as u8, pick_amount(rng, Decimal::from(5)), rng.chance(1, 3)),
        88..=95 => Op::RepayAll,
        _ => Op::RevertRoyalty,
    }
}

fn apply(r: &mut SystemLoanFeeReserve, o: &Op) -> Result<(), FeeReserveError> {
    let st = |a: bool| if a { StorageType::Archive } else { StorageType::State };
    match o {
        Op::DeferExec(u) => r.consume_deferred_execution(*u),
        Op::DeferFin(u) => r.consume_deferred_finalization(*u),
        Op::DeferStorage(a, s) => r.consume_deferred_storage(st(*a), *s),
        Op::ConsumeExec(u) => r.consume_execution(*u),
        Op::ConsumeFin(u) => r.consume_finalization(*u),
        Op::ConsumeStorage(a, s) => r.consume_storage(st(*a), *s),
        Op::ConsumeRoyalty(k, a, rc) => r.consume_royalty(
            match k {
                0 => RoyaltyAmount::Xrd(*a),
                1 => RoyaltyAmount::Usd(*a),
                _ => RoyaltyAmount::Free,
            },
            recipient(*rc),
        ),
        Op::LockFee(v, a, c) => {
            r.lock_fee(NodeId([*v; NodeId::LENGTH]), LiquidFungibleResource::new(*a), *c);
            Ok(())
        }
        Op::RepayAll => r.repay_all(),
        Op::RevertRoyalty => {
            r.revert_royalty();
            Ok(())
        }
    }
}

fn optd(x: Result<Decimal, String>) -> String {
    match x {
        Ok(d) => format!("(Some {})", dz(d)),
        Err(_) => "None".into(),
    }
}

fn unit_case(rng: &mut Rng, report: &mut Report, idx: usize) -> String {
    let p = pick_params(rng);
    let t = pick_tip(rng);
    let free = match rng.below(8) {
        0 => Decimal::from(1),
        1 => Decimal::from(1_000_000),
        2 if rng.chance(1, 5) => attos(-1),
        3 if rng.chance(1, 5) => Decimal::MAX,
        _ => Decimal::ZERO,
    };
    let abort = rng.chance(1, 12);
    let nops = rng.range(3, 45) as usize;
    let ops: Vec<Op> = (0..nops).map(|_| pick_op(rng, p.execution_cost_unit_loan)).collect();
    run_reserve(p, t, free, abort, ops, report, idx, None)
}

/// Drives the real reserve with `ops` and returns the Coq case. `class` = (boundary class, expected
/// outcome codes): the class is counted only if the observed outcomes are the expected ones.
#[allow(clippy::too_many_arguments)]
fn run_reserve(p: CostingParameters, t: TipSpecifier, free: Decimal, abort: bool, ops: Vec<Op>, report: &mut Report, idx: usize, class: Option<(&str, &[&str])>) -> String {
    let tcp = TransactionCostingParameters { tip: t, free_credit_in_xrd: free };
    let built = catch(std::panic::AssertUnwindSafe(|| SystemLoanFeeReserve::new(p, tcp.clone(), abort)));
    let head = format!("CReserve {} {} {} {} {}", shares_coq(), params_coq(&p), tip_coq(&t), dz(free), coq_bool(abort));
    let mut r = match built {
        Ok(r) => r,
        Err(_) => {
            report.count("unit_new_panicked");
            if let Some((c, exp)) = class {
                if exp == ["new_panics"] { report.count(c); } else { report.count("b_unexpected_outcome"); report.notes.push(format!("{}: new() panicked", c)); }
            }
            let term = format!("{} false [] false None", head);
            report.case(&term, false);
            return term;
        }
    };
    let exact = tip_exact(&p, &t);
    report.count(if exact { "unit_params_tip_exact" } else { "unit_params_tip_inexact" });
    let start_balance = r.fee_balance();
    let mut items = vec![];
    let mut panicked = false;
    let mut noncontingent = Decimal::ZERO;
    let mut codes: Vec<&'static str> = vec![];
    for o in ops {
        let res = catch(std::panic::AssertUnwindSafe(|| apply(&mut r, &o)));
        match res {
            Ok(x) => {
                let out = match &x {
                    Ok(()) => "OOk",
                    Err(e) => err_coq(e),
                };
                report.count(&format!("unit_{}", out.trim_matches(|c| c == '(' || c == ')').replace(' ', "_")));
                codes.push(match &x {
                    Ok(()) => "ok",
                    Err(FeeReserveError::InsufficientBalance { .. }) => "insufficient",
                    Err(FeeReserveError::Overflow) => "overflow",
                    Err(FeeReserveError::LimitExceeded { .. }) => "limit",
                    Err(FeeReserveError::LoanRepaymentFailed { .. }) => "loan",
                    Err(FeeReserveError::Abort(_)) => "abort",
                });
                if let (Op::LockFee(_, a, false), Ok(())) = (&o, &x) {
                    noncontingent = noncontingent.checked_add(*a).unwrap_or(noncontingent);
                }
                items.push(format!("({}, {}, {})", op_coq(&o), out, dz(r.fee_balance())));
            }
            Err(_) => {
                report.count("unit_OPanic");
                codes.push("panic");
                items.push(format!("({}, OPanic, 0%Z)", op_coq(&o)));
                panicked = true;
                break;
            }
        }
    }
    let (repaid, fin) = if panicked {
        ("false".to_string(), "None".to_string())
    } else {
        let repaid = r.fully_repaid();
        let balance_now = r.fee_balance();
        let rc = r.clone();
        match catch(std::panic::AssertUnwindSafe(move || rc.finalize().0)) {
            Err(_) => {
                // finalize itself panicked (overflow): the model must have finalize = None; encode as a
                // summary that cannot match, the check then fails unless the model also fails
                report.count("unit_finalize_panicked");
                (coq_bool(repaid).to_string(), "None".to_string())
            }
            Ok(s) => {
                let total = catch(std::panic::AssertUnwindSafe(|| s.total_cost()));
                let prop = catch(std::panic::AssertUnwindSafe(|| s.to_proposer_amount()));
                let val = catch(std::panic::AssertUnwindSafe(|| s.to_validator_set_amount()));
                let burn = catch(std::panic::AssertUnwindSafe(|| s.to_burn_amount()));
                // direct oracle: limits (C06_limits)
                if s.total_execution_cost_units_consumed > p.execution_cost_unit_limit || s.total_finalization_cost_units_consumed > p.finalization_cost_unit_limit {
                    report.oracle_failure(idx, "", "committed cost units exceed the limit", json!({"params": params_coq(&p), "ops": items}));
                }
                // statistics for the finding: running deduction vs total cost
                if let Ok(total) = &total {
                    let loan = start_balance.checked_sub(free).unwrap_or(Decimal::ZERO);
                    let repaid_loan = loan.checked_sub(s.total_bad_debt_in_xrd).unwrap_or(Decimal::ZERO);
                    if let Some(deducted) = start_balance
                        .checked_add(noncontingent)
                        .and_then(|x| x.checked_sub(repaid_loan))
                        .and_then(|x| x.checked_sub(balance_now))
                    {
                        if deducted != *total {
                            report.count(if exact { "unit_deduction_differs_from_total_cost_EXACT_PARAMS" } else { "unit_deduction_differs_from_total_cost_inexact_params" });
                            if exact {
                                report.oracle_failure(idx, "", "running balance deduction differs from total_cost although price*tip is whole attos", json!({"params": params_coq(&p), "tip": tip_coq(&t), "ops": items, "deducted": deducted.to_string(), "total": total.to_string()}));
                            }
                        }
                    }
                }
                let obs = format!(
                    "(Some (mkObs {} {} {} {} {} {} {} {} {} {} {} {} {} {}))",
                    coq_z(s.total_execution_cost_units_consumed),
                    coq_z(s.total_finalization_cost_units_consumed),
                    dz(s.total_execution_cost_in_xrd),
                    dz(s.total_finalization_cost_in_xrd),
                    dz(s.total_tipping_cost_in_xrd),
                    dz(s.total_storage_cost_in_xrd),
                    dz(s.total_royalty_cost_in_xrd),
                    dz(s.total_bad_debt_in_xrd),
                    coq_list(s.locked_fees.iter().map(|(v, a, c)| format!("({}, {}, {})", coq_z(v.0[0]), dz(a.amount()), coq_bool(*c)))),
                    coq_list(s.royalty_cost_breakdown.iter().map(|(k, v)| format!("({}, {})", coq_z(recipient_id(k)), dz(*v)))),
                    optd(total),
                    optd(prop),
                    optd(val),
                    optd(burn)
                );
                (coq_bool(repaid).to_string(), obs)
            }
        }
    };
    if let Some((c, exp)) = class {
        if codes.as_slice() == exp {
            report.count(c);
        } else {
            report.count("b_unexpected_outcome");
            report.notes.push(format!("{}: expected {:?} got {:?}", c, exp, codes));
        }
    }
    let term = format!("{} true {} {} {}", head, coq_list(items.iter().cloned()), repaid, fin);
    report.case(&term, items.len() > 3 && !panicked);
    term
}

// ------------------------------------------------------------------------------------------------
// deterministic boundary family, unit level (identical for every seed)
// ------------------------------------------------------------------------------------------------
#[allow(clippy::too_many_arguments)]
fn pp(exec_price: i128, exec_limit: u32, loan: u32, fin_price: i128, fin_limit: u32, usd: i128, state: i128, archive: i128) -> CostingParameters {
    CostingParameters {
        execution_cost_unit_price: attos(exec_price),
        execution_cost_unit_limit: exec_limit,
        execution_cost_unit_loan: loan,
        finalization_cost_unit_price: attos(fin_price),
        finalization_cost_unit_limit: fin_limit,
        usd_price: attos(usd),
        state_storage_price: attos(state),
        archive_storage_price: attos(archive),
    }
}

fn unit_boundary_family(report: &mut Report) -> Vec<String> {
    use Op::*;
    let one = 1_000_000_000_000_000_000i128;
    // distinct prices everywhere: exec 10, fin 7, usd 2 XRD, state 3, archive 11 attos; loan 100 units = 1000 attos
    let p0 = pp(10, 1000, 100, 7, 500, 2 * one, 3, 11);
    let none = TipSpecifier::None;
    let z = Decimal::ZERO;
    let big = attos(one);
    let mut out = vec![];
    let mut idx = 0usize;
    let mut run = |class: &str, p: CostingParameters, t: TipSpecifier, free: Decimal, abort: bool, ops: Vec<Op>, exp: &[&str], report: &mut Report, out: &mut Vec<String>| {
        out.push(run_reserve(p, t, free, abort, ops, report, idx, Some((class, exp))));
        idx += 1;
    };
    run("b_unit_limits_at_equality_and_plus_1", p0, none, z, false,
        vec![LockFee(0, big, false), ConsumeExec(999), ConsumeExec(1), ConsumeExec(1), ConsumeFin(500), ConsumeFin(1), ConsumeExec(u32::MAX), ConsumeFin(u32::MAX), ConsumeExec(0), ConsumeFin(0)],
        &["ok", "ok", "ok", "limit", "ok", "limit", "overflow", "overflow", "ok", "ok"], report, &mut out);
    run("b_unit_balance_equals_amount_and_loan_off_by_one_atto", p0, none, z, false,
        vec![ConsumeExec(99), ConsumeExec(2), ConsumeExec(1), LockFee(1, attos(999), false), RepayAll, LockFee(1, attos(1), false), RepayAll, RepayAll, ConsumeExec(1)],
        &["ok", "insufficient", "loan", "ok", "loan", "ok", "ok", "ok", "insufficient"], report, &mut out);
    run("b_unit_abort_when_loan_repaid", p0, none, z, true,
        vec![LockFee(0, big, false), ConsumeExec(100), ConsumeExec(1), RepayAll],
        &["ok", "abort", "ok", "abort"], report, &mut out);
    run("b_unit_loan_threshold_minus_1_then_reached", p0, none, z, false,
        vec![LockFee(0, big, false), ConsumeExec(99), ConsumeExec(1), ConsumeExec(1)],
        &["ok", "ok", "ok", "ok"], report, &mut out);
    run("b_unit_deferred_costs_all_kinds", p0, none, z, false,
        vec![DeferExec(50), DeferFin(20), DeferStorage(false, 10), DeferStorage(true, 7), DeferStorage(false, 5), LockFee(0, big, false), RepayAll, RepayAll],
        &["ok", "ok", "ok", "ok", "ok", "ok", "ok", "ok"], report, &mut out);
    run("b_unit_deferred_over_limit_and_u32_overflow", p0, none, z, false,
        vec![DeferExec(1001), LockFee(0, big, false), RepayAll, DeferExec(u32::MAX), DeferFin(501), RepayAll, DeferFin(u32::MAX)],
        &["ok", "ok", "limit", "overflow", "ok", "limit", "overflow"], report, &mut out);
    run("b_unit_deferred_storage_fails_half_way", p0, none, z, false,
        vec![DeferStorage(false, 10), DeferStorage(true, 100), RepayAll, LockFee(0, attos(1000), false), RepayAll, LockFee(0, attos(130), false), RepayAll],
        &["ok", "ok", "insufficient", "ok", "loan", "ok", "ok"], report, &mut out);
    run("b_unit_royalty_kinds_and_aggregation", p0, none, z, false,
        vec![LockFee(0, big, false), ConsumeRoyalty(0, z, 1), ConsumeRoyalty(2, z, 1), ConsumeRoyalty(0, attos(5), 1), ConsumeRoyalty(1, attos(7), 2), ConsumeRoyalty(0, attos(6), 1)],
        &["ok", "ok", "ok", "ok", "ok", "ok"], report, &mut out);
    run("b_unit_royalty_revert_then_negative_panics", p0, none, z, false,
        vec![LockFee(0, big, false), ConsumeRoyalty(0, attos(5), 1), ConsumeRoyalty(1, attos(7), 2), RevertRoyalty, ConsumeRoyalty(0, attos(4), 2), ConsumeRoyalty(0, attos(-5), 1)],
        &["ok", "ok", "ok", "ok", "ok", "panic"], report, &mut out);
    run("b_unit_royalty_balance_equality", p0, none, z, false,
        vec![ConsumeRoyalty(0, attos(1001), 0), ConsumeRoyalty(0, attos(1000), 0), ConsumeRoyalty(0, attos(1), 0)],
        &["insufficient", "ok", "insufficient"], report, &mut out);
    run("b_unit_contingent_lock_not_in_balance", p0, none, z, false,
        vec![LockFee(0, big, true), ConsumeExec(100), LockFee(1, attos(1000), false), RepayAll],
        &["ok", "loan", "ok", "ok"], report, &mut out);
    run("b_unit_storage_types_sizes", p0, none, z, false,
        vec![LockFee(0, big, false), ConsumeStorage(false, 1), ConsumeStorage(true, 1), ConsumeStorage(false, 0), ConsumeStorage(false, usize::MAX), DeferStorage(false, usize::MAX), DeferStorage(false, 1)],
        &["ok", "ok", "ok", "ok", "insufficient", "ok", "panic"], report, &mut out);
    // fee shares: network fees of 1,2,3,4,5,7 attos (25 % shares truncate), then with a tip
    let p1 = pp(1, 1_000_000, 0, 1, 1_000_000, 0, 1, 1);
    for n in [1u32, 2, 3, 4, 5, 7] {
        run("b_unit_share_rounding_small_network_fee", p1, none, z, false, vec![LockFee(0, attos(1000), false), ConsumeExec(n)], &["ok", "ok"], report, &mut out);
    }
    run("b_unit_share_rounding_mixed_costs", p1, none, z, false,
        vec![LockFee(0, attos(1000), false), ConsumeExec(1), ConsumeFin(1), ConsumeStorage(false, 1), ConsumeRoyalty(0, attos(3), 4)], &["ok", "ok", "ok", "ok", "ok"], report, &mut out);
    let p2 = pp(2, 1_000_000, 0, 2, 1_000_000, 0, 1, 1);
    run("b_unit_share_rounding_with_tip", p2, TipSpecifier::Percentage(50), z, false,
        vec![LockFee(0, attos(1000), false), ConsumeExec(3), ConsumeFin(1)], &["ok", "ok", "ok"], report, &mut out);
    // tip kinds and extremes
    let p3 = pp(10_000, 1_000_000, 10, 10_000, 1_000_000, 0, 1, 1);
    for (class, tip) in [
        ("b_unit_tip_one_basis_point_exact", TipSpecifier::BasisPoints(1)),
        ("b_unit_tip_percentage_1", TipSpecifier::Percentage(1)),
        ("b_unit_tip_basis_points_100", TipSpecifier::BasisPoints(100)),
        ("b_unit_tip_percentage_max", TipSpecifier::Percentage(u16::MAX)),
        ("b_unit_tip_basis_points_max", TipSpecifier::BasisPoints(u32::MAX)),
        ("b_unit_tip_zero_percentage", TipSpecifier::Percentage(0)),
    ] {
        run(class, p3, tip, z, false, vec![LockFee(0, big, false), ConsumeExec(100), ConsumeFin(33)], &["ok", "ok", "ok"], report, &mut out);
    }
    run("b_unit_tip_inexact_price", pp(3, 1_000_000, 10, 3, 1_000_000, 0, 1, 1), TipSpecifier::Percentage(33), z, false,
        vec![LockFee(0, big, false), ConsumeExec(100), ConsumeFin(7)], &["ok", "ok", "ok"], report, &mut out);
    // free credit
    run("b_unit_free_credit_covers_loan", p0, none, attos(1000), false, vec![ConsumeExec(100), ConsumeExec(1)], &["ok", "insufficient"], report, &mut out);
    // SystemLoanFeeReserve::new: every assertion and overflow
    let neg = |f: &dyn Fn(&mut CostingParameters)| { let mut p = p0; f(&mut p); p };
    run("b_unit_new_negative_price", neg(&|p| p.execution_cost_unit_price = attos(-1)), none, z, false, vec![], &["new_panics"], report, &mut out);
    run("b_unit_new_negative_price", neg(&|p| p.finalization_cost_unit_price = attos(-1)), none, z, false, vec![], &["new_panics"], report, &mut out);
    run("b_unit_new_negative_price", neg(&|p| p.usd_price = attos(-1)), none, z, false, vec![], &["new_panics"], report, &mut out);
    run("b_unit_new_negative_price", neg(&|p| p.state_storage_price = attos(-1)), none, z, false, vec![], &["new_panics"], report, &mut out);
    run("b_unit_new_negative_price", neg(&|p| p.archive_storage_price = attos(-1)), none, z, false, vec![], &["new_panics"], report, &mut out);
    run("b_unit_new_negative_free_credit", p0, none, attos(-1), false, vec![], &["new_panics"], report, &mut out);
    run("b_unit_new_zero_prices", pp(0, 10, 5, 0, 10, 0, 0, 0), none, z, false, vec![ConsumeExec(5), ConsumeFin(10), ConsumeStorage(true, 9)], &["ok", "ok", "ok"], report, &mut out);
    run("b_unit_new_price_overflow", neg(&|p| p.execution_cost_unit_price = Decimal::MAX), TipSpecifier::Percentage(1), z, false, vec![], &["new_panics"], report, &mut out);
    run("b_unit_new_loan_overflow", neg(&|p| { p.execution_cost_unit_price = Decimal::MAX; p.execution_cost_unit_loan = 2; }), none, z, false, vec![], &["new_panics"], report, &mut out);
    run("b_unit_new_free_credit_overflow", p0, none, Decimal::MAX, false, vec![], &["new_panics"], report, &mut out);
    out
}

// ------------------------------------------------------------------------------------------------
// engine level
// ------------------------------------------------------------------------------------------------
/// royalty packages: (package, per-call royalty, royalty vault); model recipient ids 100, 101
static ROYALTY_PKGS: std::sync::OnceLock<Vec<(PackageAddress, RoyaltyAmount, NodeId)>> = std::sync::OnceLock::new();
thread_local! { static ROY_CALLS: std::cell::Cell<(u64, u64)> = std::cell::Cell::new((0, 0)); }
fn roy_calls(i: usize) -> u64 {
    match ROYALTY_PKGS.get() {
        Some(v) if v.len() > i => ROY_CALLS.with(|c| if i == 0 { c.get().0 } else { c.get().1 }),
        _ => 0,
    }
}
const REWARDS_ID: i64 = -1;

/// Publishes the pre-built `tuple_return` test package (if its build artefacts are present in /repo)
/// with a package royalty on `TupleReturn::instantiate`.
fn publish_royalty_package(ledger: &mut Ledger, amount: RoyaltyAmount) -> Option<(PackageAddress, NodeId)> {
    let dir = "/repo/scrypto-test/tests/blueprints/target/wasm32-unknown-unknown/release";
    let code = std::fs::read(format!("{}/tuple_return.wasm", dir)).ok()?;
    let rpd = std::fs::read(format!("{}/tuple_return.rpd", dir)).ok()?;
    let mut definition: PackageDefinition = manifest_decode::<ManifestPackageDefinition>(&rpd).ok()?.try_into_typed().ok()?;
    let bp = definition.blueprints.get_mut("TupleReturn")?;
    bp.royalty_config = PackageRoyaltyConfig::Enabled(indexmap!("instantiate".to_string() => amount));
    let pk = catch(std::panic::AssertUnwindSafe(|| ledger.publish_package((code, definition), BTreeMap::new(), OwnerRole::None))).ok()?;
    let reader = radix_engine::system::system_db_reader::SystemDatabaseReader::new(ledger.substate_db());
    let acc = reader
        .read_typed_object_field::<radix_engine::blueprints::package::PackageRoyaltyAccumulatorFieldPayload>(pk.as_node_id(), ModuleId::Main, radix_engine::blueprints::package::PackageField::RoyaltyAccumulator.field_index())
        .ok()?
        .fully_update_and_into_latest_version();
    Some((pk, *acc.royalty_vault.0.as_node_id()))
}

/// rewards vault id, its balance, and proposer_rewards[validator 0]
fn rewards_state(ledger: &mut Ledger) -> (NodeId, Decimal, Decimal) {
    let reader = radix_engine::system::system_db_reader::SystemDatabaseReader::new(ledger.substate_db());
    let r = reader
        .read_typed_object_field::<radix_engine::blueprints::consensus_manager::ConsensusManagerValidatorRewardsFieldPayload>(
            CONSENSUS_MANAGER.as_node_id(),
            ModuleId::Main,
            radix_engine::blueprints::consensus_manager::ConsensusManagerField::ValidatorRewards.field_index(),
        )
        .unwrap()
        .fully_update_and_into_latest_version();
    let vault = *r.rewards_vault.0.as_node_id();
    let leader = r.proposer_rewards.get(&0u8).cloned().unwrap_or(Decimal::ZERO);
    let bal = ledger.inspect_vault_balance(vault).unwrap_or(Decimal::ZERO);
    (vault, bal, leader)
}

struct Acct {
    pk: Secp256k1PublicKey,
    sk: Secp256k1PrivateKey,
    addr: ComponentAddress,
    vault: NodeId,
}

#[derive(Clone, Debug)]
struct Lock {
    acct: usize,
    amount: Decimal,
    contingent: bool,
}

fn notary() -> Ed25519PrivateKey {
    Ed25519PrivateKey::from_u64(1337).unwrap()
}

fn build_tx(ledger: &mut Ledger, accts: &[Acct], locks: &[Lock], fail: bool, tip: &TipSpecifier, work: u64) -> ExecutableTransaction {
    let epoch = ledger.get_current_epoch();
    let nonce = ledger.next_transaction_nonce();
    let signers: Vec<usize> = {
        let mut v: Vec<usize> = locks.iter().map(|l| l.acct).collect();
        v.push(0);
        v.sort();
        v.dedup();
        v
    };
    match tip {
        TipSpecifier::BasisPoints(bp) => {
            let mut b = TransactionV2Builder::new()
                .intent_header(IntentHeaderV2 {
                    network_id: NetworkDefinition::simulator().id,
                    start_epoch_inclusive: epoch,
                    end_epoch_exclusive: epoch.after(10).unwrap(),
                    min_proposer_timestamp_inclusive: None,
                    max_proposer_timestamp_exclusive: None,
                    intent_discriminator: nonce as u64,
                })
                .transaction_header(TransactionHeaderV2 {
                    notary_public_key: notary().public_key().into(),
                    notary_is_signatory: false,
                    tip_basis_points: *bp,
                })
                .manifest_builder(|mut m| {
                    for l in locks {
                        m = if l.contingent { m.lock_contingent_fee(accts[l.acct].addr, l.amount) } else { m.lock_fee(accts[l.acct].addr, l.amount) };
                    }
                    for _ in 0..work {
                        m = m.withdraw_from_account(accts[0].addr, XRD, dec!(1)).deposit_entire_worktop(accts[0].addr);
                    }
                    for i in 0..2usize {
                        for _ in 0..roy_calls(i) {
                            m = m.call_function(ROYALTY_PKGS.get().unwrap()[i].0, "TupleReturn", "instantiate", ());
                        }
                    }
                    if fail {
                        m = m.assert_worktop_contains(XRD, dec!(1));
                    }
                    m
                });
            for s in &signers {
                b = b.sign(&accts[*s].sk);
            }
            let tx = b.notarize(&notary()).build_minimal();
            tx.prepare_and_validate(ledger.transaction_validator()).expect("valid v2").create_executable()
        }
        other => {
            let pct = match other {
                TipSpecifier::Percentage(p) => *p,
                _ => 0,
            };
            let mut m = ManifestBuilder::new();
            for l in locks {
                m = if l.contingent { m.lock_contingent_fee(accts[l.acct].addr, l.amount) } else { m.lock_fee(accts[l.acct].addr, l.amount) };
            }
            for _ in 0..work {
                m = m.withdraw_from_account(accts[0].addr, XRD, dec!(1)).deposit_entire_worktop(accts[0].addr);
            }
            for i in 0..2usize {
                for _ in 0..roy_calls(i) {
                    m = m.call_function(ROYALTY_PKGS.get().unwrap()[i].0, "TupleReturn", "instantiate", ());
                }
            }
            if fail {
                m = m.assert_worktop_contains(XRD, dec!(1));
            }
            let mut b = TransactionV1Builder::new()
                .header(TransactionHeaderV1 {
                    network_id: NetworkDefinition::simulator().id,
                    start_epoch_inclusive: epoch,
                    end_epoch_exclusive: epoch.after(10).unwrap(),
                    nonce,
                    notary_public_key: notary().public_key().into(),
                    notary_is_signatory: false,
                    tip_percentage: pct,
                })
                .manifest(m.build());
            for s in &signers {
                b = b.sign(&accts[*s].sk);
            }
            let tx = b.notarize(&notary()).build();
            tx.prepare_and_validate(ledger.transaction_validator()).expect("valid v1").create_executable()
        }
    }
}

fn exec_config(p: &CostingParameters) -> ExecutionConfig {
    let mut c = ExecutionConfig::for_notarized_transaction(NetworkDefinition::simulator());
    let mut o = c.system_overrides.clone().unwrap_or_default();
    o.costing_parameters = Some(*p);
    c.system_overrides = Some(o);
    c
}

fn balance(ledger: &mut Ledger, a: &Acct) -> Decimal {
    ledger.inspect_vault_balance(a.vault).unwrap()
}

/// effective unit price as the reserve computes it
fn effective(price: Decimal, t: &TipSpecifier) -> Decimal {
    price.checked_mul(t.fee_multiplier()).unwrap()
}

#[allow(clippy::too_many_arguments)]
fn engine_case(
    ledger: &mut Ledger,
    accts: &[Acct],
    p: &CostingParameters,
    tip: &TipSpecifier,
    locks: &[Lock],
    free: Decimal,
    fail: bool,
    work: u64,
    report: &mut Report,
    idx: usize,
) -> Option<String> {
    let exact = tip_exact(p, tip);
    let ex = build_tx(ledger, accts, locks, fail, tip, work);
    let ex = if free.is_positive() { ex.apply_free_credit(free) } else { ex };
    let before: Vec<Decimal> = accts.iter().map(|a| balance(ledger, a)).collect();
    let roy_before: Vec<Decimal> = ROYALTY_PKGS.get().map(|v| v.iter().map(|x| ledger.inspect_vault_balance(x.2).unwrap_or(Decimal::ZERO)).collect()).unwrap_or_default();
    let (rewards_vault, rewards_before, leader_before) = rewards_state(ledger);
    let cfg = exec_config(p);
    let res = catch(std::panic::AssertUnwindSafe(|| ledger.execute_transaction(ex, cfg)));
    let input = json!({"params": params_coq(p), "tip": tip_coq(tip), "free": free.to_string(), "fail": fail,
        "locks": locks.iter().map(|l| format!("{}:{}:{}", l.acct, l.amount, l.contingent)).collect::<Vec<_>>() });
    let receipt = match res {
        Err(msg) => {
            report.count(if exact { "engine_panic_exact_params" } else { "engine_panic_inexact_params" });
            report.oracle_failure(
                idx,
                if exact { "" } else { "tip_inexact_params" },
                &format!("transaction executor panicked while finalising fees: {}", msg.chars().take(160).collect::<String>()),
                input,
            );
            return None;
        }
        Ok(r) => r,
    };
    let commit = match &receipt.result {
        TransactionResult::Commit(c) => c,
        _ => {
            report.count("engine_not_committed");
            // not committed: nothing may have been taken
            let after: Vec<Decimal> = accts.iter().map(|a| balance(ledger, a)).collect();
            if after != before {
                report.oracle_failure(idx, "", "rejected transaction changed a fee vault", input);
            }
            return None;
        }
    };
    let ok = matches!(commit.outcome, TransactionOutcome::Success(_));
    if let TransactionOutcome::Failure(e) = &commit.outcome {
        if std::env::var("C06_DEBUG").is_ok() {
            eprintln!("case {} failure: {:?} intended_fail={}", idx, e, fail);
        }
    }
    if ok == fail {
        // failed for another reason than the planted assertion: the executed locks are unknown
        report.count("engine_unintended_outcome");
        return None;
    }
    report.count(if ok { "engine_commit_success" } else { "engine_commit_failure" });
    let fs = &receipt.fee_summary;
    let total = fs.total_execution_cost_in_xrd + fs.total_finalization_cost_in_xrd + fs.total_tipping_cost_in_xrd + fs.total_storage_cost_in_xrd + fs.total_royalty_cost_in_xrd;
    // ---- direct oracle: the identities of the statement ----
    let mut fails: Vec<String> = vec![];
    let paid: Decimal = commit.fee_source.paying_vaults.values().fold(Decimal::ZERO, |a, b| a + *b);
    let free_used = total - paid;
    if free_used.is_negative() || free_used > free {
        fails.push(format!("taken from vaults {} + free credit (<= {}) does not equal total cost {}", paid, free, total));
    }
    let fd = &commit.fee_destination;
    let roy: Decimal = fd.to_royalty_recipients.values().fold(Decimal::ZERO, |a, b| a + *b);
    if fd.to_proposer + fd.to_validator_set + fd.to_burn + roy != total {
        fails.push(format!("proposer {} + validator set {} + burn {} + royalties {} != total cost {}", fd.to_proposer, fd.to_validator_set, fd.to_burn, roy, total));
    }
    if let Some(pkgs) = ROYALTY_PKGS.get() {
        let mut expected_total = Decimal::ZERO;
        for (i, (pk, amount, vault)) in pkgs.iter().enumerate() {
            let per_call = match amount {
                RoyaltyAmount::Xrd(a) => *a,
                RoyaltyAmount::Usd(u) => u.checked_mul(p.usd_price).unwrap(),
                RoyaltyAmount::Free => Decimal::ZERO,
            };
            let expected = if ok { per_call * Decimal::from(roy_calls(i)) } else { Decimal::ZERO };
            expected_total = expected_total + expected;
            let credited = ledger.inspect_vault_balance(*vault).unwrap_or(Decimal::ZERO) - roy_before[i];
            let reported = fd.to_royalty_recipients.iter().find(|(k, _)| matches!(k, RoyaltyRecipient::Package(a, _) if a == pk)).map(|(_, v)| *v).unwrap_or(Decimal::ZERO);
            if credited != expected || reported != expected {
                fails.push(format!("royalty package {}: vault credited {}, fee_destination says {}, configuration implies {}", i, credited, reported, expected));
            }
            if expected.is_positive() {
                report.count(if i == 0 { "engine_royalty_paid" } else { "engine_usd_royalty_paid" });
            }
        }
        if roy != expected_total || roy != fs.total_royalty_cost_in_xrd {
            fails.push(format!("royalties: fee_destination total {} fee_summary {} expected {}", roy, fs.total_royalty_cost_in_xrd, expected_total));
        }
    }
    // validator rewards bookkeeping: the rewards vault receives proposer + validator-set rewards, the
    // leader's proposer_rewards entry grows by the proposer reward
    let (_, rewards_after, leader_after) = rewards_state(ledger);
    if rewards_after - rewards_before != fd.to_proposer + fd.to_validator_set {
        fails.push(format!("rewards vault changed by {} but proposer + validator set = {}", rewards_after - rewards_before, fd.to_proposer + fd.to_validator_set));
    }
    if leader_after - leader_before != fd.to_proposer {
        fails.push(format!("proposer_rewards[leader] changed by {} but to_proposer = {}", leader_after - leader_before, fd.to_proposer));
    }
    // finalisation events: the tail of the application events
    let n_roy = fd.to_royalty_recipients.len();
    let n_fin = n_roy + locks.len() + if !fd.to_proposer.is_zero() || !fd.to_validator_set.is_zero() { 1 } else { 0 } + if fd.to_burn.is_positive() { 1 } else { 0 };
    let evs_all = &commit.application_events;
    let tail = &evs_all[evs_all.len().saturating_sub(n_fin)..];
    let vault_id = |n: &NodeId| -> i64 {
        if let Some(i) = accts.iter().position(|x| x.vault == *n) {
            return i as i64;
        }
        if *n == rewards_vault {
            return REWARDS_ID;
        }
        if let Some(v) = ROYALTY_PKGS.get() {
            if let Some(i) = v.iter().position(|x| x.2 == *n) {
                return 100 + i as i64;
            }
        }
        999
    };
    let mut ev_terms = vec![];
    let (mut ev_in, mut ev_out) = (Decimal::ZERO, Decimal::ZERO);
    for (id, data) in tail {
        let node = match &id.0 {
            Emitter::Method(n, _) => *n,
            Emitter::Function(_) => NodeId([0u8; NodeId::LENGTH]),
        };
        match id.1.as_str() {
            "PayFeeEvent" => {
                let e: radix_engine::blueprints::resource::fungible_vault::PayFeeEvent = scrypto_decode(data).unwrap();
                ev_in = ev_in + e.amount;
                ev_terms.push(format!("EvPayFee {} {}", coq_z(vault_id(&node)), dz(e.amount)));
            }
            "DepositEvent" => {
                let e: radix_engine::blueprints::resource::fungible_vault::DepositEvent = scrypto_decode(data).unwrap();
                ev_out = ev_out + e.amount;
                ev_terms.push(format!("EvDeposit {} {}", coq_z(vault_id(&node)), dz(e.amount)));
            }
            "BurnFungibleResourceEvent" => {
                let e: radix_engine::blueprints::resource::BurnFungibleResourceEvent = scrypto_decode(data).unwrap();
                ev_out = ev_out + e.amount;
                if node != XRD.into_node_id() {
                    fails.push("burn event not emitted by the XRD resource manager".into());
                }
                ev_terms.push(format!("EvBurn {}", dz(e.amount)));
            }
            other => ev_terms.push(format!("EvBurn (-1)%Z (* unexpected event {} *)", other.chars().filter(|c| c.is_ascii_alphanumeric()).collect::<String>())),
        }
    }
    // direct oracle on the events: taken from vaults + free credit used = deposited + burnt = total cost
    if ev_in + free_used != ev_out || ev_out != total {
        fails.push(format!("finalisation events do not balance: PayFee {} + free credit {} vs Deposit+Burn {} vs total cost {}", ev_in, free_used, ev_out, total));
    }
    report.count_n("engine_finalisation_events", ev_terms.len() as u64);
    if fd.to_proposer.is_negative() || fd.to_validator_set.is_negative() || fd.to_burn.is_negative() {
        fails.push("negative fee destination".into());
    }
    if fs.total_execution_cost_units_consumed > p.execution_cost_unit_limit || fs.total_finalization_cost_units_consumed > p.finalization_cost_unit_limit {
        fails.push("cost units exceed the limits".into());
    }
    for (i, a) in accts.iter().enumerate() {
        let after = balance(ledger, a);
        let took = commit.fee_source.paying_vaults.get(&a.vault).cloned().unwrap_or(Decimal::ZERO);
        if before[i] - after != took {
            fails.push(format!("vault of account {} changed by {} but fee_source says {}", i, before[i] - after, took));
        }
        let locked_here = locks.iter().filter(|l| l.acct == i).fold(Decimal::ZERO, |s, l| s + l.amount);
        if took > locked_here {
            fails.push(format!("account {} paid {} but only locked {}", i, took, locked_here));
        }
    }
    for f in fails {
        report.oracle_failure(idx, "", &f, input.clone());
    }
    // ---- Coq case ----
    let roy_obs = coq_list(fd.to_royalty_recipients.iter().map(|(k, v)| {
        let id = match k {
            RoyaltyRecipient::Package(a, _) => ROYALTY_PKGS.get().and_then(|v| v.iter().position(|x| x.0 == *a)).map(|i| 100 + i as i64).unwrap_or(998),
            _ => 997,
        };
        format!("({}, {})", coq_z(id), dz(*v))
    }));
    let summary = format!(
        "(mkSummary {} {} {} {} {} {} {} 0%Z {} {})",
        coq_z(fs.total_execution_cost_units_consumed),
        coq_z(fs.total_finalization_cost_units_consumed),
        dz(fs.total_execution_cost_in_xrd),
        dz(fs.total_finalization_cost_in_xrd),
        dz(fs.total_tipping_cost_in_xrd),
        dz(fs.total_storage_cost_in_xrd),
        dz(fs.total_royalty_cost_in_xrd),
        coq_list(locks.iter().map(|l| format!("({}, {}, {})", coq_z(l.acct), dz(l.amount), coq_bool(l.contingent)))),
        // the reserve's breakdown: what was consumed per recipient (recipients 100, 101 = the royalty packages)
        roy_obs
    );
    let pay = coq_list(commit.fee_source.paying_vaults.iter().map(|(v, a)| {
        let i = accts.iter().position(|x| x.vault == *v).map(|x| x as i64).unwrap_or(-1);
        format!("({}, {})", coq_z(i), dz(*a))
    }));
    let term = format!(
        "CDist {} {} {} {} {} {} (DObs {} {} {} {} {} {} {} {})",
        shares_coq(),
        params_coq(p),
        tip_coq(tip),
        summary,
        dz(free),
        coq_bool(ok),
        pay,
        dz(fd.to_proposer),
        dz(fd.to_validator_set),
        dz(fd.to_burn),
        roy_obs,
        coq_list(ev_terms.into_iter()),
        dz(rewards_after - rewards_before),
        dz(leader_after - leader_before)
    );
    report.case(&term, locks.len() > 1 || !tip_coq(tip).contains("TipNone"));
    Some(term)
}

/// The finding: lock exactly what the running balance deducts (learnt from a dry run).
fn finding_case(ledger: &mut Ledger, accts: &[Acct], p: &CostingParameters, tip: &TipSpecifier, report: &mut Report, idx: usize) -> Option<String> {
    let probe = vec![Lock { acct: 0, amount: dec!(500), contingent: false }];
    let ex = build_tx(ledger, accts, &probe, false, tip, 1);
    let dry = ledger.execute_transaction_no_commit(ex, exec_config(p));
    if !matches!(dry.result, TransactionResult::Commit(_)) {
        report.count("finding_probe_not_committed");
        return None;
    }
    let fs = &dry.fee_summary;
    let deducted = effective(p.execution_cost_unit_price, tip) * Decimal::from(fs.total_execution_cost_units_consumed)
        + effective(p.finalization_cost_unit_price, tip) * Decimal::from(fs.total_finalization_cost_units_consumed)
        + fs.total_storage_cost_in_xrd
        + fs.total_royalty_cost_in_xrd;
    let total = fs.total_execution_cost_in_xrd + fs.total_finalization_cost_in_xrd + fs.total_tipping_cost_in_xrd + fs.total_storage_cost_in_xrd + fs.total_royalty_cost_in_xrd;
    report.extra.insert("finding_probe".into(), json!({"params": params_coq(p), "tip": tip_coq(tip), "deducted_by_running_balance": deducted.to_string(), "total_cost": total.to_string()}));
    if deducted >= total {
        report.count("finding_no_divergence");
        return None;
    }
    report.count("finding_divergence_probed");
    let locks = vec![Lock { acct: 0, amount: deducted, contingent: false }];
    let panics_before = report.distribution.get("engine_panic_inexact_params").cloned().unwrap_or(0) + report.distribution.get("engine_panic_exact_params").cloned().unwrap_or(0);
    let r = engine_case(ledger, accts, p, tip, &locks, Decimal::ZERO, false, 1, report, idx);
    let panics_after = report.distribution.get("engine_panic_inexact_params").cloned().unwrap_or(0) + report.distribution.get("engine_panic_exact_params").cloned().unwrap_or(0);
    if r.is_none() && panics_after > panics_before {
        // the executor panicked: the model must panic too on the summary learnt from the dry run
        report.count("finding_replayed_panic");
        let summary = format!(
            "(mkSummary {} {} {} {} {} {} {} 0%Z [(0%Z, {}, false)] [])",
            coq_z(fs.total_execution_cost_units_consumed),
            coq_z(fs.total_finalization_cost_units_consumed),
            dz(fs.total_execution_cost_in_xrd),
            dz(fs.total_finalization_cost_in_xrd),
            dz(fs.total_tipping_cost_in_xrd),
            dz(fs.total_storage_cost_in_xrd),
            dz(fs.total_royalty_cost_in_xrd),
            dz(deducted)
        );
        let term = format!("CDist {} {} {} {} 0%Z true DObsPanic", shares_coq(), params_coq(p), tip_coq(tip), summary);
        report.case(&term, true);
        return Some(term);
    }
    r
}

/// Deterministic engine-level boundary family (identical for every seed): contingent / non-contingent
/// lock patterns on success and failure, lock order, a lock smaller than the cost, free credit below and
/// above the cost, odd unit prices (share rounding), royalties on success and on failure, and a lock of
/// exactly the total cost (learnt from a dry run).
fn engine_boundary_family(ledger: &mut Ledger, accts: &[Acct], report: &mut Report, cw: &mut CaseWriter, idx: &mut usize) {
    let g = CostingParameters::babylon_genesis();
    let mut odd = g;
    odd.execution_cost_unit_price = attos(123_456_789);
    odd.finalization_cost_unit_price = attos(50_000_000_003);
    odd.state_storage_price = attos(95_367_430_000_001);
    let mut odd_usd = g;
    odd_usd.usd_price = attos(16_666_666_666_666_666_667);
    let l = |acct: usize, amount: Decimal, contingent: bool| Lock { acct, amount, contingent };
    let none = TipSpecifier::None;
    let cases: Vec<(&str, CostingParameters, TipSpecifier, Vec<Lock>, Decimal, bool, u64, (u64, u64))> = vec![
        ("b_engine_contingent_last_success", g, none, vec![l(0, dec!(400), false), l(1, dec!(400), true)], Decimal::ZERO, false, 1, (0, 0)),
        ("b_engine_contingent_last_failure", g, none, vec![l(0, dec!(400), false), l(1, dec!(400), true)], Decimal::ZERO, true, 1, (0, 0)),
        ("b_engine_contingent_first_success", g, none, vec![l(1, dec!(400), true), l(0, dec!(400), false)], Decimal::ZERO, false, 1, (0, 0)),
        ("b_engine_contingent_first_failure", g, none, vec![l(1, dec!(400), true), l(0, dec!(400), false)], Decimal::ZERO, true, 1, (0, 0)),
        ("b_engine_small_contingent_used_up_on_success", g, none, vec![l(0, dec!(400), false), l(2, dec!("0.05"), true)], Decimal::ZERO, false, 1, (0, 0)),
        ("b_engine_small_last_lock_used_up", g, none, vec![l(0, dec!(400), false), l(2, dec!("0.05"), false)], Decimal::ZERO, false, 1, (0, 0)),
        ("b_engine_three_locks", g, TipSpecifier::Percentage(5), vec![l(2, dec!(400), false), l(1, dec!("0.05"), true), l(0, dec!("0.05"), false)], Decimal::ZERO, false, 2, (0, 0)),
        ("b_engine_three_locks", g, TipSpecifier::Percentage(5), vec![l(2, dec!(400), false), l(1, dec!("0.05"), true), l(0, dec!("0.05"), false)], Decimal::ZERO, true, 2, (0, 0)),
        ("b_engine_free_credit_unused", g, none, vec![l(0, dec!(400), false)], dec!("0.1"), false, 1, (0, 0)),
        ("b_engine_free_credit_partly_used", g, none, vec![l(0, dec!("0.05"), false)], dec!(1000), false, 1, (0, 0)),
        ("b_engine_free_credit_partly_used", g, none, vec![l(0, dec!("0.05"), false)], dec!(1000), true, 1, (0, 0)),
        ("b_engine_odd_prices_share_rounding", odd, TipSpecifier::BasisPoints(33), vec![l(0, dec!(400), false)], Decimal::ZERO, false, 2, (0, 0)),
        ("b_engine_odd_prices_share_rounding", odd, TipSpecifier::Percentage(7), vec![l(1, dec!(400), false), l(0, dec!(1), true)], Decimal::ZERO, true, 0, (0, 0)),
        ("b_engine_tip_basis_points", g, TipSpecifier::BasisPoints(1), vec![l(0, dec!(400), false)], Decimal::ZERO, false, 0, (0, 0)),
        ("b_engine_tip_percentage_large", g, TipSpecifier::Percentage(777), vec![l(0, dec!(4000), false)], Decimal::ZERO, false, 0, (0, 0)),
        ("b_engine_royalty_success", g, none, vec![l(0, dec!(400), false)], Decimal::ZERO, false, 0, (2, 0)),
        ("b_engine_royalty_reverted_on_failure", g, none, vec![l(0, dec!(400), false), l(1, dec!(10), true)], Decimal::ZERO, true, 0, (1, 0)),
        ("b_engine_royalty_with_tip", g, TipSpecifier::BasisPoints(250), vec![l(1, dec!(400), false)], Decimal::ZERO, false, 1, (1, 0)),
        ("b_engine_usd_royalty_success", g, none, vec![l(0, dec!(400), false)], Decimal::ZERO, false, 0, (0, 2)),
        ("b_engine_usd_royalty_odd_usd_price", odd_usd, TipSpecifier::BasisPoints(33), vec![l(1, dec!(400), false)], Decimal::ZERO, false, 0, (1, 1)),
        ("b_engine_usd_royalty_reverted_on_failure", g, none, vec![l(0, dec!(400), false)], Decimal::ZERO, true, 0, (1, 1)),
    ];
    for (class, p, tip, locks, free, fail, work, roy) in cases {
        if (roy.0 > 0 || roy.1 > 0) && ROYALTY_PKGS.get().map_or(true, |v| v.len() < 2) {
            report.count(class); // artefact missing: recorded in the notes, the class cannot be produced
            continue;
        }
        ROY_CALLS.with(|c| c.set(roy));
        if let Some(term) = engine_case(ledger, accts, &p, &tip, &locks, free, fail, work, report, *idx) {
            report.count(class);
            cw.push(term);
        } else {
            report.count("b_unexpected_outcome");
            report.notes.push(format!("{}: transaction not committed as planned", class));
        }
        *idx += 1;
    }
    ROY_CALLS.with(|c| c.set((0, 0)));
    // lock exactly the total cost (exact parameters: deducted == total): refund 0, nothing missing
    for (class, delta) in [("b_engine_lock_equals_total_cost", 0i128), ("b_engine_lock_one_atto_above_total_cost", 1)] {
        let tip = TipSpecifier::Percentage(3);
        let probe = vec![Lock { acct: 0, amount: dec!(500), contingent: false }];
        let ex = build_tx(ledger, accts, &probe, false, &tip, 1);
        let dry = ledger.execute_transaction_no_commit(ex, exec_config(&g));
        let fs = &dry.fee_summary;
        let total = fs.total_execution_cost_in_xrd + fs.total_finalization_cost_in_xrd + fs.total_tipping_cost_in_xrd + fs.total_storage_cost_in_xrd + fs.total_royalty_cost_in_xrd;
        let locks = vec![Lock { acct: 0, amount: total + attos(delta), contingent: false }];
        if let Some(term) = engine_case(ledger, accts, &g, &tip, &locks, Decimal::ZERO, false, 1, report, *idx) {
            report.count(class);
            cw.push(term);
        } else {
            report.count("b_unexpected_outcome");
            report.notes.push(format!("{}: transaction not committed as planned", class));
        }
        *idx += 1;
    }
    // one atto less than the total cost cannot repay the loan: rejected, nothing taken
    {
        let tip = TipSpecifier::Percentage(3);
        let probe = vec![Lock { acct: 0, amount: dec!(500), contingent: false }];
        let ex = build_tx(ledger, accts, &probe, false, &tip, 1);
        let dry = ledger.execute_transaction_no_commit(ex, exec_config(&g));
        let fs = &dry.fee_summary;
        let total = fs.total_execution_cost_in_xrd + fs.total_finalization_cost_in_xrd + fs.total_tipping_cost_in_xrd + fs.total_storage_cost_in_xrd + fs.total_royalty_cost_in_xrd;
        let locks = vec![Lock { acct: 0, amount: total - attos(1), contingent: false }];
        let before = report.distribution.get("engine_not_committed").cloned().unwrap_or(0);
        let r = engine_case(ledger, accts, &g, &tip, &locks, Decimal::ZERO, false, 1, report, *idx);
        let after = report.distribution.get("engine_not_committed").cloned().unwrap_or(0);
        if r.is_none() && after == before + 1 {
            report.count("b_engine_lock_one_atto_below_total_cost_rejected");
        } else {
            report.count("b_unexpected_outcome");
            report.notes.push("lock one atto below the total cost was not rejected".into());
        }
        *idx += 1;
    }
}

fn main() {
    let args = Args::parse();
    let mut report = Report::new(
        "C06",
        args.seed,
        "(unit) random costing parameter sets / tips / free credit and op sequences on the real SystemLoanFeeReserve; \
         (engine) notarized V1/V2 transactions with 1-3 fee locks over 3 accounts, success/failure, overridden costing parameters, free credit; \
         (finding) replay of the inexact-tip witness. non-trivial: unit = more than 3 ops without panic; engine = more than one lock or a tip",
    );
    let mut cw = CaseWriter::new("RV.Corr.C06_run RV.Model.C06_Fee", "check");
    let root = Rng::new(args.seed);
    let thorough = args.tier == "thorough";
    let n_engine = if thorough { (args.cases / 30).max(40) } else { (args.cases / 30).max(18) };
    let n_unit = args.cases.saturating_sub(n_engine);
    let mut idx = 0usize;
    // deterministic boundary family (identical for every seed) before the random stream
    for term in unit_boundary_family(&mut report) {
        cw.push(term);
        idx += 1;
    }
    for _ in 0..n_unit {
        let mut rng = root.fork(idx as u64);
        let t = unit_case(&mut rng, &mut report, idx);
        cw.push(t);
        idx += 1;
    }
    // engine level
    let mut ledger: Ledger = LedgerSimulatorBuilder::new().without_kernel_trace().build();
    let mut accts = vec![];
    for _ in 0..3 {
        let (pk, sk, addr) = ledger.new_allocated_account();
        let vault = ledger.get_component_vaults(addr, XRD)[0];
        accts.push(Acct { pk, sk, addr, vault });
    }
    let _ = &accts[0].pk;
    {
        let a1 = RoyaltyAmount::Xrd(dec!(2));
        let a2 = RoyaltyAmount::Usd(dec!("0.03"));
        match (publish_royalty_package(&mut ledger, a1.clone()), publish_royalty_package(&mut ledger, a2.clone())) {
            (Some((p1, v1)), Some((p2, v2))) => {
                let _ = ROYALTY_PKGS.set(vec![(p1, a1, v1), (p2, a2, v2)]);
                report.count("royalty_package_published");
            }
            _ => report.notes.push("royalty package artefacts not found: engine-level royalty cases skipped".into()),
        }
    }
    engine_boundary_family(&mut ledger, &accts, &mut report, &mut cw, &mut idx);
    let g = CostingParameters::babylon_genesis();
    // the finding witness: price 0.000000050000000001 XRD, tip 1 %
    {
        let mut p = g;
        p.execution_cost_unit_price = attos(50_000_000_001);
        p.finalization_cost_unit_price = attos(50_000_000_001);
        if let Some(t) = finding_case(&mut ledger, &accts, &p, &TipSpecifier::Percentage(1), &mut report, idx) {
            cw.push(t);
        }
        idx += 1;
        // control: the same construction with genesis (exact) parameters cannot diverge
        let _ = finding_case(&mut ledger, &accts, &g, &TipSpecifier::Percentage(1), &mut report, idx);
        idx += 1;
    }
    for _ in 0..n_engine {
        let mut rng = root.fork(idx as u64);
        let mut p = g;
        if rng.chance(1, 3) {
            let price = *rng.pick(&[attos(50_000_000_001), attos(1), Decimal::ZERO, attos(123_456_789), attos(49_999_999_999)]);
            p.execution_cost_unit_price = price;
            if rng.bool() {
                p.finalization_cost_unit_price = price;
            }
            if rng.chance(1, 3) {
                p.state_storage_price = attos(95_367_430_000_001);
            }
        }
        let tip = match rng.below(8) {
            0 => TipSpecifier::None,
            1 | 2 => TipSpecifier::Percentage(*rng.pick(&[0u16, 1, 5, 100, 777])),
            3 => TipSpecifier::Percentage(rng.below(200) as u16),
            _ => TipSpecifier::BasisPoints(*rng.pick(&[0u32, 1, 33, 250, 10_000, 123_457])),
        };
        let nlocks = rng.range(1, 3) as usize;
        let mut locks = vec![];
        let mut order = vec![0usize, 1, 2];
        rng.shuffle(&mut order);
        for j in 0..nlocks {
            let amount = match rng.below(6) {
                0 => dec!("0.3"),
                1 => attos(rng.below(900_000_000_000_000_000) as i128),
                2 => dec!(400),
                _ => Decimal::from(5 + rng.below(40)),
            };
            locks.push(Lock { acct: order[j], amount, contingent: j > 0 && rng.chance(1, 2) });
        }
        let free = match rng.below(6) {
            0 => dec!("0.1"),
            1 => dec!(1000),
            _ => Decimal::ZERO,
        };
        let fail = rng.chance(1, 4);
        let work = rng.below(3);
        ROY_CALLS.with(|c| c.set(if rng.chance(1, 3) { (rng.below(3), rng.below(2)) } else { (0, 0) }));
        if let Some(t) = engine_case(&mut ledger, &accts, &p, &tip, &locks, free, fail, work, &mut report, idx) {
            cw.push(t);
        }
        idx += 1;
    }
    const REQUIRED: &[&str] = &[
        "b_unit_limits_at_equality_and_plus_1", "b_unit_balance_equals_amount_and_loan_off_by_one_atto",
        "b_unit_abort_when_loan_repaid", "b_unit_loan_threshold_minus_1_then_reached", "b_unit_deferred_costs_all_kinds",
        "b_unit_deferred_over_limit_and_u32_overflow", "b_unit_deferred_storage_fails_half_way",
        "b_unit_royalty_kinds_and_aggregation", "b_unit_royalty_revert_then_negative_panics",
        "b_unit_royalty_balance_equality", "b_unit_contingent_lock_not_in_balance", "b_unit_storage_types_sizes",
        "b_unit_share_rounding_small_network_fee", "b_unit_share_rounding_mixed_costs", "b_unit_share_rounding_with_tip",
        "b_unit_tip_one_basis_point_exact", "b_unit_tip_percentage_1", "b_unit_tip_basis_points_100",
        "b_unit_tip_percentage_max", "b_unit_tip_basis_points_max", "b_unit_tip_zero_percentage", "b_unit_tip_inexact_price",
        "b_unit_free_credit_covers_loan", "b_unit_new_negative_price", "b_unit_new_negative_free_credit",
        "b_unit_new_zero_prices", "b_unit_new_price_overflow", "b_unit_new_loan_overflow", "b_unit_new_free_credit_overflow",
        "b_engine_contingent_last_success", "b_engine_contingent_last_failure", "b_engine_contingent_first_success",
        "b_engine_contingent_first_failure", "b_engine_small_contingent_used_up_on_success", "b_engine_small_last_lock_used_up",
        "b_engine_three_locks", "b_engine_free_credit_unused", "b_engine_free_credit_partly_used",
        "b_engine_odd_prices_share_rounding", "b_engine_tip_basis_points", "b_engine_tip_percentage_large",
        "b_engine_royalty_success", "b_engine_royalty_reverted_on_failure", "b_engine_royalty_with_tip",
        "b_engine_usd_royalty_success", "b_engine_usd_royalty_odd_usd_price", "b_engine_usd_royalty_reverted_on_failure",
        "b_engine_lock_equals_total_cost", "b_engine_lock_one_atto_above_total_cost",
        "b_engine_lock_one_atto_below_total_cost_rejected",
    ];
    for c in REQUIRED {
        report.floor(c, 1);
    }
    report.floor("b_unit_share_rounding_small_network_fee", 6);
    report.floor("b_unit_new_negative_price", 5);
    report.floor("b_engine_three_locks", 2);
    report.floor("b_engine_free_credit_partly_used", 2);
    report.floor("b_engine_odd_prices_share_rounding", 2);
    report.floor("unit_OOk", n_unit as u64);
    report.floor("unit_OErr_InsufficientBalance", (n_unit as u64) / 20);
    report.floor("unit_params_tip_inexact", (n_unit as u64) / 20);
    report.floor("engine_commit_success", (n_engine as u64) / 4);
    report.floor("engine_commit_failure", 1);
    cw.write(&args.out, args.shards).unwrap();
    report.write(&args.out).unwrap();
}
