//! gen_c45: writes coq/Gen/C45_wasm_limits.v — the limits of `ScryptoV1WasmValidator::new(..)` (read
//! from the constructed validator), the stack limit of `WasmValidatorConfigV1`, the ScryptoVm version
//! numbers, and the host-import whitelist of `WasmModule::enforce_import_constraints`.
//!
//! The whitelist is not a data structure in the code (it is a 900-line `match`), so it is recovered
//! by *probing the code*: every `*_FUNCTION_NAME` constant of vm/wasm/constants.rs (enumerated from
//! the source text so that a new constant is noticed) is imported from "env" with every signature
//! `i32^n -> r` (n = 0..=10, r in {none, i32, i64}) at every ScryptoVm version, and the verdict of
//! `WasmModule::init(..)?.enforce_import_constraints(version)` is recorded. A name accepted with
//! exactly one probed signature gives a table row (name, n, r, min version); a name accepted with
//! none is listed as not importable. (Signatures outside the probe space — i64 parameters, several
//! results — are exercised by the correspondence harness, which expects them to be refused.)
use radix_engine::vm::wasm::*;
use radix_engine::vm::ScryptoVmVersion;
use std::fmt::Write as _;
use wasm_encoder as we;

fn module_with_import(name: &str, nparams: usize, result: u8) -> Vec<u8> {
    let mut m = we::Module::new();
    let mut types = we::TypeSection::new();
    let res: Vec<we::ValType> = match result {
        0 => vec![],
        1 => vec![we::ValType::I32],
        _ => vec![we::ValType::I64],
    };
    types.function(vec![we::ValType::I32; nparams], res);
    m.section(&types);
    let mut imports = we::ImportSection::new();
    imports.import("env", name, we::EntityType::Function(0));
    m.section(&imports);
    m.finish()
}

/// 0 = accepted, 1 = ImportNotAllowed, 2 = InvalidFunctionType, 3 = ProtocolVersionMismatch, 9 = other
fn probe(code: &[u8], v: ScryptoVmVersion) -> u8 {
    match WasmModule::init(code).and_then(|m| m.enforce_import_constraints(v)) {
        Ok(_) => 0,
        Err(PrepareError::InvalidImport(InvalidImport::ImportNotAllowed(_))) => 1,
        Err(PrepareError::InvalidImport(InvalidImport::InvalidFunctionType(_))) => 2,
        Err(PrepareError::InvalidImport(InvalidImport::ProtocolVersionMismatch { .. })) => 3,
        Err(_) => 9,
    }
}

fn bytes_lit(s: &str) -> String {
    let v: Vec<String> = s.bytes().map(|b| b.to_string()).collect();
    format!("[{}]", v.join(";"))
}

fn main() {
    let args: Vec<String> = std::env::args().collect();
    let out = args
        .iter()
        .position(|a| a == "--out")
        .and_then(|i| args.get(i + 1))
        .expect("--out <file>")
        .clone();

    // versions: 0.. while TryFrom<u64> succeeds
    let mut versions: Vec<ScryptoVmVersion> = Vec::new();
    for n in 0u64..16 {
        if let Ok(v) = ScryptoVmVersion::try_from(n) {
            assert_eq!(u64::from(v), n);
            versions.push(v);
        } else {
            break;
        }
    }
    let latest = ScryptoVmVersion::latest();
    let val = ScryptoV1WasmValidator::new(latest);

    // candidate names from the source text of constants.rs
    let src = std::fs::read_to_string("/repo/radix-engine/src/vm/wasm/constants.rs").expect("constants.rs");
    let flat: String = src.split_whitespace().collect::<Vec<_>>().join(" ");
    let mut names: Vec<(String, String)> = Vec::new(); // (const ident, value)
    for part in flat.split("pub const ").skip(1) {
        let ident = part.split(':').next().unwrap().trim().to_string();
        if !ident.ends_with("_FUNCTION_NAME") {
            continue;
        }
        let q1 = part.find('"').expect("string literal");
        let rest = &part[q1 + 1..];
        let q2 = rest.find('"').expect("string literal end");
        names.push((ident, rest[..q2].to_string()));
    }
    assert!(names.len() >= 40, "constants.rs not parsed");
    names.sort_by(|a, b| a.1.cmp(&b.1));

    let mut rows: Vec<(String, usize, u8, u64)> = Vec::new();
    let mut not_importable: Vec<String> = Vec::new();
    let mut ambiguous: Vec<String> = Vec::new(); // accepted with more than one probed signature: the signature is not checked
    for (_, name) in &names {
        let mut accepted: Vec<(usize, u8)> = Vec::new();
        for n in 0..=10usize {
            for r in 0..3u8 {
                if probe(&module_with_import(name, n, r), latest) == 0 {
                    accepted.push((n, r));
                }
            }
        }
        // the same probing at every other version: a name accepted with more than one signature at ANY
        // version has its signature check skipped there
        let mut multi_at_some_version = false;
        for v in &versions {
            let mut cnt = 0;
            for n in 0..=10usize {
                for r in 0..3u8 {
                    if probe(&module_with_import(name, n, r), *v) == 0 {
                        cnt += 1;
                    }
                }
            }
            if cnt > 1 {
                multi_at_some_version = true;
            }
        }
        if multi_at_some_version && accepted.len() <= 1 {
            ambiguous.push(name.clone());
        }
        match accepted.len() {
            0 => not_importable.push(name.clone()),
            1 => {
                let (n, r) = accepted[0];
                let code = module_with_import(name, n, r);
                let minv = versions
                    .iter()
                    .find(|v| probe(&code, **v) == 0)
                    .map(|v| u64::from(*v))
                    .expect("accepted at latest");
                rows.push((name.clone(), n, r, minv));
            }
            _ => ambiguous.push(name.clone()),
        }
    }

    let mut s = String::new();
    let _ = writeln!(s, "(* GENERATED by harness/engine/src/bin/gen_c45.rs from /repo — do not edit. *)");
    let _ = writeln!(s, "From Coq Require Import List NArith.\nImport ListNotations.\nOpen Scope N_scope.\n");
    let _ = writeln!(s, "(* ScryptoV1WasmValidator::new(ScryptoVmVersion::latest()) *)");
    let _ = writeln!(s, "Definition c45_max_memory_size_in_pages : N := {}.", val.max_memory_size_in_pages);
    let _ = writeln!(s, "Definition c45_max_initial_table_size : N := {}.", val.max_initial_table_size);
    let _ = writeln!(s, "Definition c45_max_number_of_br_table_targets : N := {}.", val.max_number_of_br_table_targets);
    let _ = writeln!(s, "Definition c45_max_number_of_functions : N := {}.", val.max_number_of_functions);
    let _ = writeln!(s, "Definition c45_max_number_of_function_params : N := {}.", val.max_number_of_function_params);
    let _ = writeln!(s, "Definition c45_max_number_of_function_locals : N := {}.", val.max_number_of_function_locals);
    let _ = writeln!(s, "Definition c45_max_number_of_globals : N := {}.", val.max_number_of_globals);
    let _ = writeln!(s, "(* WasmValidatorConfigV1::new().max_stack_size() *)");
    let _ = writeln!(s, "Definition c45_max_stack_size : N := {}.", val.instrumenter_config.max_stack_size());
    let _ = writeln!(s, "(* ScryptoVmVersion as u64 *)");
    let _ = writeln!(s, "Definition c45_versions : list N := [{}].", versions.iter().map(|v| u64::from(*v).to_string()).collect::<Vec<_>>().join("; "));
    let _ = writeln!(s, "Definition c45_version_latest : N := {}.", u64::from(latest));
    let _ = writeln!(s, "Definition c45_env_module : list N := {}. (* \"{}\" *)", bytes_lit(MODULE_ENV_NAME), MODULE_ENV_NAME);
    let _ = writeln!(s, "Definition c45_export_memory : list N := {}. (* \"{}\" *)", bytes_lit(EXPORT_MEMORY), EXPORT_MEMORY);
    let _ = writeln!(
        s,
        "Definition c45_gas_function : list N := {}. (* \"{}\" *)",
        bytes_lit(COSTING_CONSUME_WASM_EXECUTION_UNITS_FUNCTION_NAME),
        COSTING_CONSUME_WASM_EXECUTION_UNITS_FUNCTION_NAME
    );
    let _ = writeln!(s, "\n(* host import whitelist recovered by probing enforce_import_constraints:");
    let _ = writeln!(s, "   (name, (number of i32 parameters, result: 0 none / 1 i32 / 2 i64, minimal ScryptoVm version)) *)");
    let _ = writeln!(s, "Definition c45_host_imports : list (list N * (N * N * N)) := [");
    for (i, (name, n, r, v)) in rows.iter().enumerate() {
        let _ = writeln!(
            s,
            "  ({}, ({}, {}, {})){} (* {} *)",
            bytes_lit(name),
            n,
            r,
            v,
            if i + 1 < rows.len() { ";" } else { "" },
            name
        );
    }
    let _ = writeln!(s, "].");
    let _ = writeln!(s, "(* *_FUNCTION_NAME constants that no probed signature can import *)");
    let _ = writeln!(s, "Definition c45_not_importable : list (list N) := [");
    for (i, name) in not_importable.iter().enumerate() {
        let _ = writeln!(s, "  {}{} (* {} *)", bytes_lit(name), if i + 1 < not_importable.len() { ";" } else { "" }, name);
    }
    let _ = writeln!(s, "].");
    let _ = writeln!(s, "(* names accepted with MORE THAN ONE probed signature (their signature is not enforced): must be empty *)");
    let _ = writeln!(s, "Definition c45_ambiguous_imports : list (list N) := [");
    for (i, name) in ambiguous.iter().enumerate() {
        let _ = writeln!(s, "  {}{} (* {} *)", bytes_lit(name), if i + 1 < ambiguous.len() { ";" } else { "" }, name);
    }
    let _ = writeln!(s, "].");
    std::fs::write(&out, s).expect("write");
}
