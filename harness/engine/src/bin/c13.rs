//! C13 correspondence harness: drives the real `SubstateLocks<u32>` with random request sequences
//! and writes the requests + observed outputs as Coq case files (model: coq/Model/C13_Locks.v).
//! Direct oracle (independent of the Coq model): a plain reader/writer table kept in the harness.
use radix_common::prelude::*;
use radix_engine::kernel::substate_locks::SubstateLocks;
use serde_json::json;
use std::collections::BTreeMap;
use vh_common::*;

#[derive(Clone, Debug)]
enum Op {
    Lock(usize, bool, u32), // key index, read_only, data
    Unlock(u32),
    Get(u32),
    IsLocked(usize),
    NodeIsLocked(usize),
}

#[derive(Clone, Debug, PartialEq)]
enum Out {
    Lock(Option<u32>),
    Entry(usize, u32),
    Bool(bool),
    Panic,
}

const NODES: usize = 3;
const PARTS: usize = 2;
const KEYS: usize = 3;

fn key_of(i: usize) -> (NodeId, PartitionNumber, SubstateKey) {
    let n = i / (PARTS * KEYS);
    let p = (i / KEYS) % PARTS;
    let k = i % KEYS;
    let mut node = [0u8; NodeId::LENGTH];
    node[0] = 0x5d; // some entity byte
    node[29] = n as u8;
    let sk = match k {
        0 => SubstateKey::Field(0u8),
        1 => SubstateKey::Map(vec![1u8, 2, 3]),
        _ => SubstateKey::Sorted(([0u8, 9], vec![7u8])),
    };
    (NodeId(node), PartitionNumber(p as u8), sk)
}
fn key_coq(i: usize) -> String {
    format!("({},{},{})", i / (PARTS * KEYS), (i / KEYS) % PARTS, i % KEYS)
}
fn index_of(e: &(NodeId, PartitionNumber, SubstateKey, u32)) -> usize {
    for i in 0..NODES * PARTS * KEYS {
        let k = key_of(i);
        if k.0 == e.0 && k.1 == e.1 && k.2 == e.2 {
            return i;
        }
    }
    usize::MAX
}

/// Generates and runs one request sequence. Generation is adaptive: the set of really open
/// handles is tracked from the implementation's answers so that most unlock/get requests hit open
/// handles; a small fraction targets closed or never-issued handles (documented panic, run ends).
fn gen_and_run(rng: &mut Rng, len: usize) -> (Vec<Op>, Vec<Out>) {
    let mut locks: SubstateLocks<u32> = SubstateLocks::new();
    let mut ops = Vec::new();
    let mut outs = Vec::new();
    let mut issued: u32 = 0;
    let mut open: Vec<u32> = Vec::new();
    let hot = rng.usize_below(NODES * PARTS * KEYS); // a hot key makes conflicts frequent
    let bad_handle_den = if rng.chance(1, 3) { 30 } else { 400 };
    for _ in 0..len {
        let r = rng.below(100);
        let key = if rng.chance(1, 2) { hot } else { rng.usize_below(NODES * PARTS * KEYS) };
        let op = if r < 40 {
            Op::Lock(key, rng.chance(3, 5), rng.next_u32() % 1000)
        } else if r < 70 {
            if !open.is_empty() && !rng.chance(1, bad_handle_den) {
                Op::Unlock(*rng.pick(&open))
            } else if open.is_empty() && !rng.chance(1, bad_handle_den) {
                Op::IsLocked(key)
            } else {
                Op::Unlock(rng.next_u32() % (issued + 3))
            }
        } else if r < 80 {
            if !open.is_empty() && !rng.chance(1, bad_handle_den) {
                Op::Get(*rng.pick(&open))
            } else if open.is_empty() && !rng.chance(1, bad_handle_den) {
                Op::NodeIsLocked(rng.usize_below(NODES + 1))
            } else {
                Op::Get(rng.next_u32() % (issued + 3))
            }
        } else if r < 90 {
            Op::IsLocked(key)
        } else {
            Op::NodeIsLocked(rng.usize_below(NODES + 1))
        };
        let out = run_one(&mut locks, &op);
        match (&op, &out) {
            (Op::Lock(..), Out::Lock(Some(h))) => {
                open.push(*h);
                issued = issued.max(*h + 1);
            }
            (Op::Unlock(h), Out::Entry(..)) => open.retain(|x| x != h),
            _ => {}
        }
        ops.push(op);
        let stop = out == Out::Panic;
        outs.push(out);
        if stop {
            break;
        }
    }
    (ops, outs)
}

fn run_one(locks: &mut SubstateLocks<u32>, op: &Op) -> Out {
    let r = catch(std::panic::AssertUnwindSafe(|| match op {
        Op::Lock(k, ro, d) => {
            let key = key_of(*k);
            Out::Lock(locks.lock(&key.0, key.1, &key.2, *ro, *d))
        }
        Op::Unlock(h) => {
            let e = locks.unlock(*h);
            Out::Entry(index_of(&e), e.3)
        }
        Op::Get(h) => {
            let e = locks.get(*h);
            Out::Entry(index_of(e), e.3)
        }
        Op::IsLocked(k) => {
            let key = key_of(*k);
            Out::Bool(locks.is_locked(&key.0, key.1, &key.2))
        }
        Op::NodeIsLocked(n) => {
            let mut node = [0u8; NodeId::LENGTH];
            node[0] = 0x5d;
            node[29] = *n as u8;
            Out::Bool(locks.node_is_locked(&NodeId(node)))
        }
    }));
    r.unwrap_or(Out::Panic)
}

/// The property itself, evaluated in the harness with a plain table of open handles.
fn oracle(ops: &[Op], outs: &[Out]) -> Result<(), String> {
    let mut open: BTreeMap<u32, (usize, bool, u32)> = BTreeMap::new(); // handle -> key, ro, data
    let mut ever: std::collections::BTreeSet<u32> = Default::default();
    for (i, (op, out)) in ops.iter().zip(outs.iter()).enumerate() {
        match (op, out) {
            (Op::Lock(k, ro, d), Out::Lock(r)) => {
                let writer = open.values().any(|(k2, ro2, _)| k2 == k && !*ro2);
                let any = open.values().any(|(k2, _, _)| k2 == k);
                let expect = if *ro { !writer } else { !any };
                if r.is_some() != expect {
                    return Err(format!("step {}: lock granted={} expected={}", i, r.is_some(), expect));
                }
                if let Some(h) = r {
                    if !ever.insert(*h) {
                        return Err(format!("step {}: handle {} reused", i, h));
                    }
                    open.insert(*h, (*k, *ro, *d));
                }
            }
            (Op::Unlock(h), o) | (Op::Get(h), o) => match (open.get(h).cloned(), o) {
                (Some((k, _, d)), Out::Entry(k2, d2)) => {
                    if k != *k2 || d != *d2 {
                        return Err(format!("step {}: wrong entry for handle {}", i, h));
                    }
                    if matches!(op, Op::Unlock(_)) {
                        open.remove(h);
                    }
                }
                (None, Out::Panic) => return Ok(()), // closed handle: documented panic, run ends
                (Some(_), Out::Panic) => return Err(format!("step {}: panic on open handle {}", i, h)),
                (None, _) => return Err(format!("step {}: closed handle {} usable", i, h)),
                _ => return Err(format!("step {}: unexpected output", i)),
            },
            (Op::IsLocked(k), Out::Bool(b)) => {
                let any = open.values().any(|(k2, _, _)| k2 == k);
                if any != *b {
                    return Err(format!("step {}: is_locked={} expected={}", i, b, any));
                }
            }
            (Op::NodeIsLocked(n), Out::Bool(b)) => {
                let any = open.values().any(|(k2, _, _)| k2 / (PARTS * KEYS) == *n);
                if any != *b {
                    return Err(format!("step {}: node_is_locked={} expected={}", i, b, any));
                }
            }
            _ => return Err(format!("step {}: output kind mismatch", i)),
        }
    }
    Ok(())
}

fn op_coq(op: &Op) -> String {
    match op {
        Op::Lock(k, ro, d) => format!("OpLock {} {} {}", key_coq(*k), coq_bool(*ro), d),
        Op::Unlock(h) => format!("OpUnlock {}", h),
        Op::Get(h) => format!("OpGet {}", h),
        Op::IsLocked(k) => format!("OpIsLocked {}", key_coq(*k)),
        Op::NodeIsLocked(n) => format!("OpNodeIsLocked {}", n),
    }
}
fn out_coq(o: &Out) -> String {
    match o {
        Out::Lock(Some(h)) => format!("OutLock (Some {})", h),
        Out::Lock(None) => "OutLock None".to_string(),
        Out::Entry(k, d) => format!("OutEntry {} {}", key_coq(*k), d),
        Out::Bool(b) => format!("OutBool {}", coq_bool(*b)),
        Out::Panic => "OutPanic".to_string(),
    }
}

fn main() {
    let args = Args::parse();
    let mut report = Report::new(
        "C13",
        args.seed,
        "random lock/unlock/get/is_locked/node_is_locked sequences (len 1..200) over 3 nodes x 2 partitions x 3 keys with a hot key; \
         non-trivial = at least one refused lock and one successful unlock; distinct by canonical text of the op list",
    );
    let mut cw = CaseWriter::new("RV.Corr.C13_run RV.Model.C13_Locks", "check");
    let root = Rng::new(args.seed);
    for i in 0..args.cases {
        let mut rng = root.fork(i as u64);
        let len = if i % 10 == 0 { rng.range(1, 12) } else { rng.range(20, 200) } as usize;
        let (ops, outs) = gen_and_run(&mut rng, len);
        let used = &ops[..outs.len()];
        let refused = outs.iter().any(|o| matches!(o, Out::Lock(None)));
        let unlocked = used.iter().zip(outs.iter()).any(|(op, o)| matches!((op, o), (Op::Unlock(_), Out::Entry(_, _))));
        let canon = used.iter().map(op_coq).collect::<Vec<_>>().join(";");
        report.case(&canon, refused && unlocked);
        report.count(if matches!(outs.last(), Some(Out::Panic)) { "runs_ending_in_closed_handle_panic" } else { "runs_without_panic" });
        report.count_n("lock_granted", outs.iter().filter(|o| matches!(o, Out::Lock(Some(_)))).count() as u64);
        report.count_n("lock_refused", outs.iter().filter(|o| matches!(o, Out::Lock(None))).count() as u64);
        report.count_n("unlock_ok", used.iter().zip(outs.iter()).filter(|(op, o)| matches!((op, o), (Op::Unlock(_), Out::Entry(_, _)))).count() as u64);
        report.count_n("ops_total", outs.len() as u64);
        if let Err(what) = oracle(used, &outs) {
            report.oracle_failure(i, "", &what, json!({"ops": used.iter().map(op_coq).collect::<Vec<_>>(), "outs": outs.iter().map(out_coq).collect::<Vec<_>>()}));
        }
        if i < 2 {
            report.sample(json!({"ops": used.iter().take(25).map(op_coq).collect::<Vec<_>>(), "outs": outs.iter().take(25).map(out_coq).collect::<Vec<_>>()}));
        }
        cw.push(format!(
            "({}, {})",
            coq_list(used.iter().map(op_coq)),
            coq_list(outs.iter().map(out_coq))
        ));
    }
    report.floor("lock_refused", (args.cases as u64) / 2);
    report.floor("unlock_ok", (args.cases as u64) / 2);
    cw.write(&args.out, args.shards).unwrap();
    report.write(&args.out).unwrap();
}
