//! C01 harness: transaction execution is deterministic.
//!
//! A random history (`vh_engine::histories`: native blueprints + the WASM faucet component) is built;
//! before each transaction is committed, the SAME executable is executed (without commit) on the
//! SAME database snapshot
//!   * under every combination of the diagnostic-only execution settings cost breakdown on/off ×
//!     execution trace none/depth 1/depth 5 × debug information on/off (12 configurations; the
//!     kernel trace flag only prints to stdout and is exercised once per 10 cases with the base
//!     configuration),
//!   * with a cold VM (fresh `VmModules`, empty code cache) and with a warm one shared by all runs,
//!   * on 8 threads concurrently (each thread runs all 12 configurations against the shared
//!     database and the shared warm VM),
//!   * in a SECOND OS PROCESS: the harness re-executes itself (`--child 1`) with the same seed; the
//!     child rebuilds the same history from scratch (fresh address space, fresh hash seeds) and
//!     writes the digest of every transaction's reference result, which the parent compares with
//!     its own at the end,
//! and the harness requires byte-identical SBOR encodings of (state updates in order, application
//! events, outcome, fee summary, fee source, fee destination, result kind). Direct oracle = that
//! byte comparison. There is no per-case model evaluation (Gallina functions are deterministic by
//! construction); the proved part is the id allocator (Props/C01.v).
use radix_common::prelude::*;
use radix_engine::kernel::id_allocator::IdAllocator;
use radix_engine::transaction::*;
use radix_engine::vm::wasm::DefaultWasmEngine;
use radix_engine::vm::*;
use radix_transactions::model::ExecutableTransaction;
use serde_json::json;
use vh_common::*;
use vh_engine::histories::*;

fn digest(r: &TransactionReceipt) -> Vec<u8> {
    match &r.result {
        TransactionResult::Commit(c) => scrypto_encode(&(
            0u8,
            &c.state_updates,
            &c.application_events,
            &c.outcome,
            &r.fee_summary,
            &c.fee_source,
            &c.fee_destination,
            &c.state_update_summary,
        ))
        .unwrap(),
        TransactionResult::Reject(x) => scrypto_encode(&(1u8, format!("{:?}", x.reason), &r.fee_summary)).unwrap(),
        TransactionResult::Abort(x) => scrypto_encode(&(2u8, format!("{:?}", x.reason), &r.fee_summary)).unwrap(),
    }
}

fn configs(base: &ExecutionConfig) -> Vec<ExecutionConfig> {
    let mut v = Vec::new();
    for cb in [false, true] {
        for et in [None, Some(1usize), Some(5usize)] {
            for dbg in [false, true] {
                let mut c = base.clone();
                c.enable_cost_breakdown = cb;
                c.execution_trace = et;
                c.enable_debug_information = dbg;
                c.enable_kernel_trace = false;
                v.push(c);
            }
        }
    }
    v
}

const ENTITY_TYPES: &[EntityType] = &[
    EntityType::GlobalPackage,
    EntityType::GlobalConsensusManager,
    EntityType::GlobalValidator,
    EntityType::GlobalTransactionTracker,
    EntityType::GlobalGenericComponent,
    EntityType::GlobalAccount,
    EntityType::GlobalIdentity,
    EntityType::GlobalAccessController,
    EntityType::GlobalOneResourcePool,
    EntityType::GlobalTwoResourcePool,
    EntityType::GlobalMultiResourcePool,
    EntityType::GlobalAccountLocker,
    EntityType::GlobalPreallocatedSecp256k1Account,
    EntityType::GlobalPreallocatedSecp256k1Identity,
    EntityType::GlobalPreallocatedEd25519Account,
    EntityType::GlobalPreallocatedEd25519Identity,
    EntityType::GlobalFungibleResourceManager,
    EntityType::InternalFungibleVault,
    EntityType::GlobalNonFungibleResourceManager,
    EntityType::InternalNonFungibleVault,
    EntityType::InternalGenericComponent,
    EntityType::InternalKeyValueStore,
];

/// One id-allocator case: the real `IdAllocator` on (transaction hash, entity-type sequence).
/// Oracle (independent of the allocator): byte 0 of the k-th id is the entity type, the other 29
/// bytes are bytes 3..32 of hash(tx hash ++ le32(k)), and all ids are pairwise distinct.
fn alloc_case(i: usize, txh: [u8; 32], etys: &[EntityType], class: &str, report: &mut Report, cw: &mut CaseWriter) {
    report.count(&format!("alloc_{}", class));
    let mut a = IdAllocator::new(Hash(txh));
    let mut ids: Vec<NodeId> = Vec::new();
    for e in etys {
        match a.allocate_node_id(*e) {
            Ok(id) => ids.push(id),
            Err(_) => break,
        }
    }
    let mut bad = Vec::new();
    if ids.len() != etys.len() {
        bad.push("allocation failed before u32::MAX ids".to_string());
    }
    let mut seen = std::collections::BTreeSet::new();
    for (k, id) in ids.iter().enumerate() {
        if !seen.insert(id.0) {
            bad.push(format!("id {} was handed out twice ({:?})", k, id));
        }
        if id.0[0] != etys[k] as u8 {
            bad.push(format!("id {} does not carry its entity type", k));
        }
        let mut buf = txh.to_vec();
        buf.extend_from_slice(&(k as u32).to_le_bytes());
        let h = hash(&buf);
        if id.0[1..] != h.0[3..] {
            bad.push(format!("id {} is not hash(tx hash ++ le32({}))", k, k));
        }
    }
    if !bad.is_empty() {
        report.oracle_failure(
            i,
            "",
            &format!("node id allocation is not an injective function of (transaction hash, counter): {}", bad.join("; ")),
            json!({"tx_hash": hex(&txh), "entity_types": etys.iter().map(|e| *e as u8).collect::<Vec<u8>>(), "class": class}),
        );
    }
    report.case(&format!("alloc:{}:{:?}", hex(&txh), etys), etys.len() > 1);
    cw.push(format!(
        "({}, {}, {})",
        coq_bytes(&txh),
        coq_list(etys.iter().map(|e| coq_n(*e as u8))),
        coq_list(ids.iter().map(|id| coq_bytes(&id.0)))
    ));
}

fn main() {
    let args = Args::parse();
    let mut report = Report::new(
        "C01",
        args.seed,
        "random history; a case = one transaction executed 12 configurations × (cold + warm VM) + 8 threads × 12 configurations on the same \
         snapshot, all results compared byte for byte, then committed; non-trivial = the transaction commits with at least one state update; \
         distinct by digest of the reference result",
    );
    let root = Rng::new(args.seed);
    let mut cw = CaseWriter::new("RV.Corr.C01_run RV.Model.C01_IdAlloc", "check");
    if !args.extra.contains_key("child") {
        // ---- id allocator: deterministic boundary family, then random sequences
        let all: Vec<EntityType> = ENTITY_TYPES.to_vec();
        alloc_case(0, [0u8; 32], &[], "empty_sequence", &mut report, &mut cw);
        alloc_case(1, [0u8; 32], &[EntityType::InternalKeyValueStore], "single", &mut report, &mut cw);
        alloc_case(2, [0u8; 32], &all, "every_entity_type_once_zero_hash", &mut report, &mut cw);
        alloc_case(3, [0xffu8; 32], &all, "every_entity_type_once_ff_hash", &mut report, &mut cw);
        for (k, e) in ENTITY_TYPES.iter().enumerate() {
            // the same entity type three times in a row, between two others: a counter that is not
            // advanced for one entity type repeats an id here
            let seq = [EntityType::GlobalAccount, *e, *e, *e, EntityType::InternalFungibleVault];
            let mut h = [7u8; 32];
            h[31] = k as u8;
            alloc_case(4 + k, h, &seq, "same_type_repeated", &mut report, &mut cw);
        }
        let rev: Vec<EntityType> = all.iter().rev().cloned().collect();
        alloc_case(30, [1u8; 32], &[all.clone(), rev, all.clone()].concat(), "long_sequence_66", &mut report, &mut cw);
        for j in 0..10usize {
            let mut rng = root.fork(9_000_000 + j as u64);
            let n = 1 + rng.usize_below(40);
            let seq: Vec<EntityType> = (0..n).map(|_| *rng.pick(ENTITY_TYPES)).collect();
            let txh: [u8; 32] = rng.bytes(32).try_into().unwrap();
            alloc_case(40 + j, txh, &seq, "random", &mut report, &mut cw);
        }
        report.floor("alloc_empty_sequence", 1);
        report.floor("alloc_single", 1);
        report.floor("alloc_every_entity_type_once_zero_hash", 1);
        report.floor("alloc_every_entity_type_once_ff_hash", 1);
        report.floor("alloc_same_type_repeated", ENTITY_TYPES.len() as u64);
        report.floor("alloc_long_sequence_66", 1);
        report.floor("alloc_random", 10);
    }
    let mut world = match World::try_new() {
        Ok(w) => w,
        Err(msg) => {
            report.oracle_failure(0, "", &format!("the engine failed while bootstrapping the ledger and creating accounts: {}", msg.chars().take(400).collect::<String>()), json!({"phase": "bootstrap", "seed": args.seed}));
            report.write(&args.out).unwrap();
            return;
        }
    };
    let warm = VmModules::<DefaultWasmEngine, NoExtension>::default();
    let is_child = args.extra.contains_key("child");
    if is_child {
        // second-process mode: reference digests only
        let mut lines = String::new();
        let plan_len = boundary_plan().len();
        for i in 0..(plan_len + args.cases) {
            let mut rng = root.fork(i as u64);
            let tx = if i < plan_len {
                match world.boundary_step(i) {
                    Some((_, tx)) => tx,
                    None => continue,
                }
            } else {
                world.next_tx(&mut rng)
            };
            if i < plan_len && i % 3 != 0 {
                let _ = world.run(&tx);
                continue;
            }
            let nonce = 1_000_000 + i as u32;
            if let Ok(exe) = world.executable(&tx, nonce) {
                let base = World::config(&tx);
                let cfgs = configs(&base);
                let db = world.db();
                if let Ok(d) = catch(std::panic::AssertUnwindSafe(|| digest(&execute_transaction(db, &warm, &cfgs[0], &exe)))) {
                    lines.push_str(&format!("{} {:016x} {}\n", i, fnv1a(&d), d.len()));
                }
            }
            let _ = world.run(&tx);
        }
        std::fs::write(args.out.join("child_digests.txt"), lines).unwrap();
        return;
    }
    let child_dir = args.out.join("child");
    let child = std::process::Command::new(std::env::current_exe().unwrap())
        .args(["--seed", &args.seed.to_string(), "--cases", &args.cases.to_string(), "--out", child_dir.to_str().unwrap(), "--child", "1"])
        .stdout(std::process::Stdio::null())
        .stderr(std::process::Stdio::null())
        .spawn();
    let mut own: Vec<(usize, String)> = Vec::new();
    let plan = boundary_plan();
    let plan_len = plan.len();
    for i in 0..(plan_len + args.cases) {
        let mut rng = root.fork(i as u64);
        // the deterministic boundary family first (every third step gets the full differential
        // treatment, the others are only committed so that the script's state evolves), then random
        let tx = if i < plan_len {
            match world.boundary_step(i) {
                Some((_, tx)) => tx,
                None => {
                    report.count("bf_skipped");
                    continue;
                }
            }
        } else {
            world.next_tx(&mut rng)
        };
        if i < plan_len && i % 3 != 0 {
            let _ = world.run(&tx);
            continue;
        }
        if i < plan_len {
            report.count("bf_differential_steps");
        }
        report.count(&format!("tx_{}", tx.label));
        let nonce = 1_000_000 + i as u32;
        let exe: ExecutableTransaction = match world.executable(&tx, nonce) {
            Ok(e) => e,
            Err(e) => {
                report.notes.push(format!("case {}: not executable: {}", i, e));
                continue;
            }
        };
        let base = World::config(&tx);
        let cfgs = configs(&base);
        let db = world.db();
        let input = json!({"index": i, "tx": tx.label, "seed": args.seed, "manifest": format!("{:?}", tx.body).chars().take(1200).collect::<String>()});
        let reference = match catch(std::panic::AssertUnwindSafe(|| digest(&execute_transaction(db, &warm, &cfgs[0], &exe)))) {
            Ok(d) => d,
            Err(p) => {
                report.oracle_failure(i, "", &format!("engine panicked: {}", p.chars().take(300).collect::<String>()), input);
                continue;
            }
        };
        own.push((i, format!("{:016x} {}", fnv1a(&reference), reference.len())));
        let mut diffs: Vec<String> = Vec::new();
        let mut runs = 1u64;
        for (k, c) in cfgs.iter().enumerate() {
            let cold = VmModules::<DefaultWasmEngine, NoExtension>::default();
            let d1 = catch(std::panic::AssertUnwindSafe(|| digest(&execute_transaction(db, &cold, c, &exe))));
            let d2 = catch(std::panic::AssertUnwindSafe(|| digest(&execute_transaction(db, &warm, c, &exe))));
            runs += 2;
            if d1.as_ref().ok() != Some(&reference) {
                diffs.push(format!("config {} (breakdown={} trace={:?} debug={}) cold VM differs", k, c.enable_cost_breakdown, c.execution_trace, c.enable_debug_information));
            }
            if d2.as_ref().ok() != Some(&reference) {
                diffs.push(format!("config {} (breakdown={} trace={:?} debug={}) warm VM differs", k, c.enable_cost_breakdown, c.execution_trace, c.enable_debug_information));
            }
        }
        // 8 threads concurrently on the same database and the same warm VM
        let thread_results: Vec<Vec<Option<Vec<u8>>>> = std::thread::scope(|s| {
            let hs: Vec<_> = (0..8)
                .map(|t| {
                    let cfgs = &cfgs;
                    let exe = &exe;
                    let warm = &warm;
                    s.spawn(move || {
                        (0..cfgs.len())
                            .map(|k| {
                                let c = &cfgs[(k + t) % cfgs.len()];
                                std::panic::catch_unwind(std::panic::AssertUnwindSafe(|| digest(&execute_transaction(db, warm, c, exe)))).ok()
                            })
                            .collect::<Vec<_>>()
                    })
                })
                .collect();
            hs.into_iter().map(|h| h.join().unwrap_or_default()).collect()
        });
        for (t, rs) in thread_results.iter().enumerate() {
            for (k, r) in rs.iter().enumerate() {
                runs += 1;
                if r.as_ref() != Some(&reference) {
                    diffs.push(format!("thread {} run {} differs", t, k));
                }
            }
        }
        if i % 10 == 0 {
            // kernel trace (prints the trace to stdout; results must not change)
            let c = cfgs[0].clone().with_kernel_trace(true);
            let gag = catch(std::panic::AssertUnwindSafe(|| digest(&execute_transaction(db, &warm, &c, &exe))));
            runs += 1;
            if gag.as_ref().ok() != Some(&reference) {
                diffs.push("kernel trace on: result differs".into());
            }
            report.count("kernel_trace_runs");
        }
        report.count_n("executions", runs);
        if !diffs.is_empty() {
            report.oracle_failure(i, "", &format!("same transaction, same state, different results: {}", diffs.iter().take(5).cloned().collect::<Vec<_>>().join("; ")), input);
        }
        // commit and move on
        match world.run(&tx) {
            Ok(r) => {
                report.count(&format!("outcome_{}", outcome_class(&r)));
                let nontrivial = matches!(&r.result, TransactionResult::Commit(c) if !c.state_updates.by_node.is_empty());
                report.case(&hex(&reference), nontrivial);
            }
            Err(p) => report.oracle_failure(i, "", &format!("engine panicked on commit: {}", p.chars().take(300).collect::<String>()), json!({"index": i})),
        }
    }
    // second OS process
    match child {
        Ok(mut c) => {
            let _ = c.wait();
            match std::fs::read_to_string(child_dir.join("child_digests.txt")) {
                Ok(text) => {
                    let theirs: std::collections::BTreeMap<usize, String> = text
                        .lines()
                        .filter_map(|l| l.split_once(' ').map(|(a, b)| (a.parse::<usize>().unwrap_or(usize::MAX), b.to_string())))
                        .collect();
                    for (i, d) in &own {
                        report.count("second_process_compared");
                        if theirs.get(i) != Some(d) {
                            report.oracle_failure(*i, "", &format!("second OS process computed a different result for transaction {}: {:?} vs {}", i, theirs.get(i), d), json!({"index": i, "seed": args.seed}));
                        }
                    }
                }
                Err(e) => report.notes.push(format!("second process produced no digests: {}", e)),
            }
        }
        Err(e) => report.notes.push(format!("could not spawn the second process: {}", e)),
    }
    let n = args.cases as u64;
    report.floor("bf_differential_steps", (plan_len as u64) / 3 - 2);
    report.floor("second_process_compared", n / 2 + (plan_len as u64) / 3 - 2);
    report.floor("executions", n * 100);
    report.floor("outcome_success", n / 3);
    cw.write(&args.out, args.shards).unwrap();
    report.write(&args.out).unwrap();
}
