//! C04 harness: total supply always equals the sum of all vaults.
//!
//! Several independent random histories (`vh_engine::histories`, fresh ledger each; `--cases` =
//! total number of transactions, split into histories of ~50). After EVERY commit the whole
//! database is scanned (own scan, not the engine's checkers) and the direct oracle checks
//!   * every resource that tracks its supply: TotalSupply == sum of all its vault balances;
//!   * no vault balance is negative; every non-fungible vault's amount field == number of ids * 10^18;
//!     no non-fungible id is held by two vaults;
//! and every 10 commits and at the end of the history
//!   * replaying ALL events emitted since genesis (mint/burn/deposit/withdraw/recall/pay-fee) with
//!     plain maps reproduces every stored vault balance, every non-fungible vault's id set, and for
//!     every resource (tracking or not, XRD included) minted - burned == sum of its vaults.
//! Correspondence: per history one Coq case = the event stream since genesis + the final scan
//! (`Corr/C03_run.check_history` replays it with the model's `replay`).
use num_bigint::BigInt;
use radix_common::prelude::*;
use radix_engine::transaction::*;
use serde_json::json;
use std::collections::{BTreeMap, BTreeSet};
use vh_common::*;
use vh_engine::histories::*;

struct Replay {
    vault: BTreeMap<NodeId, BigInt>,
    ids: BTreeMap<NodeId, BTreeSet<NonFungibleLocalId>>,
    supply: BTreeMap<ResourceAddress, BigInt>,
    bad: Vec<String>,
}

fn replay(all: &[Vec<Ev>]) -> Replay {
    let mut r = Replay { vault: BTreeMap::new(), ids: BTreeMap::new(), supply: BTreeMap::new(), bad: vec![] };
    let one = unit();
    for evs in all {
        for e in evs {
            match e {
                Ev::MintF(a, x) => *r.supply.entry(*a).or_default() += x,
                Ev::BurnF(a, x) => *r.supply.entry(*a).or_default() -= x,
                Ev::MintN(a, ids) => *r.supply.entry(*a).or_default() += BigInt::from(ids.len()) * &one,
                Ev::BurnN(a, ids) => *r.supply.entry(*a).or_default() -= BigInt::from(ids.len()) * &one,
                Ev::Deposit(v, x) => *r.vault.entry(*v).or_default() += x,
                Ev::Withdraw(v, x) | Ev::Recall(v, x) | Ev::PayFee(v, x) => *r.vault.entry(*v).or_default() -= x,
                Ev::DepositN(v, ids) => {
                    *r.vault.entry(*v).or_default() += BigInt::from(ids.len()) * &one;
                    for i in ids {
                        if !r.ids.entry(*v).or_default().insert(i.clone()) {
                            r.bad.push(format!("id {:?} deposited twice into {:?}", i, v));
                        }
                    }
                }
                Ev::WithdrawN(v, ids) | Ev::RecallN(v, ids) => {
                    *r.vault.entry(*v).or_default() -= BigInt::from(ids.len()) * &one;
                    for i in ids {
                        if !r.ids.entry(*v).or_default().remove(i) {
                            r.bad.push(format!("id {:?} withdrawn from {:?} which does not hold it", i, v));
                        }
                    }
                }
                Ev::LockFee(..) | Ev::VaultCreate(..) => {}
            }
        }
    }
    r
}

fn check_replay(world: &World, s: &Scan) -> Vec<String> {
    let all: Vec<Vec<Ev>> = world.ledger.collected_events().iter().map(|e| events_of(e)).collect();
    let r = replay(&all);
    let mut bad = r.bad.clone();
    let zero = BigInt::from(0);
    for (v, (_, b)) in &s.fvaults {
        if r.vault.get(v).unwrap_or(&zero) != b {
            bad.push(format!("vault {:?}: stored {} but events replay to {}", v, b, r.vault.get(v).unwrap_or(&zero)));
        }
    }
    for (v, (_, a, ids)) in &s.nvaults {
        if r.vault.get(v).unwrap_or(&zero) != a {
            bad.push(format!("nf vault {:?}: stored amount {} but events replay to {}", v, a, r.vault.get(v).unwrap_or(&zero)));
        }
        if r.ids.get(v).cloned().unwrap_or_default() != *ids {
            bad.push(format!("nf vault {:?}: stored ids differ from the replayed ids", v));
        }
    }
    for v in r.vault.keys() {
        if !s.fvaults.contains_key(v) && !s.nvaults.contains_key(v) && r.vault[v] != zero {
            bad.push(format!("events leave {} in vault {:?} which is not stored", r.vault[v], v));
        }
    }
    let sums = s.sums();
    for (res, sum) in &sums {
        if r.supply.get(res).unwrap_or(&zero) != sum {
            bad.push(format!("resource {:?}: minted - burned = {} but the vaults hold {}", res, r.supply.get(res).unwrap_or(&zero), sum));
        }
    }
    bad
}

fn main() {
    let args = Args::parse();
    let mut report = Report::new(
        "C04",
        args.seed,
        "independent random histories of ~50 transactions on a fresh ledger each (create/mint/burn/transfer/recall/freeze/fee locks/staking/pools/\
         epoch changes/failures); an evaluation = one committed transaction followed by a whole-database scan and the supply/balance oracle; \
         non-trivial = the commit changed a vault or a supply; distinct by (history, index, label, resulting per-resource sums)",
    );
    let mut cw = CaseWriter::new("RV.Corr.C03_run RV.Model.C03_Ledger", "check_history");
    let root = Rng::new(args.seed);
    let per = 50usize;
    let nh = ((args.cases + per - 1) / per).max(1);
    let zero = BigInt::from(0);
    let one = unit();
    let mut done = 0usize;
    let plan = boundary_plan();
    // history 0 = the deterministic boundary family (identical for every seed), then the random histories
    for h in 0..(nh + 1) {
        let scripted = h == 0;
        let hroot = root.fork(1_000_000 + h as u64);
        let mut world = match World::try_new() {
        Ok(w) => w,
        Err(msg) => {
            report.oracle_failure(0, "", &format!("the engine failed while bootstrapping the ledger and creating accounts: {}", msg.chars().take(400).collect::<String>()), json!({"phase": "bootstrap", "seed": args.seed}));
            report.write(&args.out).unwrap();
            return;
        }
    };
        let mut pre = scan(world.db());
        let n = if scripted { plan.len() } else { per.min(args.cases - done.min(args.cases)).max(1) };
        for i in 0..n {
            let gi = done + i;
            let mut rng = hroot.fork(i as u64);
            let tx = if scripted {
                match world.boundary_step(i) {
                    Some((class, tx)) => {
                        report.count(&format!("bf_{}", class));
                        tx
                    }
                    None => {
                        report.count(&format!("bf_skipped_{}", plan[i].0));
                        continue;
                    }
                }
            } else {
                world.next_tx(&mut rng)
            };
            report.count(&format!("tx_{}", tx.label));
            let receipt = match world.run(&tx) {
                Ok(r) => r,
                Err(msg) => {
                    report.oracle_failure(gi, "", &format!("engine panicked: {}", msg.chars().take(300).collect::<String>()), json!({"history": h, "index": i, "tx": tx.label}));
                    continue;
                }
            };
            report.count(&format!("outcome_{}", outcome_class(&receipt)));
            if scripted && (outcome_class(&receipt) != "success") != tx.expect_fail {
                report.count("bf_outcome_not_as_scripted");
                let why = match &receipt.result {
                    TransactionResult::Commit(c) => format!("{:?}", c.outcome).chars().take(300).collect::<String>(),
                    other => format!("{:?}", other).chars().take(300).collect::<String>(),
                };
                report.notes.push(format!("boundary step {} ({}) ended as {} (scripted: {}): {}", i, tx.label, outcome_class(&receipt), if tx.expect_fail { "failure" } else { "success" }, why));
            }
            if !matches!(receipt.result, TransactionResult::Commit(_)) {
                continue;
            }
            let s = scan(world.db());
            let input = json!({"history": h, "index": i, "tx": tx.label, "seed": args.seed});
            let mut bad = Vec::new();
            let sums = s.sums();
            for (r, info) in &s.res {
                if let Some(sup) = &info.supply {
                    report.count("tracked_supply_checked");
                    if sup != &sums[r] {
                        bad.push(format!("resource {:?}: total supply {} != sum of vaults {}", r, sup, sums[r]));
                    }
                }
            }
            for (v, (_, b)) in &s.fvaults {
                if *b < zero {
                    bad.push(format!("vault {:?} negative", v));
                }
            }
            let mut seen: BTreeSet<(ResourceAddress, NonFungibleLocalId)> = BTreeSet::new();
            for (v, (r, a, ids)) in &s.nvaults {
                if *a != BigInt::from(ids.len()) * &one {
                    bad.push(format!("nf vault {:?}: amount {} but {} ids", v, a, ids.len()));
                }
                for id in ids {
                    if !seen.insert((*r, id.clone())) {
                        bad.push(format!("id {:?} of {:?} is in two vaults", id, r));
                    }
                }
            }
            if (i + 1) % 10 == 0 || i + 1 == n {
                report.count("event_replays");
                bad.extend(check_replay(&world, &s));
            }
            if !bad.is_empty() {
                report.oracle_failure(gi, "", &format!("stored ledger violates the supply invariant: {}", bad.iter().take(6).cloned().collect::<Vec<_>>().join("; ")), input);
            }
            let changed = s.fvaults != pre.fvaults || s.nvaults != pre.nvaults || s.res != pre.res;
            report.case(&format!("{}:{}:{}:{:?}", h, i, tx.label, sums), changed);
            if changed {
                report.count("commit_changed_state");
            }
            pre = s;
        }
        if !scripted {
            done += n;
        }
        // Coq case: the whole event stream and the final state
        let all: Vec<Vec<Ev>> = world.ledger.collected_events().iter().map(|e| events_of(e)).collect();
        let mut it = Intern::new();
        let empty = Scan::default();
        let mut evc = Vec::new();
        for evs in &all {
            for e in evs {
                if matches!(e, Ev::LockFee(..) | Ev::VaultCreate(..)) {
                    continue;
                }
                evc.push(coq_event(e, &mut it, &empty, &pre));
            }
        }
        let mut vaults = Vec::new();
        let mut vids = Vec::new();
        for (v, (_, b)) in &pre.fvaults {
            vaults.push(format!("({}, {})", coq_n(it.v(v)), coq_z(b)));
        }
        for (v, (r, a, ids)) in &pre.nvaults {
            vaults.push(format!("({}, {})", coq_n(it.v(v)), coq_z(a)));
            vids.push(format!("({}, {})", coq_n(it.v(v)), it.ids(r, ids.iter())));
        }
        let sums: Vec<String> = pre.sums().iter().map(|(r, x)| format!("({}, {})", coq_n(it.r(r)), coq_z(x))).collect();
        report.count_n("events_replayed_in_coq", evc.len() as u64);
        cw.push(format!("(mkH {} {} {} {})", coq_list(evc), coq_list(vaults), coq_list(vids), coq_list(sums)));
        if h == 0 {
            report.sample(json!({"history": 0, "resources": pre.res.len(), "vaults": pre.fvaults.len() + pre.nvaults.len(), "db_nodes": pre.nodes}));
        }
    }
    let mut per_class: BTreeMap<&'static str, u64> = BTreeMap::new();
    for (c, _) in &plan {
        *per_class.entry(*c).or_default() += 1;
    }
    for (c, k) in &per_class {
        report.floor(&format!("bf_{}", c), *k);
    }
    let n = args.cases as u64;
    report.floor("outcome_success", n / 3);
    report.floor("commit_changed_state", n / 3);
    report.floor("tracked_supply_checked", n);
    report.floor("event_replays", (nh as u64).max(1));
    cw.write(&args.out, args.shards).unwrap();
    report.write(&args.out).unwrap();
}
