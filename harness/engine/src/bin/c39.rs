//! C39 correspondence harness: guarded deposits (try_deposit_{,batch_}or_{refund,abort}) into real
//! accounts on two ledgers (Anemone = original refund functions, latest = Bottlenose extension),
//! over the matrix default rule x resource preference x authorized-depositor list x named badge x
//! badge proven x variant, with random batches (mixed allowed/refused resources, duplicates of a
//! resource, empty buckets) and a history of configuration changes, owner deposits and withdrawals.
//! After every transaction the account's deposit rule, preferences, authorized depositors and vaults
//! are read back. The Coq model (coq/Model/C39_AccountDeposit.v) is evaluated on the same sequences.
//! Direct oracle: the property's statement evaluated from the harness's own bookkeeping.
use radix_engine::blueprints::account::*;
use radix_engine::system::system_db_reader::*;
use scrypto_test::prelude::*;
use serde_json::json;
use vh_common::*;

const NR: usize = 6; // resources 0 = XRD, 1..4 fungible, 5 non-fungible (integer ids)
const NF: usize = 5;
const NBADGE: usize = 5; // 0 = Resource(b0), 1 = NonFungible(nf:#1#), 2 = Resource(b2), 3 = NonFungible(nf:#2#), 4 = Resource(nf)
const NPROVABLE: usize = 4; // badges 0..3 can be proven directly; 4 is satisfied by any proof of nf (1 or 3)

/// the badges satisfied by an auth zone holding proofs of the given badges
fn satisfied(proofs: &[usize]) -> Vec<usize> {
    let mut v: Vec<usize> = proofs.to_vec();
    if (proofs.contains(&1) || proofs.contains(&3)) && !v.contains(&4) {
        v.push(4);
    }
    v
}

#[derive(Clone, Copy, PartialEq, Eq, Debug)]
enum DefaultRule {
    Accept,
    Reject,
    AllowExisting,
}
#[derive(Clone, Copy, PartialEq, Eq, Debug)]
enum Pref {
    Allowed,
    Disallowed,
}
#[derive(Clone, Copy, PartialEq, Eq, Debug)]
enum Variant {
    SingleRefund,
    BatchRefund,
    SingleAbort,
    BatchAbort,
}
#[derive(Clone, PartialEq, Eq, Debug)]
enum Op {
    Try(Variant, Vec<(usize, i64)>, Option<usize>, Vec<usize>),
    Deposit(Vec<(usize, i64)>),
    Withdraw(usize, i64),
    SetDefault(DefaultRule),
    SetPref(usize, Pref),
    RemovePref(usize),
    AddAuth(usize),
    RemoveAuth(usize),
}
#[derive(Clone, PartialEq, Eq, Debug)]
struct Obs {
    default: DefaultRule,
    prefs: Vec<(usize, Pref)>,
    auth: Vec<usize>,
    vaults: Vec<(usize, i64)>,
}
#[derive(Clone, PartialEq, Eq, Debug)]
enum Out {
    Deposited,
    Refunded(Vec<(usize, i64)>),
    Failed(&'static str),
}

struct World {
    ledger: DefaultLedgerSimulator,
    v2: bool,
    dep: ComponentAddress,
    dep_pk: Secp256k1PublicKey,
    res: Vec<ResourceAddress>,
    badges: Vec<ResourceOrNonFungible>,
    badge_res: Vec<ResourceAddress>,
    bystander: ComponentAddress,
    bystander_init: Option<Obs>,
}

impl World {
    fn new(v2: bool) -> World {
        let mut ledger = if v2 {
            LedgerSimulatorBuilder::new().build()
        } else {
            LedgerSimulatorBuilder::new()
                .with_custom_protocol(|b| b.from_bootstrap_to(ProtocolVersion::Anemone))
                .build()
        };
        let (dep_pk, _, dep) = ledger.new_account(false);
        let mut res = vec![XRD];
        for _ in 1..NF {
            res.push(ledger.create_fungible_resource(dec!(100000000), 0, dep));
        }
        // a non-fungible resource with 150 integer ids, all held by the depositor
        {
            let manifest = ManifestBuilder::new()
                .lock_fee_from_faucet()
                .create_non_fungible_resource(
                    OwnerRole::None,
                    NonFungibleIdType::Integer,
                    false,
                    NonFungibleResourceRoles::default(),
                    metadata!(),
                    Some((1..=150u64).map(|i| (NonFungibleLocalId::integer(i), ())).collect::<Vec<_>>()),
                )
                .try_deposit_entire_worktop_or_abort(dep, None)
                .build();
            let receipt = ledger.execute_manifest(manifest, vec![]);
            res.push(receipt.expect_commit(true).new_resource_addresses()[0]);
        }
        let b0 = ledger.create_fungible_resource(dec!(1000), 0, dep);
        let nf = ledger.create_non_fungible_resource(dep); // ids 1, 2, 3
        let b2 = ledger.create_fungible_resource(dec!(1000), 0, dep);
        let badges = vec![
            ResourceOrNonFungible::Resource(b0),
            ResourceOrNonFungible::NonFungible(NonFungibleGlobalId::new(nf, NonFungibleLocalId::integer(1))),
            ResourceOrNonFungible::Resource(b2),
            ResourceOrNonFungible::NonFungible(NonFungibleGlobalId::new(nf, NonFungibleLocalId::integer(2))),
            ResourceOrNonFungible::Resource(nf),
        ];
        // plenty of XRD for the depositor
        for _ in 0..3 {
            ledger.load_account_from_faucet(dep);
        }
        // a bystander account with holdings and a deposit configuration of its own: it must never change
        let (by_pk, _, bystander) = ledger.new_account(false);
        let mut w = World { ledger, v2, dep, dep_pk, res, badges, badge_res: vec![b0, nf, b2], bystander, bystander_init: None };
        for op in [
            Op::Deposit(vec![(1, 7), (2, 9), (NF, 2)]),
            Op::SetDefault(DefaultRule::AllowExisting),
            Op::SetPref(3, Pref::Disallowed),
            Op::AddAuth(0),
        ] {
            assert_eq!(w.run_op(bystander, by_pk, &op), Out::Deposited);
        }
        w.bystander_init = Some(w.observe(bystander));
        w
    }
    fn res_index(&self, r: &ResourceAddress) -> usize {
        self.res.iter().position(|x| x == r).expect("pool resource")
    }
    fn observe(&mut self, acct: ComponentAddress) -> Obs {
        let reader = SystemDatabaseReader::new(self.ledger.substate_db());
        if reader.get_type_info(acct.as_node_id()).is_err() {
            // a preallocated account that has not been created yet: the blueprint defaults
            return Obs { default: DefaultRule::Accept, prefs: vec![], auth: vec![], vaults: vec![] };
        }
        let rule = reader
            .read_typed_object_field::<AccountDepositRuleFieldPayload>(acct.as_node_id(), ModuleId::Main, AccountField::DepositRule.field_index())
            .unwrap()
            .fully_update_and_into_latest_version()
            .default_deposit_rule;
        let default = match rule {
            DefaultDepositRule::Accept => DefaultRule::Accept,
            DefaultDepositRule::Reject => DefaultRule::Reject,
            DefaultDepositRule::AllowExisting => DefaultRule::AllowExisting,
        };
        let mut prefs = Vec::new();
        let mut vaults = Vec::new();
        for (i, r) in self.res.iter().enumerate() {
            let e: Option<AccountResourcePreferenceEntryPayload> = reader
                .read_object_collection_entry(
                    acct.as_node_id(),
                    ModuleId::Main,
                    ObjectCollectionKey::KeyValue(AccountCollection::ResourcePreferenceKeyValue.collection_index(), r),
                )
                .unwrap();
            if let Some(p) = e {
                prefs.push((
                    i,
                    match p.fully_update_and_into_latest_version() {
                        ResourcePreference::Allowed => Pref::Allowed,
                        ResourcePreference::Disallowed => Pref::Disallowed,
                    },
                ));
            }
            let v: Option<AccountResourceVaultEntryPayload> = reader
                .read_object_collection_entry(
                    acct.as_node_id(),
                    ModuleId::Main,
                    ObjectCollectionKey::KeyValue(AccountCollection::ResourceVaultKeyValue.collection_index(), r),
                )
                .unwrap();
            if let Some(v) = v {
                let vault = v.fully_update_and_into_latest_version();
                vaults.push((i, vault.0 .0));
            }
        }
        let mut auth = Vec::new();
        for (i, b) in self.badges.iter().enumerate() {
            let e: Option<AccountAuthorizedDepositorEntryPayload> = reader
                .read_object_collection_entry(
                    acct.as_node_id(),
                    ModuleId::Main,
                    ObjectCollectionKey::KeyValue(AccountCollection::AuthorizedDepositorKeyValue.collection_index(), b),
                )
                .unwrap();
            if e.is_some() {
                auth.push(i);
            }
        }
        drop(reader);
        let vaults = vaults
            .into_iter()
            .map(|(i, node)| {
                let bal = self.ledger.inspect_vault_balance(node).expect("vault balance");
                (i, whole(bal))
            })
            .collect();
        Obs { default, prefs, auth, vaults }
    }
    fn dep_balances(&mut self) -> Vec<i64> {
        let rs = self.res.clone();
        rs.iter().map(|r| whole(self.ledger.get_component_balance(self.dep, *r))).collect()
    }
    /// Runs one op; owner ops are signed by the owner key, deposits by the depositor key.
    fn run_op(&mut self, acct: ComponentAddress, owner_pk: Secp256k1PublicKey, op: &Op) -> Out {
        let mut b = ManifestBuilder::new().lock_fee_from_faucet();
        let mut signer = owner_pk;
        b = match op {
            Op::Try(v, buckets, named, proofs) => {
                signer = self.dep_pk;
                for p in proofs {
                    b = match &self.badges[*p] {
                        ResourceOrNonFungible::Resource(r) => b.create_proof_from_account_of_amount(self.dep, *r, dec!(1)),
                        ResourceOrNonFungible::NonFungible(g) => {
                            b.create_proof_from_account_of_non_fungibles(self.dep, g.resource_address(), [g.local_id().clone()])
                        }
                    };
                }
                let mut names = Vec::new();
                for (k, (r, amt)) in buckets.iter().enumerate() {
                    let name = format!("b{}", k);
                    b = b.withdraw_from_account(self.dep, self.res[*r], Decimal::from(*amt)).take_from_worktop(self.res[*r], Decimal::from(*amt), &name);
                    names.push(name);
                }
                let badge = named.map(|i| self.badges[i].clone());
                let b = match v {
                    Variant::SingleRefund => b.try_deposit_or_refund(acct, badge, names[0].clone()),
                    Variant::SingleAbort => b.try_deposit_or_abort(acct, badge, names[0].clone()),
                    Variant::BatchRefund => b.try_deposit_batch_or_refund(acct, names.clone(), badge),
                    Variant::BatchAbort => b.try_deposit_batch_or_abort(acct, names.clone(), badge),
                };
                // whatever came back goes home to the depositor
                b.deposit_entire_worktop(self.dep)
            }
            Op::Deposit(buckets) => {
                // the owner deposits resources handed over by the depositor: both sign
                let mut names = Vec::new();
                for (k, (r, amt)) in buckets.iter().enumerate() {
                    let name = format!("b{}", k);
                    b = b.withdraw_from_account(self.dep, self.res[*r], Decimal::from(*amt)).take_from_worktop(self.res[*r], Decimal::from(*amt), &name);
                    names.push(name);
                }
                b.deposit_batch(acct, names)
            }
            Op::Withdraw(r, amt) => b.withdraw_from_account(acct, self.res[*r], Decimal::from(*amt)).deposit_entire_worktop(self.dep),
            Op::SetDefault(d) => b.call_method(
                acct,
                ACCOUNT_SET_DEFAULT_DEPOSIT_RULE_IDENT,
                AccountSetDefaultDepositRuleInput {
                    default: match d {
                        DefaultRule::Accept => DefaultDepositRule::Accept,
                        DefaultRule::Reject => DefaultDepositRule::Reject,
                        DefaultRule::AllowExisting => DefaultDepositRule::AllowExisting,
                    },
                },
            ),
            Op::SetPref(r, p) => b.call_method(
                acct,
                ACCOUNT_SET_RESOURCE_PREFERENCE_IDENT,
                AccountSetResourcePreferenceInput {
                    resource_address: self.res[*r],
                    resource_preference: match p {
                        Pref::Allowed => ResourcePreference::Allowed,
                        Pref::Disallowed => ResourcePreference::Disallowed,
                    },
                },
            ),
            Op::RemovePref(r) => b.call_method(acct, ACCOUNT_REMOVE_RESOURCE_PREFERENCE_IDENT, AccountRemoveResourcePreferenceInput { resource_address: self.res[*r] }),
            Op::AddAuth(i) => b.call_method(acct, ACCOUNT_ADD_AUTHORIZED_DEPOSITOR_IDENT, AccountAddAuthorizedDepositorInput { badge: self.badges[*i].clone() }),
            Op::RemoveAuth(i) => b.call_method(acct, ACCOUNT_REMOVE_AUTHORIZED_DEPOSITOR_IDENT, AccountRemoveAuthorizedDepositorInput { badge: self.badges[*i].clone() }),
        };
        let manifest = b.build();
        let signers: Vec<NonFungibleGlobalId> = if matches!(op, Op::Deposit(_) | Op::Withdraw(..)) {
            vec![NonFungibleGlobalId::from_public_key(owner_pk), NonFungibleGlobalId::from_public_key(self.dep_pk)]
        } else {
            vec![NonFungibleGlobalId::from_public_key(signer)]
        };
        let receipt = self.ledger.execute_manifest(manifest, signers);
        match &receipt.result {
            TransactionResult::Commit(c) => match &c.outcome {
                TransactionOutcome::Success(_) => {
                    if let Op::Try(..) = op {
                        let rej: Vec<RejectedDepositEvent> = self.ledger.extract_events_of_type(c);
                        let deposits: Vec<DepositEvent> = c
                            .application_events
                            .iter()
                            .filter(|(id, _)| {
                                self.ledger.is_event_name_equal::<DepositEvent>(id)
                                    && matches!(&id.0, Emitter::Method(n, _) if n == acct.as_node_id())
                            })
                            .map(|(_, d)| scrypto_decode(d).unwrap())
                            .collect();
                        if rej.is_empty() && (!deposits.is_empty() || matches!(op, Op::Try(_, b, _, _) if b.is_empty())) {
                            Out::Deposited
                        } else {
                            assert!(deposits.is_empty(), "both deposit and rejected-deposit events");
                            Out::Refunded(
                                rej.iter()
                                    .map(|e| match e {
                                        RejectedDepositEvent::Fungible(r, a) => (self.res_index(r), whole(*a)),
                                        RejectedDepositEvent::NonFungible(r, ids) => (self.res_index(r), ids.len() as i64),
                                    })
                                    .collect(),
                            )
                        }
                    } else {
                        Out::Deposited
                    }
                }
                TransactionOutcome::Failure(e) => Out::Failed(classify(e)),
            },
            other => panic!("transaction not committed: {:?}", other),
        }
    }
}

fn whole(d: Decimal) -> i64 {
    let s = d.to_string();
    s.parse::<i64>().unwrap_or_else(|_| panic!("non-integral amount {}", s))
}

fn classify(e: &RuntimeError) -> &'static str {
    match e {
        RuntimeError::ApplicationError(ApplicationError::AccountError(x)) => match x {
            AccountError::NotAnAuthorizedDepositor { .. } => "ENotAnAuthorizedDepositor",
            AccountError::DepositIsDisallowed { .. } => "EDepositIsDisallowed",
            AccountError::NotAllBucketsCouldBeDeposited => "ENotAllBuckets",
            AccountError::VaultDoesNotExist { .. } => "EVault",
        },
        RuntimeError::SystemError(SystemError::AssertAccessRuleFailed) => "EBadgeNotPresent",
        RuntimeError::SystemModuleError(SystemModuleError::AuthError(AuthError::Unauthorized(_))) => "EUnauthorized",
        RuntimeError::ApplicationError(ApplicationError::VaultError(_)) | RuntimeError::ApplicationError(ApplicationError::NonFungibleVaultError(_)) => "EVault",
        other => {
            if std::env::var("C39_DEBUG").is_ok() {
                eprintln!("EOther: {:?}", other);
            }
            "EOther"
        }
    }
}

// ---------------- Coq printers ----------------
fn buckets_coq(b: &[(usize, i64)]) -> String {
    coq_list(b.iter().map(|(r, a)| format!("({}, {})", r, coq_z(*a))))
}
fn variant_coq(v: Variant) -> &'static str {
    match v {
        Variant::SingleRefund => "SingleRefund",
        Variant::BatchRefund => "BatchRefund",
        Variant::SingleAbort => "SingleAbort",
        Variant::BatchAbort => "BatchAbort",
    }
}
fn default_coq(d: DefaultRule) -> &'static str {
    match d {
        DefaultRule::Accept => "Accept",
        DefaultRule::Reject => "Reject",
        DefaultRule::AllowExisting => "AllowExisting",
    }
}
fn pref_coq(p: Pref) -> &'static str {
    match p {
        Pref::Allowed => "Allowed",
        Pref::Disallowed => "Disallowed",
    }
}
fn op_coq(o: &Op) -> String {
    match o {
        Op::Try(v, b, named, proofs) => format!(
            "(OTry {} {} (mkctx {} {}))",
            variant_coq(*v),
            buckets_coq(b),
            coq_option(named.map(|x| x.to_string())),
            coq_list(satisfied(proofs).iter().map(|x| x.to_string()))
        ),
        Op::Deposit(b) => format!("(ODeposit {})", buckets_coq(b)),
        Op::Withdraw(r, a) => format!("(OWithdraw {} {})", r, coq_z(*a)),
        Op::SetDefault(d) => format!("(OSetDefault {})", default_coq(*d)),
        Op::SetPref(r, p) => format!("(OSetPref {} {})", r, pref_coq(*p)),
        Op::RemovePref(r) => format!("(ORemovePref {})", r),
        Op::AddAuth(b) => format!("(OAddAuth {})", b),
        Op::RemoveAuth(b) => format!("(ORemoveAuth {})", b),
    }
}
fn wop_coq(o: &Op) -> String {
    match o {
        Op::Try(v, b, named, proofs) => format!(
            "(WTry 0 1 {} {} (mkctx {} {}))",
            variant_coq(*v),
            buckets_coq(b),
            coq_option(named.map(|x| x.to_string())),
            coq_list(satisfied(proofs).iter().map(|x| x.to_string()))
        ),
        Op::Deposit(b) => format!("(WDeposit 0 1 {})", buckets_coq(b)),
        Op::Withdraw(r, a) => format!("(WWithdraw 1 {} {} 0)", r, coq_z(*a)),
        other => format!("(WConfig 1 {})", op_coq(other)),
    }
}
fn obs_coq(o: &Obs) -> String {
    format!(
        "(mkacct {} {} {} {})",
        default_coq(o.default),
        coq_list(o.prefs.iter().map(|(r, p)| format!("({}, {})", r, pref_coq(*p)))),
        coq_list(o.auth.iter().map(|x| x.to_string())),
        buckets_coq(&o.vaults)
    )
}
fn out_coq(o: &Out) -> String {
    match o {
        Out::Deposited => "Deposited".into(),
        Out::Refunded(r) => format!("(Refunded {})", buckets_coq(r)),
        Out::Failed(e) => format!("(Failed {})", e),
    }
}

// ---------------- generation ----------------
fn gen_buckets(rng: &mut Rng, single: bool, obs: &Obs) -> Vec<(usize, i64)> {
    let n = if single {
        1
    } else {
        match rng.below(10) {
            0 => 0,
            1 | 2 => 1,
            3..=6 => 2,
            7 | 8 => 3,
            _ => 5,
        }
    };
    let _ = obs;
    let hot = rng.usize_below(NR);
    (0..n)
        .map(|_| {
            let r = if rng.chance(1, 3) { hot } else { rng.usize_below(NR) };
            let amt = match rng.below(8) {
                0 => 0,
                1 => 1,
                _ if r == NF => rng.range(1, 4) as i64,
                _ => rng.range(2, 50) as i64,
            };
            (r, amt)
        })
        .collect()
}

fn gen_op(rng: &mut Rng, obs: &Obs) -> Op {
    let r = rng.below(100);
    if r < 56 {
        let v = *rng.pick(&[Variant::SingleRefund, Variant::BatchRefund, Variant::SingleAbort, Variant::BatchAbort]);
        let single = matches!(v, Variant::SingleRefund | Variant::SingleAbort);
        let buckets = gen_buckets(rng, single, obs);
        let named = if rng.chance(1, 2) {
            None
        } else if !obs.auth.is_empty() && rng.chance(2, 3) {
            Some(*rng.pick(&obs.auth))
        } else {
            Some(rng.usize_below(NBADGE))
        };
        let mut proofs = Vec::new();
        if let Some(b) = named {
            if rng.chance(3, 5) {
                proofs.push(if b == 4 { *rng.pick(&[1usize, 3]) } else { b });
            }
        }
        if rng.chance(1, 6) {
            let x = rng.usize_below(NPROVABLE);
            if !proofs.contains(&x) {
                proofs.push(x);
            }
        }
        Op::Try(v, buckets, named, proofs)
    } else if r < 62 {
        let single = rng.bool();
        Op::Deposit(gen_buckets(rng, single, obs))
    } else if r < 68 {
        let r = rng.usize_below(NR);
        let have = obs.vaults.iter().find(|(x, _)| *x == r).map(|x| x.1).unwrap_or(0);
        let amt = if rng.chance(1, 5) { have + 1 } else if have > 0 { rng.range(0, have as u64 + 1) as i64 } else { 0 };
        Op::Withdraw(r, amt)
    } else if r < 80 {
        Op::SetDefault(*rng.pick(&[DefaultRule::Accept, DefaultRule::Reject, DefaultRule::AllowExisting, DefaultRule::AllowExisting]))
    } else if r < 88 {
        Op::SetPref(rng.usize_below(NR), if rng.bool() { Pref::Allowed } else { Pref::Disallowed })
    } else if r < 92 {
        Op::RemovePref(rng.usize_below(NR))
    } else if r < 97 {
        Op::AddAuth(rng.usize_below(NBADGE))
    } else {
        Op::RemoveAuth(rng.usize_below(NBADGE))
    }
}

struct Case {
    v2: bool,
    init: Obs,
    steps: Vec<(Op, Out, Obs)>,
    dep_before: Vec<Vec<i64>>, // depositor balances before each step and after the last
    bystander_fails: Vec<String>,
    by_obs: Vec<Obs>, // the bystander before the first step and after every step
    kind: u8,
}

fn run_case(w: &mut World, rng: &mut Rng, len: usize, matrix: Option<usize>, script: Option<(u8, Vec<Op>)>) -> Case {
    // two out of three random cases start from an account WITHOUT an XRD vault (an account created by
    // `new_account` is funded from the faucet, which would hide the XRD clause of AllowExisting)
    // account kinds: 0 = funded from the faucet (XRD vault), 1 = created without any vault,
    // 2 = preallocated (virtual) and not created yet: its first call creates it
    let kind: u8 = match &script {
        Some((k, _)) => *k,
        None if matrix.is_some() => 0,
        None => rng.below(3) as u8,
    };
    let (pk, acct) = match kind {
        1 => {
            let (pk, _) = w.ledger.new_key_pair();
            let manifest = ManifestBuilder::new()
                .lock_fee_from_faucet()
                .new_account_advanced(OwnerRole::Fixed(rule!(require(signature(pk)))), None)
                .build();
            let receipt = w.ledger.execute_manifest(manifest, vec![]);
            (pk, receipt.expect_commit(true).new_component_addresses()[0])
        }
        2 => {
            let (pk, _) = w.ledger.new_key_pair();
            (pk, ComponentAddress::preallocated_account_from_public_key(&pk))
        }
        _ => {
            let (pk, _, acct) = w.ledger.new_account(false);
            (pk, acct)
        }
    };
    let init = w.observe(acct);
    let mut obs = init.clone();
    let mut steps = Vec::new();
    let mut dep_before = vec![w.dep_balances()];
    let mut bystander_fails: Vec<String> = Vec::new();
    let mut by_obs: Vec<Obs> = vec![w.observe(w.bystander)];
    // matrix cases: a fixed configuration prefix chosen by the matrix index, then deposits of every variant
    let mut ops: Vec<Op> = Vec::new();
    if let Some(m) = matrix {
        let d = [DefaultRule::Accept, DefaultRule::Reject, DefaultRule::AllowExisting][m % 3];
        let p = (m / 3) % 3; // 0 none, 1 allowed, 2 disallowed on resource 1
        let a = (m / 9) % 2; // badge 0 listed?
        ops.push(Op::SetDefault(d));
        if p > 0 {
            ops.push(Op::SetPref(1, if p == 1 { Pref::Allowed } else { Pref::Disallowed }));
        }
        if a == 1 {
            ops.push(Op::AddAuth(0));
        }
        for v in [Variant::SingleRefund, Variant::BatchRefund, Variant::SingleAbort, Variant::BatchAbort] {
            for (named, proven) in [(None, false), (Some(0), false), (Some(0), true), (Some(2), true)] {
                ops.push(Op::Try(v, vec![(1, 3)], named, if proven { vec![named.unwrap()] } else { vec![] }));
            }
        }
    }
    if let Some((_, sops)) = &script {
        ops = sops.clone();
    }
    let scripted = matrix.is_some() || script.is_some();
    let n = if scripted { ops.len() } else { len };
    for k in 0..n {
        let op = if scripted { ops[k].clone() } else { gen_op(rng, &obs) };
        let out = w.run_op(acct, pk, &op);
        obs = w.observe(acct);
        dep_before.push(w.dep_balances());
        let by = w.observe(w.bystander);
        by_obs.push(by.clone());
        if Some(&by) != w.bystander_init.as_ref() {
            bystander_fails.push(format!("step {}: a bystander account changed: {:?} (after {:?})", k, by, op));
        }
        steps.push((op, out, obs.clone()));
    }
    // hand the non-fungibles back to the depositor so that its supply lasts (not part of the case)
    if let Some((_, n)) = obs.vaults.iter().find(|(r, _)| *r == NF) {
        if *n > 0 {
            let _ = w.run_op(acct, pk, &Op::Withdraw(NF, *n));
        }
    }
    Case { v2: w.v2, init, steps, dep_before, bystander_fails, by_obs, kind }
}

// ---------------- direct oracle ----------------
fn oracle(c: &Case) -> Vec<String> {
    let mut fails = Vec::new();
    let mut before = c.init.clone();
    for (i, (op, out, after)) in c.steps.iter().enumerate() {
        let dep0 = &c.dep_before[i];
        let dep1 = &c.dep_before[i + 1];
        let bal = |o: &Obs, r: usize| o.vaults.iter().find(|(x, _)| *x == r).map(|x| x.1);
        // conservation between the two accounts (fees are paid by the faucet)
        for r in 0..NR {
            let s0 = dep0[r] + bal(&before, r).unwrap_or(0);
            let s1 = dep1[r] + bal(after, r).unwrap_or(0);
            if s0 != s1 {
                fails.push(format!("step {}: resource {} not conserved between depositor and account ({} -> {})", i, r, s0, s1));
            }
        }
        if let Op::Try(v, buckets, named, proofs) = op {
            let allowed = |r: usize| match before.prefs.iter().find(|(x, _)| *x == r) {
                Some((_, Pref::Allowed)) => true,
                Some((_, Pref::Disallowed)) => false,
                None => match before.default {
                    DefaultRule::Accept => true,
                    DefaultRule::Reject => false,
                    DefaultRule::AllowExisting => r == 0 || bal(&before, r).is_some(),
                },
            };
            let all_allowed = buckets.iter().all(|(r, _)| allowed(*r));
            let listed = named.map(|b| before.auth.contains(&b)).unwrap_or(false);
            let proven = named.map(|b| satisfied(proofs).contains(&b)).unwrap_or(false);
            let refund = matches!(v, Variant::SingleRefund | Variant::BatchRefund);
            let config_same = before.default == after.default && before.prefs == after.prefs && before.auth == after.auth;
            if !config_same {
                fails.push(format!("step {}: a deposit changed the account's deposit configuration", i));
            }
            let deposited_all = (0..NR).all(|r| {
                let sum: i64 = buckets.iter().filter(|(x, _)| *x == r).map(|x| x.1).sum();
                let touched = buckets.iter().any(|(x, _)| *x == r);
                if touched {
                    bal(after, r) == Some(bal(&before, r).unwrap_or(0) + sum)
                } else {
                    bal(after, r) == bal(&before, r)
                }
            });
            let nothing = after.vaults == before.vaults && dep0 == dep1;
            if all_allowed || (listed && proven) {
                if *out != Out::Deposited || !deposited_all {
                    fails.push(format!("step {}: every bucket allowed (or listed badge proven) but not everything was deposited: {:?}", i, out));
                }
            } else if listed && !proven {
                if !matches!(out, Out::Failed(_)) || !nothing {
                    fails.push(format!("step {}: a bucket is refused and the named listed badge is not proven, but the call did not fail: {:?}", i, out));
                }
            } else if refund && (c.v2 || named.is_none()) {
                if !matches!(out, Out::Refunded(_)) || !nothing {
                    fails.push(format!("step {}: refund variant must return all buckets untouched: {:?}", i, out));
                }
            } else {
                // abort variants; and, before Bottlenose, refund variants naming an unlisted badge
                if !matches!(out, Out::Failed(_)) || !nothing {
                    fails.push(format!("step {}: call must fail and deposit nothing: {:?}", i, out));
                }
            }
        }
        before = after.clone();
    }
    fails
}

/// Deterministic boundary family (identical for every seed); (name, account without XRD vault?, ops)
fn boundary_scripts() -> Vec<(&'static str, u8, Vec<Op>)> {
    use DefaultRule::*;
    use Variant::*;
    let t = |v: Variant, b: Vec<(usize, i64)>, named: Option<usize>, proofs: Vec<usize>| Op::Try(v, b, named, proofs);
    let mut out = Vec::new();
    // AllowExisting: XRD without a vault, a vault that exists but is empty (emptied / created by an empty
    // bucket), empty buckets of unknown resources, fungible and non-fungible
    out.push((
        "allow_existing_empty_vault",
        1,
        vec![
            Op::SetDefault(AllowExisting),
            t(SingleRefund, vec![(1, 3)], None, vec![]),
            t(SingleRefund, vec![(0, 1)], None, vec![]),
            Op::Deposit(vec![(1, 5)]),
            Op::Withdraw(1, 5),
            t(SingleAbort, vec![(1, 1)], None, vec![]),
            Op::Deposit(vec![(2, 0)]),
            t(BatchAbort, vec![(2, 4)], None, vec![]),
            t(SingleRefund, vec![(3, 0)], None, vec![]),
            t(BatchRefund, vec![(3, 0), (1, 0)], None, vec![]),
            t(SingleAbort, vec![(NF, 1)], None, vec![]),
            Op::Deposit(vec![(NF, 1)]),
            Op::Withdraw(NF, 1),
            t(BatchRefund, vec![(NF, 2), (0, 0)], None, vec![]),
            Op::Withdraw(0, 1),
            t(SingleAbort, vec![(0, 0)], None, vec![]),
        ],
    ));
    // the authorized-depositor badge by resource and by non-fungible id
    out.push((
        "badge_kinds",
        0,
        vec![
            Op::SetDefault(Reject),
            Op::AddAuth(1),
            t(SingleRefund, vec![(1, 1)], Some(1), vec![1]),
            t(SingleRefund, vec![(1, 1)], Some(1), vec![3]),
            t(SingleAbort, vec![(1, 1)], Some(1), vec![3]),
            t(SingleRefund, vec![(1, 1)], Some(3), vec![3]),
            t(BatchRefund, vec![(1, 1)], Some(4), vec![1]),
            t(BatchAbort, vec![(1, 1)], Some(4), vec![1]),
            Op::AddAuth(4),
            t(BatchRefund, vec![(1, 1)], Some(4), vec![3]),
            t(BatchAbort, vec![(1, 1)], Some(4), vec![1]),
            t(SingleAbort, vec![(1, 1)], Some(4), vec![]),
            t(SingleRefund, vec![(1, 1)], Some(4), vec![0, 2]),
            Op::RemoveAuth(1),
            t(SingleRefund, vec![(1, 1)], Some(1), vec![1]),
            t(SingleAbort, vec![(1, 1)], Some(1), vec![1]),
            Op::AddAuth(0),
            Op::AddAuth(0),
            t(SingleRefund, vec![(1, 1)], Some(0), vec![0]),
            t(SingleRefund, vec![(1, 1)], Some(0), vec![2]),
            t(BatchAbort, vec![(1, 1)], Some(0), vec![]),
            Op::RemoveAuth(0),
            Op::RemoveAuth(0),
            t(BatchRefund, vec![(1, 1)], Some(0), vec![0]),
            Op::RemoveAuth(2),
        ],
    ));
    // batches: the refused bucket first / middle / last / duplicated / alone / empty; empty batch; all variants
    let mut ops = vec![Op::SetDefault(Accept), Op::SetPref(2, Pref::Disallowed)];
    for v in [BatchRefund, BatchAbort] {
        for b in [
            vec![(2, 1), (1, 1), (3, 1)],
            vec![(1, 1), (2, 1), (3, 1)],
            vec![(1, 1), (3, 1), (2, 1)],
            vec![(2, 1), (2, 2)],
            vec![(2, 1), (1, 1), (2, 0)],
            vec![(2, 0)],
            vec![],
            vec![(1, 0)],
            vec![(1, 1), (1, 2), (1, 0)],
            vec![(NF, 1), (2, 1)],
        ] {
            ops.push(t(v, b, None, vec![]));
        }
    }
    for v in [SingleRefund, SingleAbort] {
        ops.push(t(v, vec![(2, 1)], None, vec![]));
        ops.push(t(v, vec![(1, 1)], None, vec![]));
        // a named badge is irrelevant when everything is allowed, listed or not, proven or not
        ops.push(t(v, vec![(1, 1)], Some(2), vec![]));
        ops.push(t(v, vec![(1, 1)], Some(2), vec![2]));
    }
    out.push(("batch_positions", 0, ops));
    // preferences against each default rule: set, overwrite, remove, remove again
    out.push((
        "preferences",
        0,
        vec![
            Op::SetDefault(Reject),
            t(SingleRefund, vec![(1, 1)], None, vec![]),
            Op::SetPref(1, Pref::Allowed),
            t(SingleRefund, vec![(1, 1)], None, vec![]),
            Op::SetPref(1, Pref::Disallowed),
            t(SingleRefund, vec![(1, 1)], None, vec![]),
            Op::RemovePref(1),
            t(SingleAbort, vec![(1, 1)], None, vec![]),
            Op::SetDefault(Accept),
            t(SingleAbort, vec![(1, 1)], None, vec![]),
            Op::SetPref(1, Pref::Disallowed),
            t(BatchAbort, vec![(1, 1)], None, vec![]),
            Op::RemovePref(1),
            Op::RemovePref(1),
            t(BatchAbort, vec![(1, 1)], None, vec![]),
            Op::SetDefault(AllowExisting),
            t(SingleRefund, vec![(4, 1)], None, vec![]),
            Op::SetPref(4, Pref::Allowed),
            t(SingleRefund, vec![(4, 1)], None, vec![]),
            Op::SetPref(1, Pref::Disallowed),
            t(SingleRefund, vec![(1, 1)], None, vec![]),
            Op::SetPref(0, Pref::Disallowed),
            t(SingleRefund, vec![(0, 1)], None, vec![]),
            Op::SetDefault(AllowExisting),
        ],
    ));
    // owner withdrawals at the balance: balance + 1, exactly, from an empty vault, without a vault, zero
    out.push((
        "withdraw_limits",
        1,
        vec![
            Op::Deposit(vec![(1, 5), (NF, 2)]),
            Op::Withdraw(1, 6),
            Op::Withdraw(1, 5),
            Op::Withdraw(1, 1),
            Op::Withdraw(1, 0),
            Op::Withdraw(2, 0),
            Op::Withdraw(2, 1),
            Op::Withdraw(NF, 3),
            Op::Withdraw(NF, 2),
            Op::Withdraw(0, 1),
        ],
    ));
    // preallocated accounts: a failing first call leaves the account non-existent; the first deposit or
    // the first owner call creates it with the defaults; then the AllowExisting family on it
    let mut v = vec![
        Op::Withdraw(1, 1),
        Op::Withdraw(0, 0),
        t(SingleAbort, vec![(1, 3)], None, vec![]),
        Op::SetDefault(Reject),
        t(SingleRefund, vec![(1, 1)], None, vec![]),
        t(BatchAbort, vec![(NF, 1), (1, 1)], None, vec![]),
        Op::SetDefault(Accept),
        t(BatchRefund, vec![(NF, 2), (1, 1), (NF, 1)], None, vec![]),
    ];
    out.push(("virtual_first_deposit", 2, v.clone()));
    v.remove(2);
    v.remove(0);
    out.push(("virtual_first_owner_call", 2, v));
    let ae = out[0].2.clone();
    out.push(("virtual_allow_existing", 2, ae));
    // non-fungible buckets in batches (refund and abort), with duplicates of the non-fungible resource
    out.push((
        "nf_batches",
        0,
        vec![
            Op::SetDefault(Accept),
            Op::SetPref(NF, Pref::Disallowed),
            t(BatchRefund, vec![(NF, 1), (1, 1), (NF, 2)], None, vec![]),
            t(BatchAbort, vec![(1, 1), (NF, 1)], None, vec![]),
            t(SingleRefund, vec![(NF, 1)], None, vec![]),
            Op::AddAuth(1),
            t(BatchRefund, vec![(NF, 1), (NF, 1)], Some(1), vec![1]),
            Op::RemovePref(NF),
            t(BatchAbort, vec![(NF, 1), (NF, 0), (NF, 2)], None, vec![]),
            Op::Withdraw(NF, 2),
        ],
    ));
    out
}

fn main() {
    let args = Args::parse();
    let mut report = Report::new(
        "C39",
        args.seed,
        "per case a fresh account and 6..22 operations: guarded deposits of all four variants (random batches of 0..5 buckets over \
         XRD + 4 fungibles + 1 non-fungible resource with a hot resource, empty buckets, named badge listed/unlisted x proven/unproven, Resource and NonFungible \
         badges), owner deposits, withdrawals and deposit-configuration changes; the first 18 cases per ledger enumerate the matrix \
         default rule x preference x listed x (variant x named x proven); half on an Anemone ledger, half on the latest; \
         non-trivial = at least one refused-and-refunded, one refused-and-failed and one full deposit; distinct by canonical text",
    );
    let mut cw = CaseWriter::new("RV.Corr.C39_run RV.Model.C39_AccountDeposit", "check");
    let root = Rng::new(args.seed);
    let mut worlds = [World::new(false), World::new(true)];
    let bf = boundary_scripts();
    let total = args.cases.max(2 * (18 + bf.len()) + 4);
    for i in 0..total {
        let mut rng = root.fork(i as u64);
        let w = &mut worlds[i % 2];
        let k = i / 2;
        let case = if k < 18 {
            report.count("bf.matrix");
            run_case(w, &mut rng, 0, Some(k), None)
        } else if k < 18 + bf.len() {
            let (name, nv, ops) = &bf[k - 18];
            report.count(&format!("bf.{}", name));
            run_case(w, &mut rng, 0, None, Some((*nv, ops.clone())))
        } else {
            let len = rng.range(6, 22) as usize;
            run_case(w, &mut rng, len, None, None)
        };
        let mut n_dep = 0;
        let mut n_ref = 0;
        let mut n_fail = 0;
        for (op, out, _) in &case.steps {
            if let Op::Try(v, b, named, _) = op {
                report.count(&format!("try.{}", variant_coq(*v)));
                report.count(if named.is_some() { "try.named_badge" } else { "try.no_badge" });
                report.count_n("buckets", b.len() as u64);
                match out {
                    Out::Deposited => {
                        n_dep += 1;
                        report.count("try.out.Deposited")
                    }
                    Out::Refunded(_) => {
                        n_ref += 1;
                        report.count("try.out.Refunded")
                    }
                    Out::Failed(e) => {
                        n_fail += 1;
                        report.count(&format!("try.out.{}", e))
                    }
                }
            } else if let Out::Failed(e) = out {
                report.count(&format!("other.out.{}", e));
            }
        }
        let canon = format!("{} {}", case.v2, case.steps.iter().map(|(o, out, _)| format!("{}=>{}", op_coq(o), out_coq(out))).collect::<Vec<_>>().join(";"));
        report.case(&canon, n_dep > 0 && n_ref > 0 && n_fail > 0);
        report.count(if case.v2 { "cases_v2" } else { "cases_v1" });
        let mut fails = oracle(&case);
        fails.extend(case.bystander_fails.iter().cloned());
        for what in fails {
            report.oracle_failure(
                i,
                "",
                &format!("{} [{}]", what, if case.v2 { "latest" } else { "anemone" }),
                json!({"v2": case.v2, "init": obs_coq(&case.init), "steps": case.steps.iter().map(|(o, out, obs)| format!("{} => {} ; {}", op_coq(o), out_coq(out), obs_coq(obs))).collect::<Vec<_>>()}),
            );
        }
        if i < 2 {
            report.sample(json!({"v2": case.v2, "steps": case.steps.iter().take(10).map(|(o, out, _)| format!("{} => {}", op_coq(o), out_coq(out))).collect::<Vec<_>>()}));
        }
        let dep_v = |k: usize| buckets_coq(&case.dep_before[k].iter().enumerate().map(|(r, b)| (r, *b)).collect::<Vec<_>>());
        cw.push(format!(
            "(mkcase {} {} {} {} {})",
            coq_bool(case.v2),
            dep_v(0),
            obs_coq(&case.init),
            obs_coq(&case.by_obs[0]),
            coq_list(case.steps.iter().enumerate().map(|(k, (o, out, obs))| format!(
                "({}, {}, {}, {}, {})",
                wop_coq(o),
                out_coq(out),
                dep_v(k + 1),
                obs_coq(obs),
                obs_coq(&case.by_obs[k + 1])
            )))
        ));
        report.count(&format!("account_kind.{}", case.kind));
    }
    for k in 0..3 {
        report.floor(&format!("account_kind.{}", k), 4);
    }
    report.floor("bf.matrix", 36);
    for (name, ..) in &bf {
        report.floor(&format!("bf.{}", name), 2);
    }
    report.floor("other.out.EVault", 6);
    report.floor("try.out.ENotAnAuthorizedDepositor", 20);
    report.floor("try.out.Deposited", total as u64);
    report.floor("try.out.Refunded", (total as u64) / 4);
    report.floor("try.out.EBadgeNotPresent", (total as u64) / 30);
    report.floor("try.out.ENotAllBuckets", (total as u64) / 12);
    report.floor("try.out.EDepositIsDisallowed", (total as u64) / 12);
    cw.write(&args.out, args.shards).unwrap();
    report.write(&args.out).unwrap();
}
