//! C50 correspondence harness: object encapsulation checks of the system layer.
//!
//! A real kernel + system (scrypto-test `TestEnvironment`) is driven directly: for every case a child
//! call frame is pushed with a chosen *actor* (function of any blueprint, main / direct / module
//! method on a global or owned node, blueprint hook, root) that owns or references freshly created
//! nodes (fungible buckets and proofs of two resources, Metadata / RoleAssignment objects, a
//! key-value store, address reservations, global components and resource managers), and ONE system
//! call is issued through `SystemService`: drop_object, globalize (with / without modules, with a
//! reservation for any blueprint), new_object, actor_open_field with an actor state handle.
//! Observed: Ok / the specific SystemError variant / other error. The type infos of the nodes
//! involved (read through get_node_type_info), the actor and the call are written as a Coq case for
//! Model/C50_Encaps.v.
//! Direct oracle (the property statement, computed from the type infos without the model): a drop
//! that succeeds was issued by code of the object's blueprint (no outer object / proof) or by a
//! method running on its outer object or on an inner object of the same outer object; a globalize
//! that succeeds was issued by code of the object's package with a reservation for the object's
//! blueprint; a state handle that opens a field opens one of the actor's own node or of its outer
//! object; a call that violates these is refused with InvalidDropAccess / InvalidGlobalizeAccess /
//! CannotGlobalize(InvalidBlueprintId) — never succeeds.
use radix_native_sdk::modules::metadata::Metadata;
use radix_native_sdk::modules::role_assignment::RoleAssignment;
use radix_native_sdk::resource::NativeVault;
use scrypto_test::prelude::*;
use radix_engine::system::type_info::TypeInfoSubstate;
use serde_json::json;
use std::collections::BTreeMap;
use vh_common::{catch, coq_bool, coq_list, coq_option, Args, CaseWriter, Report, Rng};

type Env = TestEnvironment<InMemorySubstateDatabase>;

// ------------------------------------------------------------------------------------------------
// registry: abstract codes for packages, blueprint names, nodes
// ------------------------------------------------------------------------------------------------
#[derive(Default)]
struct Registry {
    pkgs: BTreeMap<Vec<u8>, u64>,
    names: BTreeMap<String, u64>,
    nodes: BTreeMap<Vec<u8>, u64>,
}
impl Registry {
    fn new() -> Self {
        let mut r = Registry::default();
        r.pkgs.insert(RESOURCE_PACKAGE.as_node_id().0.to_vec(), 0);
        r.pkgs.insert(METADATA_MODULE_PACKAGE.as_node_id().0.to_vec(), 100);
        r.pkgs.insert(ROYALTY_MODULE_PACKAGE.as_node_id().0.to_vec(), 101);
        r.pkgs.insert(ROLE_ASSIGNMENT_MODULE_PACKAGE.as_node_id().0.to_vec(), 102);
        r.names.insert(FUNGIBLE_PROOF_BLUEPRINT.to_string(), 0);
        r.names.insert(NON_FUNGIBLE_PROOF_BLUEPRINT.to_string(), 1);
        r.names.insert(METADATA_BLUEPRINT.to_string(), 100);
        r.names.insert(COMPONENT_ROYALTY_BLUEPRINT.to_string(), 101);
        r.names.insert(ROLE_ASSIGNMENT_BLUEPRINT.to_string(), 102);
        r
    }
    fn pkg(&mut self, p: &PackageAddress) -> u64 {
        let k = p.as_node_id().0.to_vec();
        let n = self.pkgs.len() as u64 + 1;
        *self.pkgs.entry(k).or_insert(n)
    }
    fn name(&mut self, s: &str) -> u64 {
        let n = self.names.len() as u64 + 2;
        *self.names.entry(s.to_string()).or_insert(n)
    }
    fn node(&mut self, n: &NodeId) -> u64 {
        let k = n.0.to_vec();
        let c = self.nodes.len() as u64 + 1000;
        *self.nodes.entry(k).or_insert(c)
    }
    fn bp(&mut self, b: &BlueprintId) -> String {
        format!("(mkBp {} {})", self.pkg(&b.package_address), self.name(&b.blueprint_name))
    }
}

fn module_code(m: &AttachedModuleId) -> u64 {
    match m {
        AttachedModuleId::Metadata => 0,
        AttachedModuleId::Royalty => 1,
        AttachedModuleId::RoleAssignment => 2,
    }
}

fn oinfo_coq(reg: &mut Registry, i: &ObjectInfo) -> String {
    let outer = match &i.blueprint_info.outer_obj_info {
        OuterObjectInfo::Some { outer_object } => format!("(OSome {})", reg.node(outer_object.as_node_id())),
        OuterObjectInfo::None => "ONone".to_string(),
    };
    format!("(mkOI {} {} {})", reg.bp(&i.blueprint_info.blueprint_id), outer, coq_bool(i.is_global()))
}
fn tinfo_coq(reg: &mut Registry, t: &TypeInfoSubstate) -> String {
    match t {
        TypeInfoSubstate::Object(i) => format!("(TObject {})", oinfo_coq(reg, i)),
        TypeInfoSubstate::KeyValueStore(_) => "TKVStore".to_string(),
        TypeInfoSubstate::GlobalAddressReservation(a) => format!("(TReservation {})", reg.node(a.as_node_id())),
        TypeInfoSubstate::GlobalAddressPhantom(p) => format!("(TPhantom {})", reg.bp(&p.blueprint_id)),
    }
}
fn actor_coq(reg: &mut Registry, a: &Actor) -> String {
    match a {
        Actor::Root => "ARoot".to_string(),
        Actor::Method(m) => {
            let t = match &m.method_type {
                MethodType::Main => "MMain".to_string(),
                MethodType::Direct => "MDirect".to_string(),
                MethodType::Module(x) => format!("(MModule {})", module_code(x)),
            };
            format!("(AMethod {} {} {})", t, reg.node(&m.node_id), oinfo_coq(reg, &m.object_info))
        }
        Actor::Function(f) => format!("(AFunction {})", reg.bp(&f.blueprint_id)),
        Actor::BlueprintHook(h) => format!("(AHook {} {})", reg.bp(&h.blueprint_id), coq_option(h.receiver.map(|n| reg.node(&n).to_string()))),
    }
}

// ------------------------------------------------------------------------------------------------
// environment helpers
// ------------------------------------------------------------------------------------------------
fn type_info(env: &mut Env, n: &NodeId) -> Option<TypeInfoSubstate> {
    env.with_kernel_mut(|k| SystemService::new(k).get_node_type_info(n).ok())
}
fn object_info(env: &mut Env, n: &NodeId) -> Option<ObjectInfo> {
    match type_info(env, n) {
        Some(TypeInfoSubstate::Object(i)) => Some(i),
        _ => None,
    }
}

fn push_frame(env: &mut Env, actor: Actor, move_nodes: Vec<NodeId>, globals: Vec<NodeId>) -> Result<(), String> {
    env.with_kernel_mut(|kernel| {
        let mut message = CallFrameMessage::from_input(&IndexedScryptoValue::from_typed(&()), &actor);
        message.move_nodes = move_nodes;
        for g in globals {
            if !message.copy_global_references.contains(&g) {
                message.copy_global_references.push(g);
            }
        }
        let (substate_io, current_frame) = kernel.kernel_current_frame_mut();
        let new_frame = CallFrame::new_child_from_parent(substate_io, current_frame, actor, message).map_err(|e| format!("{:?}", e))?;
        let previous = core::mem::replace(current_frame, new_frame);
        kernel.kernel_prev_frame_stack_mut().push(previous);
        Ok(())
    })
}
fn pop_frame(env: &mut Env) {
    env.with_kernel_mut(|kernel| {
        let prev = kernel.kernel_prev_frame_stack_mut().pop().expect("frame");
        let (_, current_frame) = kernel.kernel_current_frame_mut();
        let _child = core::mem::replace(current_frame, prev);
    })
}

#[derive(Clone, Debug, PartialEq)]
enum Obs {
    Ok,
    OkNode(u64),
    Err(&'static str),
    Other(String),
}
fn classify(e: &RuntimeError) -> Obs {
    match e {
        RuntimeError::SystemError(se) => match se {
            SystemError::InvalidDropAccess(_) => Obs::Err("EInvalidDropAccess"),
            SystemError::InvalidGlobalizeAccess(_) => Obs::Err("EInvalidGlobalizeAccess"),
            SystemError::NotAnObject => Obs::Err("ENotAnObject"),
            SystemError::InvalidGlobalAddressReservation | SystemError::NotAnAddressReservation => Obs::Err("EInvalidGlobalAddressReservation"),
            SystemError::MissingModule(_) => Obs::Err("EMissingModule"),
            SystemError::CannotGlobalize(CannotGlobalizeError::AlreadyGlobalized) => Obs::Err("ECannotGlobalizeAlreadyGlobalized"),
            SystemError::CannotGlobalize(CannotGlobalizeError::InvalidBlueprintId) => Obs::Err("ECannotGlobalizeInvalidBlueprintId"),
            SystemError::NoPackageAddress => Obs::Err("ENoPackageAddress"),
            SystemError::BlueprintDoesNotExist(_) => Obs::Err("EBlueprintDoesNotExist"),
            SystemError::InvalidChildObjectCreation => Obs::Err("EInvalidChildObjectCreation"),
            SystemError::InvalidActorStateHandle => Obs::Err("EInvalidActorStateHandle"),
            SystemError::OuterObjectDoesNotExist => Obs::Err("EOuterObjectDoesNotExist"),
            SystemError::NotAKeyValueStore => Obs::Err("ENotAKeyValueStore"),
            other => Obs::Other(format!("{:?}", other).chars().take(160).collect()),
        },
        other => Obs::Other(format!("{:?}", other).chars().take(160).collect()),
    }
}

// ------------------------------------------------------------------------------------------------
// world: long-lived global nodes + per-case fresh nodes
// ------------------------------------------------------------------------------------------------
struct World {
    env: Env,
    res2: ResourceAddress,
    env_bp: BlueprintId,
    auth_zone: NodeId,
}
fn build_world() -> World {
    let mut env = TestEnvironment::new();
    env.disable_auth_module();
    env.disable_costing_module();
    env.disable_limits_module();
    let bucket = ResourceBuilder::new_fungible(OwnerRole::None).divisibility(18).mint_initial_supply(1000, &mut env).expect("resource");
    let res2 = bucket.resource_address(&mut env).expect("addr");
    // the initial-supply bucket stays owned by the root frame of the environment
    std::mem::forget(bucket);
    let (env_bp, auth_zone) = env.with_kernel_mut(|k| {
        let a = SystemService::new(k).current_actor();
        (a.blueprint_id().expect("function actor"), a.self_auth_zone().expect("auth zone"))
    });
    World { env, res2, env_bp, auth_zone }
}

#[derive(Clone, Copy, Debug, PartialEq)]
enum Target {
    BucketXrd,
    BucketRes2,
    ProofXrd,
    MetadataObj,
    RoleAssignmentObj,
    KvStore,
    Reservation,
    GlobalFaucet,
    GlobalXrd,
    TestEnvObj,
    VaultXrd,
    GlobalRes2,
}
const TARGETS: &[Target] = &[
    Target::BucketXrd,
    Target::BucketRes2,
    Target::ProofXrd,
    Target::MetadataObj,
    Target::RoleAssignmentObj,
    Target::KvStore,
    Target::Reservation,
    Target::GlobalFaucet,
    Target::GlobalXrd,
    Target::TestEnvObj,
    Target::VaultXrd,
    Target::GlobalRes2,
];

/// creates the node in the environment's own frame; returns (node, must be moved?, extra owned nodes to move along)
fn make_target(w: &mut World, t: Target) -> Result<(NodeId, bool, Vec<NodeId>), RuntimeError> {
    let env = &mut w.env;
    Ok(match t {
        Target::BucketXrd => {
            let b = BucketFactory::create_fungible_bucket(XRD, 0.into(), CreationStrategy::Mock, env)?;
            (*b.0 .0.as_node_id(), true, vec![])
        }
        Target::BucketRes2 => {
            let b = BucketFactory::create_fungible_bucket(w.res2, 0.into(), CreationStrategy::Mock, env)?;
            (*b.0 .0.as_node_id(), true, vec![])
        }
        Target::ProofXrd => {
            let b = BucketFactory::create_fungible_bucket(XRD, 5.into(), CreationStrategy::Mock, env)?;
            let p = b.create_proof_of_all(env)?;
            // the proof's bucket must stay alive: it stays in the environment frame
            let pn = *p.0 .0.as_node_id();
            std::mem::forget(b);
            (pn, true, vec![])
        }
        Target::MetadataObj => {
            let m = Metadata::create(env)?;
            (m.0, true, vec![])
        }
        Target::RoleAssignmentObj => {
            let r = RoleAssignment::create(OwnerRole::None, index_map_new::<ModuleId, RoleAssignmentInit>(), env)?;
            (*r.0.as_node_id(), true, vec![])
        }
        Target::KvStore => {
            let n = env.key_value_store_new(KeyValueStoreDataSchema::new_local_without_self_package_replacement::<u32, u32>(true))?;
            (n, true, vec![])
        }
        Target::Reservation => {
            let bp = BlueprintId::new(&FAUCET_PACKAGE, "Faucet");
            let (r, _a) = env.allocate_global_address(bp)?;
            (*r.0.as_node_id(), true, vec![])
        }
        Target::TestEnvObj => {
            // an owned object of the environment's own (non-transient, outer) blueprint `TestEnvironment {}`
            let mut fields = index_map_new();
            fields.insert(0u8, FieldValue::new(()));
            let n = env.new_object("TestEnvironment", vec![], GenericArgs::default(), fields, index_map_new())?;
            (n, true, vec![])
        }
        Target::VaultXrd => {
            // an (empty) vault: inner object of the XRD resource manager, blueprint FungibleVault
            let v = Vault::create(XRD, env)?;
            (*v.0.as_node_id(), true, vec![])
        }
        Target::GlobalFaucet => (*FAUCET.as_node_id(), false, vec![]),
        Target::GlobalXrd => (*XRD.as_node_id(), false, vec![]),
        Target::GlobalRes2 => (*w.res2.as_node_id(), false, vec![]),
    })
}

#[derive(Clone, Debug)]
enum ActorKind {
    Root,
    Function(BlueprintId),
    Hook(BlueprintId, bool), // receiver = target?
    MethodOn(Target, u8),    // 0 main, 1 direct, 2 module(RoleAssignment), 3 module(Metadata)
    MethodOnTarget(u8),      // the actor's node is the target node itself
}

fn blueprints_pool(w: &World) -> Vec<BlueprintId> {
    vec![
        w.env_bp.clone(),
        BlueprintId::new(&RESOURCE_PACKAGE, FUNGIBLE_BUCKET_BLUEPRINT),
        BlueprintId::new(&RESOURCE_PACKAGE, FUNGIBLE_PROOF_BLUEPRINT),
        BlueprintId::new(&RESOURCE_PACKAGE, NON_FUNGIBLE_PROOF_BLUEPRINT),
        BlueprintId::new(&RESOURCE_PACKAGE, FUNGIBLE_RESOURCE_MANAGER_BLUEPRINT),
        BlueprintId::new(&RESOURCE_PACKAGE, FUNGIBLE_VAULT_BLUEPRINT),
        BlueprintId::new(&RESOURCE_PACKAGE, "Evil"),
        BlueprintId::new(&METADATA_MODULE_PACKAGE, METADATA_BLUEPRINT),
        BlueprintId::new(&ROLE_ASSIGNMENT_MODULE_PACKAGE, ROLE_ASSIGNMENT_BLUEPRINT),
        BlueprintId::new(&FAUCET_PACKAGE, "Faucet"),
        BlueprintId::new(&FAUCET_PACKAGE, "Other"),
        BlueprintId::new(&ACCOUNT_PACKAGE, "Account"),
        BlueprintId::new(&w.env_bp.package_address, FUNGIBLE_BUCKET_BLUEPRINT),
        BlueprintId::new(&w.env_bp.package_address, METADATA_BLUEPRINT),
        BlueprintId::new(&w.env_bp.package_address, "Sibling"),
    ]
}

#[derive(Clone, Debug)]
enum Op {
    Drop,
    Globalize { reserve_for: Option<BlueprintId>, modules: bool }, // None = a non-reservation node is passed
    GlobalizeSel { sel: u8, modules: bool },                        // reservation chosen relative to the target's blueprint
    New(String),
    State(u32),
    KvOpen,
}

struct CaseOut {
    heap: Vec<(u64, String)>,
    actor: String,
    op: String,
    obs: Obs,
    oracle: Result<(), String>,
    tag: String,
}

fn choose(w: &mut World, rng: &mut Rng) -> (Target, Op, ActorKind) {
    let pool = blueprints_pool(w);
    // ---- choose
    let target_kind = *rng.pick(TARGETS);
    let op = match rng.below(10) {
        0..=3 => Op::Drop,
        4..=6 => {
            let reserve_for = if rng.chance(1, 8) { None } else { Some(rng.pick(&pool).clone()) };
            Op::Globalize { reserve_for, modules: rng.chance(2, 3) }
        }
        7 => Op::New(rng.pick(&[FUNGIBLE_BUCKET_BLUEPRINT, FUNGIBLE_PROOF_BLUEPRINT, FUNGIBLE_VAULT_BLUEPRINT, FUNGIBLE_RESOURCE_MANAGER_BLUEPRINT, METADATA_BLUEPRINT, "Faucet", "Nope", WORKTOP_BLUEPRINT]).to_string()),
        8 => Op::State(*rng.pick(&[0u32, 0, 1, 1, 1, 2, 7, u32::MAX])),
        _ => {
            if rng.bool() {
                Op::KvOpen
            } else {
                Op::State(*rng.pick(&[0u32, 1, 1, 2]))
            }
        }
    };
    // key-value store handles: half of the KvOpen calls aim at a real store
    let target_kind = if matches!(op, Op::KvOpen) && rng.bool() { Target::KvStore } else { target_kind };
    let actor_kind = match rng.below(12) {
        0 => ActorKind::Root,
        1..=4 => ActorKind::Function(rng.pick(&pool).clone()),
        5 => ActorKind::Hook(rng.pick(&pool).clone(), rng.bool()),
        6..=8 => ActorKind::MethodOn(*rng.pick(&[Target::BucketXrd, Target::BucketRes2, Target::GlobalXrd, Target::GlobalFaucet, Target::MetadataObj, Target::ProofXrd, Target::VaultXrd, Target::VaultXrd]), rng.below(4) as u8),
        _ => ActorKind::MethodOnTarget(rng.below(2) as u8),
    };
    // "matching" actors are rare at random: bias towards the actor that has the right
    let actor_kind = if rng.chance(1, 3) {
        match (&op, target_kind) {
            (Op::Drop, Target::BucketXrd) | (Op::Drop, Target::VaultXrd) if rng.chance(1, 3) => {
                // a sibling inner object of the other blueprint: vault code drops a bucket and vice versa
                ActorKind::MethodOn(if target_kind == Target::BucketXrd { Target::VaultXrd } else { Target::BucketXrd }, 0)
            }
            (Op::Drop, Target::VaultXrd) => ActorKind::MethodOn(if rng.bool() { Target::GlobalXrd } else { Target::VaultXrd }, 0),
            (Op::Drop, Target::BucketXrd) | (Op::Drop, Target::BucketRes2) => {
                if rng.bool() {
                    ActorKind::MethodOn(if target_kind == Target::BucketXrd { Target::GlobalXrd } else { Target::BucketRes2 }, 0)
                } else {
                    ActorKind::MethodOn(Target::BucketXrd, 0)
                }
            }
            (Op::Drop, Target::ProofXrd) => ActorKind::Function(BlueprintId::new(&RESOURCE_PACKAGE, FUNGIBLE_PROOF_BLUEPRINT)),
            (Op::Drop, Target::MetadataObj) => ActorKind::Function(BlueprintId::new(&METADATA_MODULE_PACKAGE, METADATA_BLUEPRINT)),
            (Op::Drop, Target::RoleAssignmentObj) => ActorKind::Function(BlueprintId::new(&ROLE_ASSIGNMENT_MODULE_PACKAGE, ROLE_ASSIGNMENT_BLUEPRINT)),
            (Op::New(_), _) => ActorKind::MethodOn(*rng.pick(&[Target::GlobalXrd, Target::BucketXrd]), 0),
            _ => actor_kind,
        }
    } else {
        actor_kind
    };
    let op = match (&op, target_kind) {
        // bias globalize towards the owning package / blueprint
        (Op::Globalize { modules, .. }, Target::MetadataObj) if rng.chance(1, 2) => Op::Globalize { reserve_for: Some(BlueprintId::new(&METADATA_MODULE_PACKAGE, METADATA_BLUEPRINT)), modules: *modules },
        _ => op,
    };
    let actor_kind = match (&op, target_kind, &actor_kind) {
        (Op::Globalize { .. }, Target::MetadataObj, _) if rng.chance(1, 2) => ActorKind::Function(BlueprintId::new(&METADATA_MODULE_PACKAGE, if rng.bool() { METADATA_BLUEPRINT } else { "Sibling" })),
        _ => actor_kind,
    };

    // a scenario that can fully succeed: code of the environment's package globalizes (or drops) an
    // object of the blueprint TestEnvironment — by its own blueprint, or by another blueprint of the same
    // package (globalize: finding class globalize_package_level; drop: must be refused)
    let (target_kind, op, actor_kind) = if rng.chance(1, 12) {
        let own = w.env_bp.clone();
        let sibling = BlueprintId::new(&own.package_address, "Sibling");
        (
            Target::TestEnvObj,
            if rng.chance(3, 4) { Op::Globalize { reserve_for: Some(own.clone()), modules: true } } else { Op::Drop },
            ActorKind::Function(if rng.bool() { own } else { sibling }),
        )
    } else if rng.chance(1, 15) {
        // sibling inner objects of the XRD resource manager: vault code drops a bucket / bucket code drops a vault
        if rng.bool() {
            (Target::BucketXrd, Op::Drop, ActorKind::MethodOn(Target::VaultXrd, 0))
        } else {
            (Target::VaultXrd, Op::Drop, ActorKind::MethodOn(Target::BucketXrd, 0))
        }
    } else {
        (target_kind, op, actor_kind)
    };
    (target_kind, op, actor_kind)
}

fn run_plan(w: &mut World, reg: &mut Registry, target_kind: Target, op: Op, actor_kind: ActorKind) -> Result<CaseOut, String> {
    let pool = blueprints_pool(w);
    // ---- create nodes in the environment frame
    let (target, target_owned, _) = make_target(w, target_kind).map_err(|e| format!("make target: {:?}", e))?;
    // a reservation selector is resolved against the target's blueprint
    let op = match op {
        Op::GlobalizeSel { sel, modules } => {
            let tbp = object_info(&mut w.env, &target).map(|i| i.blueprint_info.blueprint_id).unwrap_or(w.env_bp.clone());
            let reserve_for = match sel {
                0 => Some(tbp.clone()),                                                       // the object's own blueprint
                1 => Some(BlueprintId::new(&tbp.package_address, format!("{}X", tbp.blueprint_name))), // same package, other name
                2 => Some(BlueprintId::new(if tbp.package_address == FAUCET_PACKAGE { &ACCOUNT_PACKAGE } else { &FAUCET_PACKAGE }, tbp.blueprint_name.clone())), // other package, same name
                _ => None,                                                                    // not a reservation
            };
            Op::Globalize { reserve_for, modules }
        }
        o => o,
    };
    let mut move_nodes: Vec<NodeId> = Vec::new();
    let mut globals: Vec<NodeId> = vec![*XRD.as_node_id(), *FAUCET.as_node_id(), *w.res2.as_node_id()];
    if target_owned {
        move_nodes.push(target);
    }
    let actor = match &actor_kind {
        ActorKind::Root => Actor::Root,
        ActorKind::Function(b) => Actor::Function(FunctionActor { blueprint_id: b.clone(), ident: "f".into(), auth_zone: w.auth_zone }),
        ActorKind::Hook(b, recv) => Actor::BlueprintHook(BlueprintHookActor { receiver: if *recv { Some(target) } else { None }, hook: radix_blueprint_schema_init::BlueprintHook::OnDrop, blueprint_id: b.clone() }),
        ActorKind::MethodOn(..) | ActorKind::MethodOnTarget(_) => {
            let (node, mt) = match &actor_kind {
                ActorKind::MethodOn(t, mt) => {
                    // the receiver stays owned by the caller's frame; the callee gets the transient
                    // reference that CallFrameMessage::from_input adds for a method actor
                    let (n, _owned, _) = make_target(w, *t).map_err(|e| format!("make actor node: {:?}", e))?;
                    (n, *mt)
                }
                ActorKind::MethodOnTarget(mt) => (target, *mt),
                _ => unreachable!(),
            };
            match object_info(&mut w.env, &node) {
                Some(info) => {
                    let method_type = match mt {
                        0 => MethodType::Main,
                        1 => MethodType::Direct,
                        2 => MethodType::Module(AttachedModuleId::RoleAssignment),
                        _ => MethodType::Module(AttachedModuleId::Metadata),
                    };
                    Actor::Method(MethodActor { method_type, node_id: node, ident: "m".into(), auth_zone: w.auth_zone, object_info: info })
                }
                // the node is not an object (kv store, reservation): no method actor can exist on it
                None => Actor::Function(FunctionActor { blueprint_id: w.env_bp.clone(), ident: "f".into(), auth_zone: w.auth_zone }),
            }
        }
    };
    // modules for globalize
    let mut modules: IndexMap<AttachedModuleId, NodeId> = index_map_new();
    if let Op::Globalize { modules: true, .. } = &op {
        let m = Metadata::create(&mut w.env).map_err(|e| format!("{:?}", e))?;
        let r = RoleAssignment::create(OwnerRole::None, index_map_new::<ModuleId, RoleAssignmentInit>(), &mut w.env).map_err(|e| format!("{:?}", e))?;
        modules.insert(AttachedModuleId::Metadata, m.0);
        modules.insert(AttachedModuleId::RoleAssignment, *r.0.as_node_id());
        move_nodes.push(m.0);
        move_nodes.push(*r.0.as_node_id());
    }
    // a non-reservation node standing in for the reservation
    let mut fake_reservation: Option<NodeId> = None;
    if let Op::Globalize { reserve_for: None, .. } = &op {
        let (n, _, _) = make_target(w, Target::BucketXrd).map_err(|e| format!("{:?}", e))?;
        move_nodes.push(n);
        fake_reservation = Some(n);
    }
    if let Actor::Method(m) = &actor {
        // a node cannot be both moved and borrowed
        move_nodes.retain(|n| *n != m.node_id);
    }
    move_nodes.dedup();
    // packages of the blueprints used (reservations hold a reference to the package): only those
    // the environment frame sees as global
    for b in &pool {
        let n = *b.package_address.as_node_id();
        let visible = w.env.with_kernel_mut(|k| k.kernel_current_frame_mut().1.get_node_visibility(&n).is_global());
        if visible && !globals.contains(&n) {
            globals.push(n);
        }
    }
    globals.dedup();

    // ---- heap snapshot (before the call) of everything the model may look at
    let mut heap: Vec<(u64, String)> = Vec::new();
    let mut snap = |w: &mut World, reg: &mut Registry, n: &NodeId, heap: &mut Vec<(u64, String)>| {
        if let Some(t) = type_info(&mut w.env, n) {
            let code = reg.node(n);
            if !heap.iter().any(|(c, _)| *c == code) {
                let s = tinfo_coq(reg, &t);
                heap.push((code, s));
            }
            if let TypeInfoSubstate::Object(i) = &t {
                if let OuterObjectInfo::Some { outer_object } = &i.blueprint_info.outer_obj_info {
                    return Some(*outer_object.as_node_id());
                }
            }
        }
        None
    };
    let mut todo: Vec<NodeId> = vec![target];
    if let Actor::Method(m) = &actor {
        todo.push(m.node_id);
    }
    if let Some(f) = fake_reservation {
        todo.push(f);
    }
    todo.extend([*XRD.as_node_id(), *w.res2.as_node_id(), *FAUCET.as_node_id()]);
    while let Some(n) = todo.pop() {
        if let Some(o) = snap(w, reg, &n, &mut heap) {
            todo.push(o);
        }
    }

    // ---- push the frame, issue the call
    push_frame(&mut w.env, actor.clone(), move_nodes.clone(), globals).map_err(|e| format!("push frame ({:?} / {:?} / {:?}): {}", target_kind, actor_kind, op, e))?;
    let mut op_coq = String::new();
    let mut oracle: Result<(), String> = Ok(());
    let target_info = match type_info(&mut w.env, &target) {
        Some(TypeInfoSubstate::Object(i)) => Some(i),
        _ => None,
    };
    let actor_bp = actor.blueprint_id();
    let obs = match &op {
        Op::Drop => {
            op_coq = format!("(ODrop {})", reg.node(&target));
            let r = w.env.with_kernel_mut(|k| SystemService::new(k).drop_object(&target));
            let obs = match &r {
                Ok(_) => Obs::Ok,
                Err(e) => classify(e),
            };
            // the property statement
            if let Some(info) = &target_info {
                let bp = &info.blueprint_info.blueprint_id;
                let is_proof = bp.package_address == RESOURCE_PACKAGE && (bp.blueprint_name == FUNGIBLE_PROOF_BLUEPRINT || bp.blueprint_name == NON_FUNGIBLE_PROOF_BLUEPRINT);
                let right = match (&info.blueprint_info.outer_obj_info, is_proof) {
                    (OuterObjectInfo::Some { outer_object }, false) => match &actor {
                        Actor::Method(m) if matches!(m.method_type, MethodType::Main | MethodType::Direct) => {
                            if m.object_info.is_global() {
                                m.node_id == *outer_object.as_node_id()
                            } else {
                                matches!(&m.object_info.blueprint_info.outer_obj_info, OuterObjectInfo::Some { outer_object: o2 } if o2 == outer_object)
                            }
                        }
                        _ => false,
                    },
                    _ => actor_bp.as_ref() == Some(bp),
                };
                if !right && obs != Obs::Err("EInvalidDropAccess") {
                    oracle = Err(format!("drop without the right was not refused with InvalidDropAccess: {:?}", obs));
                }
                if right && obs == Obs::Err("EInvalidDropAccess") {
                    oracle = Err("drop by the owner refused with InvalidDropAccess".into());
                }
                // the rule for inner objects is the outer-object family: a sibling inner object of
                // ANOTHER blueprint may drop it (known finding class)
                if right && obs == Obs::Ok && actor_bp.as_ref() != Some(bp) {
                    if let Actor::Method(m) = &actor {
                        let is_outer_itself = matches!(&info.blueprint_info.outer_obj_info, OuterObjectInfo::Some { outer_object } if m.node_id == *outer_object.as_node_id());
                        if !is_outer_itself {
                            oracle = Err("KNOWN:drop_by_sibling_inner_object:drop succeeded for a method of another inner blueprint of the same outer object".into());
                        }
                    }
                }
            } else if obs == Obs::Ok {
                oracle = Err("drop_object succeeded on a node that is not an object".into());
            }
            obs
        }
        Op::GlobalizeSel { .. } => unreachable!("resolved above"),
        Op::Globalize { reserve_for, modules: has_modules } => {
            // the reservation is allocated by the same actor, inside the frame
            let (reservation, reserved_bp) = match reserve_for {
                Some(bp) => {
                    let r = w.env.with_kernel_mut(|k| SystemService::new(k).allocate_global_address(bp.clone()));
                    match r {
                        Ok((r, a)) => {
                            let rn = *r.0.as_node_id();
                            for n in [rn, *a.as_node_id()] {
                                if let Some(t) = type_info(&mut w.env, &n) {
                                    let c = reg.node(&n);
                                    let s = tinfo_coq(reg, &t);
                                    heap.push((c, s));
                                }
                            }
                            (r, Some(bp.clone()))
                        }
                        Err(e) => {
                            pop_frame(&mut w.env);
                            return Err(format!("allocate: {:?}", e));
                        }
                    }
                }
                None => (GlobalAddressReservation(Own(fake_reservation.unwrap())), None),
            };
            op_coq = format!("(OGlobalize {} {} {})", reg.node(&target), reg.node(reservation.0.as_node_id()), coq_bool(*has_modules));
            let r = w.env.with_kernel_mut(|k| SystemService::new(k).globalize(target, modules.clone(), Some(reservation)));
            let obs = match &r {
                Ok(_) => Obs::Ok,
                Err(e) => classify(e),
            };
            if obs == Obs::Ok {
                let ok = match (&target_info, &reserved_bp) {
                    (Some(i), Some(rbp)) => &i.blueprint_info.blueprint_id == rbp && actor_bp.as_ref().map(|b| b.package_address) == Some(rbp.package_address),
                    _ => false,
                };
                if !ok {
                    oracle = Err("globalize succeeded for an actor outside the object's package or with a foreign reservation".into());
                } else if actor_bp.as_ref() != target_info.as_ref().map(|i| &i.blueprint_info.blueprint_id) {
                    // the documented package-level rule: known finding class
                    oracle = Err("KNOWN:globalize_package_level:globalize succeeded for code of another blueprint of the object's package".into());
                }
            }
            if let Some(rbp) = &reserved_bp {
                if actor_bp.as_ref().map(|b| b.package_address) != Some(rbp.package_address) && obs != Obs::Err("EInvalidGlobalizeAccess") {
                    oracle = Err(format!("globalize with a reservation of a foreign package was not refused with InvalidGlobalizeAccess: {:?}", obs));
                }
            }
            obs
        }
        Op::New(ident) => {
            let def = actor_bp.as_ref().and_then(|ab| {
                let b = BlueprintId::new(&ab.package_address, ident.as_str());
                w.env.with_kernel_mut(|k| SystemService::new(k).get_blueprint_default_definition(b).ok()).map(|d| d.interface.blueprint_type.clone())
            });
            let def_coq = match &def {
                None => "None".to_string(),
                Some(BlueprintType::Outer) => "(Some BOuter)".to_string(),
                Some(BlueprintType::Inner { outer_blueprint }) => format!("(Some (BInner {}))", reg.name(outer_blueprint)),
            };
            op_coq = format!("(ONew {} {})", reg.name(ident), def_coq);
            let r = w.env.with_kernel_mut(|k| SystemService::new(k).new_object(ident, vec![], GenericArgs::default(), index_map_new(), index_map_new()));
            match &r {
                Ok(n) => {
                    // the created object belongs to the actor's package
                    if let Some(i) = object_info(&mut w.env, n) {
                        if Some(i.blueprint_info.blueprint_id.package_address) != actor_bp.as_ref().map(|b| b.package_address) {
                            oracle = Err("new_object created an object of a foreign package".into());
                        }
                    }
                    Obs::Ok
                }
                Err(e) => classify(e),
            }
        }
        Op::KvOpen => {
            op_coq = format!("(OKvOpen {})", reg.node(&target));
            let key = scrypto_encode(&7u32).unwrap();
            let r = w.env.with_kernel_mut(|k| {
                let mut s = SystemService::new(k);
                let h = s.key_value_store_open_entry(&target, &key, LockFlags::read_only())?;
                s.key_value_entry_close(h)?;
                Ok::<_, RuntimeError>(())
            });
            let obs = match &r {
                Ok(_) => Obs::Ok,
                Err(e) => classify(e),
            };
            // only key-value stores can be opened this way
            let is_kv = matches!(type_info(&mut w.env, &target), Some(TypeInfoSubstate::KeyValueStore(_)));
            if obs == Obs::Ok && !is_kv {
                oracle = Err("key_value_store_open_entry succeeded on a node that is not a key-value store".into());
            }
            if !is_kv && obs != Obs::Err("ENotAKeyValueStore") && !matches!(obs, Obs::Other(_)) {
                oracle = Err(format!("key_value_store_open_entry on a non-store answered {:?}", obs));
            }
            obs
        }
        Op::State(handle) => {
            op_coq = format!("(OState {})", handle);
            let r = w.env.with_kernel_mut(|k| {
                let mut s = SystemService::new(k);
                let h = s.actor_open_field(*handle, 0u8, LockFlags::read_only())?;
                let v = s.field_read(h)?;
                s.field_close(h)?;
                Ok::<_, RuntimeError>(v)
            });
            match &r {
                Ok(bytes) => {
                    // whose field 0 is it?
                    // (node, partition): the actor's own node in the partition of its module, and the outer object
                    let mut cands: Vec<(NodeId, PartitionNumber)> = Vec::new();
                    if let Some((n, module)) = actor.get_object_id() {
                        let base = match module {
                            None => MAIN_BASE_PARTITION,
                            Some(m) => {
                                let mm: ModuleId = m.into();
                                mm.base_partition_num()
                            }
                        };
                        cands.push((n, base));
                        if let Some(i) = object_info(&mut w.env, &n) {
                            if let OuterObjectInfo::Some { outer_object } = i.blueprint_info.outer_obj_info {
                                cands.push((*outer_object.as_node_id(), MAIN_BASE_PARTITION));
                            }
                        }
                    }
                    let mut hits: Vec<NodeId> = Vec::new();
                    for (c, part) in &cands {
                        let direct = w.env.with_kernel_mut(|k| {
                            let h = k.kernel_open_substate(c, *part, &SubstateKey::Field(0u8), LockFlags::read_only(), SystemLockData::Field(FieldLockData::Read))?;
                            let v = k.kernel_read_substate(h).map(|v| {
                                let f: FieldSubstate<ScryptoValue> = v.as_typed().unwrap();
                                scrypto_encode(&f.into_payload()).unwrap()
                            })?;
                            k.kernel_close_substate(h)?;
                            Ok::<_, RuntimeError>(v)
                        });
                        if direct.as_ref().ok() == Some(bytes) {
                            hits.push(*c);
                        }
                    }
                    if hits.is_empty() {
                        oracle = Err("a state handle opened a field that is neither the actor's nor its outer object's".into());
                        Obs::Ok
                    } else if hits.len() == 1 {
                        Obs::OkNode(reg.node(&hits[0]))
                    } else {
                        Obs::Ok
                    }
                }
                Err(e) => classify(e),
            }
        }
    };
    pop_frame(&mut w.env);
    let tag = format!(
        "{}|{}|{}",
        match &op {
            Op::Drop => "drop",
            Op::Globalize { .. } | Op::GlobalizeSel { .. } => "globalize",
            Op::New(_) => "new",
            Op::State(_) => "state",
            Op::KvOpen => "kvopen",
        },
        match &actor {
            Actor::Root => "root",
            Actor::Function(_) => "function",
            Actor::Method(_) => "method",
            Actor::BlueprintHook(_) => "hook",
        },
        match &obs {
            Obs::Ok | Obs::OkNode(_) => "ok".to_string(),
            Obs::Err(e) => e.to_string(),
            Obs::Other(_) => "other".to_string(),
        }
    );
    Ok(CaseOut { heap, actor: actor_coq(reg, &actor), op: op_coq, obs, oracle, tag })
}

/// The deterministic boundary family (identical for every seed): every kind of actor against every
/// kind of node for drop and for globalize with each kind of reservation (the object's own blueprint,
/// same package / other blueprint, other package / same name, not a reservation; with and without the
/// required modules), new_object of outer / inner / unknown blueprints from every kind of actor, every
/// state handle value from every kind of actor, key_value_store_open_entry on every kind of node.
fn family(w: &World) -> Vec<(Target, Op, ActorKind)> {
    let env = w.env_bp.clone();
    let rp = |n: &str| BlueprintId::new(&RESOURCE_PACKAGE, n);
    let actors: Vec<ActorKind> = vec![
        ActorKind::Root,
        ActorKind::Function(env.clone()),
        ActorKind::Function(BlueprintId::new(&env.package_address, "Sibling")),
        ActorKind::Function(rp(FUNGIBLE_BUCKET_BLUEPRINT)),
        ActorKind::Function(rp(FUNGIBLE_VAULT_BLUEPRINT)),
        ActorKind::Function(rp(FUNGIBLE_PROOF_BLUEPRINT)),
        ActorKind::Function(rp(NON_FUNGIBLE_PROOF_BLUEPRINT)),
        ActorKind::Function(rp(FUNGIBLE_RESOURCE_MANAGER_BLUEPRINT)),
        ActorKind::Function(BlueprintId::new(&METADATA_MODULE_PACKAGE, METADATA_BLUEPRINT)),
        ActorKind::Function(BlueprintId::new(&METADATA_MODULE_PACKAGE, "Sibling")),
        ActorKind::Function(BlueprintId::new(&ROLE_ASSIGNMENT_MODULE_PACKAGE, ROLE_ASSIGNMENT_BLUEPRINT)),
        ActorKind::Function(BlueprintId::new(&FAUCET_PACKAGE, "Faucet")),
        ActorKind::Hook(rp(FUNGIBLE_BUCKET_BLUEPRINT), false),
        ActorKind::MethodOn(Target::BucketXrd, 0),
        ActorKind::MethodOn(Target::BucketRes2, 0),
        ActorKind::MethodOn(Target::VaultXrd, 0),
        ActorKind::MethodOn(Target::ProofXrd, 0),
        ActorKind::MethodOn(Target::GlobalXrd, 0),
        ActorKind::MethodOn(Target::GlobalRes2, 0),
        ActorKind::MethodOn(Target::GlobalFaucet, 0),
        ActorKind::MethodOn(Target::GlobalFaucet, 2),
        ActorKind::MethodOn(Target::GlobalXrd, 3),
        ActorKind::MethodOn(Target::MetadataObj, 0),
        ActorKind::MethodOn(Target::TestEnvObj, 0),
        ActorKind::MethodOnTarget(0),
    ];
    let mut v = Vec::new();
    for t in TARGETS {
        for a in &actors {
            v.push((*t, Op::Drop, a.clone()));
        }
    }
    // globalize: the actors that matter for the package / blueprint comparisons
    let gactors: Vec<ActorKind> = actors.iter().filter(|a| !matches!(a, ActorKind::MethodOn(_, 2) | ActorKind::MethodOn(_, 3) | ActorKind::Hook(..))).cloned().collect();
    for t in TARGETS {
        for a in &gactors {
            for sel in 0..4u8 {
                v.push((*t, Op::GlobalizeSel { sel, modules: true }, a.clone()));
            }
            v.push((*t, Op::GlobalizeSel { sel: 0, modules: false }, a.clone()));
        }
    }
    for a in &actors {
        for ident in [FUNGIBLE_BUCKET_BLUEPRINT, NON_FUNGIBLE_BUCKET_BLUEPRINT, FUNGIBLE_VAULT_BLUEPRINT, FUNGIBLE_RESOURCE_MANAGER_BLUEPRINT, "TestEnvironment", "Nope"] {
            v.push((Target::BucketXrd, Op::New(ident.to_string()), a.clone()));
        }
        for h in [0u32, 1, 2, u32::MAX] {
            v.push((Target::BucketXrd, Op::State(h), a.clone()));
        }
    }
    for t in TARGETS {
        for a in [ActorKind::Root, ActorKind::Function(env.clone()), ActorKind::MethodOn(Target::GlobalFaucet, 0)] {
            v.push((*t, Op::KvOpen, a));
        }
    }
    v
}

// counts of the deterministic family on the unmodified code (a class that stops being generated, or
// whose outcome moves, fails the run)
const FAMILY_FLOORS: &[(&str, u64)] = &[
    ("fam|drop|function|EInvalidDropAccess", 77),
    ("fam|drop|function|ENotAnObject", 18),
    ("fam|drop|function|ok", 3),
    ("fam|drop|function|other", 2),
    ("fam|drop|hook|EInvalidDropAccess", 7),
    ("fam|drop|hook|ENotAnObject", 1),
    ("fam|drop|method|EInvalidDropAccess", 67),
    ("fam|drop|method|ENotAnObject", 16),
    ("fam|drop|method|ok", 11),
    ("fam|drop|method|other", 11),
    ("fam|drop|root|EInvalidDropAccess", 7),
    ("fam|drop|root|ENotAnObject", 1),
    ("fam|globalize|function|ECannotGlobalizeAlreadyGlobalized", 18),
    ("fam|globalize|function|ECannotGlobalizeInvalidBlueprintId", 24),
    ("fam|globalize|function|EInvalidGlobalAddressReservation", 100),
    ("fam|globalize|function|EInvalidGlobalizeAccess", 299),
    ("fam|globalize|function|EMissingModule", 31),
    ("fam|globalize|function|ENotAnObject", 10),
    ("fam|globalize|function|ok", 5),
    ("fam|globalize|function|other", 13),
    ("fam|globalize|method|ECannotGlobalizeAlreadyGlobalized", 25),
    ("fam|globalize|method|ECannotGlobalizeInvalidBlueprintId", 30),
    ("fam|globalize|method|EInvalidGlobalAddressReservation", 88),
    ("fam|globalize|method|EInvalidGlobalizeAccess", 231),
    ("fam|globalize|method|EMissingModule", 38),
    ("fam|globalize|method|ENotAnObject", 4),
    ("fam|globalize|method|ok", 5),
    ("fam|globalize|method|other", 19),
    ("fam|globalize|root|EInvalidGlobalAddressReservation", 9),
    ("fam|globalize|root|EInvalidGlobalizeAccess", 36),
    ("fam|kvopen|function|ENotAKeyValueStore", 8),
    ("fam|kvopen|function|ok", 1),
    ("fam|kvopen|method|ENotAKeyValueStore", 8),
    ("fam|kvopen|method|ok", 1),
    ("fam|kvopen|root|ENotAKeyValueStore", 8),
    ("fam|kvopen|root|ok", 1),
    ("fam|new|function|EBlueprintDoesNotExist", 33),
    ("fam|new|function|EInvalidChildObjectCreation", 11),
    ("fam|new|function|other", 5),
    ("fam|new|hook|EBlueprintDoesNotExist", 1),
    ("fam|new|hook|EInvalidChildObjectCreation", 2),
    ("fam|new|hook|other", 1),
    ("fam|new|method|EBlueprintDoesNotExist", 32),
    ("fam|new|method|EInvalidChildObjectCreation", 5),
    ("fam|new|method|other", 16),
    ("fam|new|root|ENoPackageAddress", 4),
    ("fam|state|function|EInvalidActorStateHandle", 16),
    ("fam|state|function|ENotAnObject", 16),
    ("fam|state|hook|EInvalidActorStateHandle", 1),
    ("fam|state|hook|ENotAnObject", 1),
    ("fam|state|method|EInvalidActorStateHandle", 18),
    ("fam|state|method|EOuterObjectDoesNotExist", 5),
    ("fam|state|method|ok", 11),
    ("fam|state|method|other", 1),
    ("fam|state|root|EInvalidActorStateHandle", 1),
    ("fam|state|root|ENotAnObject", 1),
];

fn main() {
    let args = Args::parse();
    let mut report = Report::new(
        "C50",
        args.seed,
        "one system call (drop_object / globalize / new_object / actor_open_field) issued through SystemService from a pushed call frame whose actor is chosen (function, main/direct/module method on global or owned nodes, hook, root) against fresh buckets, proofs, module objects, kv stores, reservations and global components; \
         non-trivial = the call reached an access decision (ok or a specific access error); distinct by actor + op + heap text",
    );
    let mut cw = CaseWriter::new("RV.Corr.C50_run RV.Model.C50_Encaps", "check");
    // constants the model hard-codes
    if ACTOR_STATE_SELF != 0 || ACTOR_STATE_OUTER_OBJECT != 1 {
        report.oracle_failure(0, "", "ACTOR_STATE_SELF / ACTOR_STATE_OUTER_OBJECT differ from the model's 0 / 1", json!({}));
    }
    let root = Rng::new(args.seed);
    let mut world = build_world();
    let mut reg = Registry::new();
    let mut made = 0usize;
    let mut attempt = 0u64;
    let fam = family(&world);
    let n_fam = fam.len();
    let total = n_fam + args.cases;
    while made < total && attempt < (total as u64) * 3 + 20 {
        let mut rng = root.fork(attempt);
        let idx = attempt as usize;
        attempt += 1;
        let in_family = idx < n_fam;
        let plan = if in_family { fam[idx].clone() } else { choose(&mut world, &mut rng) };
        let r = catch(std::panic::AssertUnwindSafe(|| run_plan(&mut world, &mut reg, plan.0, plan.1.clone(), plan.2.clone())));
        if in_family {
            report.count("family_plans");
        }
        match r {
            Err(msg) => {
                // a panic inside the engine: the environment may be inconsistent — rebuild it
                report.count("engine_panic");
                report.oracle_failure(made, "", &format!("engine panicked: {}", msg), json!({"attempt": attempt}));
                world = build_world();
                reg = Registry::new();
            }
            Ok(Err(setup)) => {
                report.count("setup_failed");
                if in_family {
                    report.count("fam|setup_failed");
                    made += 1; // a family plan is not retried
                }
                if std::env::var("C50_DEBUG").is_ok() {
                    eprintln!("SETUP {}", setup.chars().take(160).collect::<String>());
                }
                if report.notes.len() < 5 {
                    report.notes.push(setup);
                }
            }
            Ok(Ok(c)) => {
                let heap = coq_list(c.heap.iter().map(|(k, v)| format!("({}, {})", k, v)));
                let obs = match &c.obs {
                    Obs::Ok => "ObsOk".to_string(),
                    Obs::OkNode(n) => format!("(ObsOkNode {})", n),
                    Obs::Err(e) => format!("(ObsErr {})", e),
                    Obs::Other(_) => "ObsOther".to_string(),
                };
                let term = format!("(mkCase {} {} {} {})", heap, c.actor, c.op, obs);
                report.case(&term, !matches!(c.obs, Obs::Other(_)));
                report.count(&c.tag);
                if in_family {
                    report.count(&format!("fam|{}", c.tag));
                }
                if let Obs::Other(s) = &c.obs {
                    if std::env::var("C50_DEBUG").is_ok() {
                        eprintln!("{} -> {}", c.tag, s);
                    }
                    report.count(&format!("other:{}", s.split(|ch: char| !ch.is_alphanumeric()).next().unwrap_or("")));
                }
                if let Err(what) = &c.oracle {
                    if let Some(rest) = what.strip_prefix("KNOWN:") {
                        let mut it = rest.splitn(2, ':');
                        let class = it.next().unwrap_or("");
                        let msg = it.next().unwrap_or("");
                        report.count(&format!("known_{}", class));
                        report.oracle_failure(made, class, msg, json!({"case": term}));
                    } else {
                        report.oracle_failure(made, "", what, json!({"case": term}));
                    }
                }
                if made < 3 {
                    report.sample(json!({"tag": c.tag, "case": term}));
                }
                cw.push(term);
                made += 1;
            }
        }
    }
    let n = args.cases as u64;
    report.floor("drop|method|ok", n / 200);
    report.floor("drop|function|EInvalidDropAccess", n / 100);
    report.floor("drop|method|EInvalidDropAccess", n / 100);
    report.floor("globalize|function|EInvalidGlobalizeAccess", n / 100);
    report.floor("globalize|function|ok", n / 200);
    report.floor("known_drop_by_sibling_inner_object", 1);
    report.floor("kvopen|function|ok", 1);
    for (k, m) in FAMILY_FLOORS {
        report.floor(k, *m);
    }
    cw.write(&args.out, args.shards).unwrap();
    report.write(&args.out).unwrap();
}
