//! C02 engine-level oracle (no Coq cases): generated manifests are executed on a LedgerSimulator with
//! a system (costing) error injected at a swept kernel-callback count, so that the failure lands at
//! many execution points; plus the manifests' own failures. Every substate in a failed commit's
//! `state_updates` and every event is classified against the allowed fee-only set; rejected/aborted
//! transactions must leave the database bit-identical; the database checkers run at the end.
use radix_common::prelude::*;
use radix_engine::blueprints::consensus_manager::*;
use radix_engine::blueprints::resource::FungibleVaultField;
use radix_engine::system::system_substates::FieldSubstate;
use radix_engine::transaction::*;
use radix_engine_interface::prelude::*;
use radix_substate_store_interface::interface::*;
use radix_transactions::prelude::*;
use scrypto_test::prelude::{LedgerSimulatorBuilder, NoExtension};
use serde_json::json;
use vh_common::*;

type Sim = scrypto_test::prelude::LedgerSimulator<NoExtension, radix_substate_store_impls::memory_db::InMemorySubstateDatabase>;

struct Acct {
    pk: Secp256k1PublicKey,
    addr: ComponentAddress,
}

fn gen_manifest(rng: &mut Rng, accts: &[Acct]) -> (TransactionManifestV1, Vec<String>) {
    let mut b = ManifestBuilder::new();
    let mut desc = Vec::new();
    let payer = rng.usize_below(accts.len());
    // fee lock: early, late, from faucet, contingent, or missing
    let lock_pos = match rng.below(10) {
        0 => usize::MAX, // never locks: rejected
        1 | 2 => 2,
        _ => 0,
    };
    let n_instr = rng.range(2, 9) as usize;
    let mut worktop_nonempty = false;
    for i in 0..n_instr {
        if i == lock_pos {
            match rng.below(6) {
                0 => {
                    b = b.lock_fee_from_faucet();
                    desc.push("lock_fee_from_faucet".into());
                }
                1 => {
                    b = b.lock_fee(accts[payer].addr, dec!(5000)).lock_contingent_fee(accts[(payer + 1) % accts.len()].addr, dec!(10));
                    desc.push("lock_fee+contingent".into());
                }
                2 => {
                    b = b.lock_fee(accts[payer].addr, dec!("0.5")); // too little: fails when the loan is due
                    desc.push("lock_fee_small".into());
                }
                _ => {
                    b = b.lock_fee(accts[payer].addr, dec!(5000));
                    desc.push("lock_fee".into());
                }
            }
        }
        let a = rng.usize_below(accts.len());
        match rng.below(9) {
            0 | 1 => {
                let amt = Decimal::from(rng.range(1, 50));
                b = b.withdraw_from_account(accts[a].addr, XRD, amt);
                worktop_nonempty = true;
                desc.push(format!("withdraw {} from {}", amt, a));
            }
            2 => {
                b = b.get_free_xrd_from_faucet();
                worktop_nonempty = true;
                desc.push("free_xrd".into());
            }
            3 => {
                b = b.try_deposit_entire_worktop_or_abort(accts[a].addr, None);
                worktop_nonempty = false;
                desc.push(format!("deposit_all to {}", a));
            }
            4 => {
                b = b.create_fungible_resource(
                    OwnerRole::None,
                    true,
                    18,
                    FungibleResourceRoles::default(),
                    metadata!(),
                    Some(Decimal::from(rng.range(1, 1000))),
                );
                worktop_nonempty = true;
                desc.push("create_fungible".into());
            }
            5 => {
                b = b.new_account();
                desc.push("new_account".into());
            }
            6 => {
                // a failing assertion: the transaction fails here by itself
                if rng.chance(1, 3) {
                    b = b.assert_worktop_contains(XRD, dec!(100000000));
                    desc.push("assert_fail".into());
                } else {
                    b = b.assert_worktop_contains(XRD, dec!(0));
                    desc.push("assert_ok".into());
                }
            }
            7 => {
                b = b.call_method(accts[a].addr, "balance", manifest_args!(XRD));
                desc.push("balance".into());
            }
            _ => {
                let amt = Decimal::from(rng.range(1, 20));
                b = b.withdraw_from_account(accts[a].addr, XRD, amt).take_all_from_worktop(XRD, "bkt".to_string() + &i.to_string());
                let name = "bkt".to_string() + &i.to_string();
                b = b.with_name_lookup(|builder, lookup| builder.call_method(accts[(a + 1) % accts.len()].addr, "try_deposit_or_abort", manifest_args!(lookup.bucket(&name), None::<ResourceOrNonFungible>)));
                desc.push(format!("transfer {} {}->{}", amt, a, (a + 1) % accts.len()));
            }
        }
    }
    if worktop_nonempty || rng.chance(1, 2) {
        let a = rng.usize_below(accts.len());
        if !rng.chance(1, 8) {
            b = b.try_deposit_entire_worktop_or_abort(accts[a].addr, None);
            desc.push(format!("final deposit_all to {}", a));
        } else {
            desc.push("dangling worktop".into());
        }
    }
    (b.build(), desc)
}

fn rewards_vault(sim: &Sim) -> NodeId {
    let s: FieldSubstate<ConsensusManagerValidatorRewardsFieldPayload> = sim
        .substate_db()
        .get_substate(CONSENSUS_MANAGER, MAIN_BASE_PARTITION, ConsensusManagerField::ValidatorRewards)
        .unwrap();
    s.into_payload().into_unique_version().rewards_vault.0 .0
}

/// Classifies a failed commit. Returns the list of violations.
fn classify(report: &mut Report, c: &CommitResult, rewards: &NodeId) -> Vec<String> {
    let mut bad = Vec::new();
    let paying: Vec<NodeId> = c.fee_source.paying_vaults.keys().cloned().collect();
    let royalty: Vec<NodeId> = c.fee_destination.to_royalty_recipients.keys().map(|r| r.vault_id()).collect();
    for (node, nu) in &c.state_updates.by_node {
        let NodeStateUpdates::Delta { by_partition } = nu;
        for (pnum, pu) in by_partition {
            let keys: Vec<SubstateKey> = match pu {
                PartitionStateUpdates::Delta { by_substate } => by_substate.keys().cloned().collect(),
                PartitionStateUpdates::Batch(BatchPartitionStateUpdate::Reset { new_substate_values }) => new_substate_values.keys().cloned().collect(),
            };
            let is_reset = matches!(pu, PartitionStateUpdates::Batch(_));
            if node == TRANSACTION_TRACKER.as_node_id() {
                report.count_n("upd_transaction_tracker", keys.len().max(1) as u64);
                continue;
            }
            if is_reset {
                bad.push(format!("partition reset on {:?}/{}", node, pnum.0));
                continue;
            }
            for k in keys {
                let is_balance = *pnum == MAIN_BASE_PARTITION && k == SubstateKey::Field(FungibleVaultField::Balance as u8);
                if is_balance && paying.contains(node) {
                    report.count("upd_fee_vault_balance");
                } else if is_balance && node == rewards {
                    report.count("upd_validator_rewards_vault_balance");
                } else if is_balance && royalty.contains(node) {
                    report.count("upd_royalty_vault_balance");
                } else if node == CONSENSUS_MANAGER.as_node_id()
                    && *pnum == MAIN_BASE_PARTITION
                    && k == SubstateKey::Field(ConsensusManagerField::ValidatorRewards as u8)
                {
                    report.count("upd_consensus_manager_validator_rewards");
                } else {
                    bad.push(format!("substate {:?}/{}/{:?} changed by a failed transaction", node, pnum.0, k));
                }
            }
        }
    }
    let s = &c.state_update_summary;
    if !(s.new_packages.is_empty() && s.new_components.is_empty() && s.new_resources.is_empty() && s.new_vaults.is_empty()) {
        bad.push("failed transaction created entities".to_string());
    }
    for (ty, _) in &c.application_events {
        let name = ty.1.as_str();
        let emitter_node = match &ty.0 {
            Emitter::Method(n, _) => Some(*n),
            Emitter::Function(_) => None,
        };
        let ok = match name {
            "LockFeeEvent" | "PayFeeEvent" => emitter_node.map(|n| paying.contains(&n)).unwrap_or(false) || name == "LockFeeEvent",
            "DepositEvent" => emitter_node.map(|n| n == *rewards || royalty.contains(&n)).unwrap_or(false),
            "BurnFungibleResourceEvent" => emitter_node == Some(XRD.into_node_id()),
            _ => false,
        };
        if ok {
            report.count(&format!("event_{}", name));
        } else {
            bad.push(format!("event {} from {:?} emitted by a failed transaction", name, ty.0));
        }
    }
    bad
}

fn main() {
    let args = Args::parse();
    let mut report = Report::new(
        "C02",
        args.seed,
        "engine level: generated manifests (fee lock early/late/missing/contingent/too small; withdraw, deposit, transfer, create resource, \
         new account, failing assertion) executed with a costing error injected after k kernel callbacks, k swept over the execution; \
         non-trivial = a Commit(Failure) receipt whose state updates were classified; distinct by manifest text + k",
    );
    let mut sim: Sim = LedgerSimulatorBuilder::new().build();
    let mut accts = Vec::new();
    for _ in 0..3 {
        let (pk, _sk, addr) = sim.new_allocated_account();
        accts.push(Acct { pk, addr });
    }
    let rewards = rewards_vault(&sim);
    let proofs: Vec<NonFungibleGlobalId> = accts.iter().map(|a| NonFungibleGlobalId::from_public_key(&a.pk)).collect();
    let root = Rng::new(args.seed);
    let points = if args.tier == "thorough" { 40 } else { 12 };
    for i in 0..args.cases {
        let mut rng = root.fork(i as u64);
        let (manifest, desc) = gen_manifest(&mut rng, &accts);
        // injection points: dense at the start (before/around the fee lock), then spread out
        let mut ks: Vec<u64> = vec![0]; // 0 = no injection: the manifest's own outcome
        for j in 0..points {
            ks.push(if j % 4 == 0 { rng.range(1, 300) } else if j % 4 == 1 { rng.range(300, 3000) } else if j % 4 == 2 { rng.range(3000, 12000) } else { rng.range(12000, 40000) });
        }
        for k in ks {
            let before = sim.substate_db().clone();
            let m = manifest.clone();
            let p = proofs.clone();
            let receipt = {
                let sim_ref = &mut sim;
                catch(std::panic::AssertUnwindSafe(move || {
                    if k == 0 {
                        sim_ref.execute_manifest(m, p)
                    } else {
                        sim_ref.execute_manifest_with_injected_error(m, p, k)
                    }
                }))
            };
            let canon = format!("{:?}|{}", desc, k);
            let receipt = match receipt {
                Ok(r) => r,
                Err(msg) => {
                    report.case(&canon, false);
                    report.oracle_failure(i, "", &format!("engine panicked with injection at {}: {}", k, msg), json!({"manifest": desc, "k": k}));
                    sim = LedgerSimulatorBuilder::new().build();
                    break;
                }
            };
            match &receipt.result {
                TransactionResult::Commit(c) => match &c.outcome {
                    TransactionOutcome::Success(_) => {
                        report.case(&canon, false);
                        report.count(if k == 0 { "commit_success_uninjected" } else { "commit_success_injection_point_beyond_end" });
                    }
                    TransactionOutcome::Failure(_) => {
                        report.case(&canon, true);
                        report.count(if k == 0 { "commit_failure_own" } else { "commit_failure_injected" });
                        let bad = classify(&mut report, c, &rewards);
                        for b in bad {
                            report.oracle_failure(i, "", &b, json!({"manifest": desc, "k": k}));
                        }
                    }
                },
                TransactionResult::Reject(_) | TransactionResult::Abort(_) => {
                    report.case(&canon, false);
                    report.count(if matches!(receipt.result, TransactionResult::Reject(_)) { "rejected" } else { "aborted" });
                    if &before != sim.substate_db() {
                        report.oracle_failure(i, "", "rejected/aborted transaction changed the database", json!({"manifest": desc, "k": k}));
                    }
                }
            }
        }
        if i < 2 {
            report.sample(json!({"manifest": desc}));
        }
    }
    // ledger invariants after all the failed commits
    let chk = {
        let sim_ref = &sim;
        catch(std::panic::AssertUnwindSafe(move || sim_ref.check_database()))
    };
    match chk {
        Ok(()) => report.count("database_checkers_passed"),
        Err(msg) => report.oracle_failure(args.cases, "", &format!("database checker failed after the run: {}", msg), json!({})),
    }
    report.floor("commit_failure_injected", args.cases as u64);
    report.floor("rejected", (args.cases as u64) / 2);
    report.floor("upd_fee_vault_balance", args.cases as u64);
    report.floor("database_checkers_passed", 1);
    report.write(&args.out).unwrap();
}
