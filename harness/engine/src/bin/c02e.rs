//! C02 engine-level oracle (no Coq cases): generated manifests are executed on a LedgerSimulator with
//! a system (costing) error injected at a swept kernel-callback count, so that the failure lands at
//! many execution points; plus the manifests' own failures. Every substate in a failed commit's
//! `state_updates` and every event is classified against the allowed fee-only set; rejected/aborted
//! transactions must leave the database bit-identical; the database checkers run at the end.
use radix_common::prelude::*;
use radix_engine::blueprints::consensus_manager::*;
use radix_engine::blueprints::resource::{FungibleVaultBalanceFieldSubstate, FungibleVaultField};
use radix_engine::blueprints::transaction_tracker::{TransactionStatus, TransactionStatusV1};
use radix_engine::system::system_substates::{FieldSubstate, KeyValueEntrySubstate};
use radix_engine::transaction::*;
use radix_engine_interface::prelude::*;
use radix_substate_store_interface::interface::*;
use radix_transactions::prelude::*;
use scrypto_test::prelude::{LedgerSimulatorBuilder, NoExtension};
use serde_json::json;
use vh_common::*;

type Sim = scrypto_test::prelude::LedgerSimulator<NoExtension, radix_substate_store_impls::memory_db::InMemorySubstateDatabase>;

struct Acct {
    pk: Secp256k1PublicKey,
    addr: ComponentAddress,
}

fn gen_manifest(rng: &mut Rng, accts: &[Acct]) -> (TransactionManifestV1, Vec<String>) {
    let mut b = ManifestBuilder::new();
    let mut desc = Vec::new();
    let payer = rng.usize_below(accts.len());
    // fee lock: early, late, from faucet, contingent, or missing
    let lock_pos = match rng.below(10) {
        0 => usize::MAX, // never locks: rejected
        1 | 2 => 2,
        _ => 0,
    };
    let n_instr = rng.range(2, 9) as usize;
    let mut worktop_nonempty = false;
    for i in 0..n_instr {
        if i == lock_pos {
            match rng.below(6) {
                0 => {
                    b = b.lock_fee_from_faucet();
                    desc.push("lock_fee_from_faucet".into());
                }
                1 => {
                    b = b.lock_fee(accts[payer].addr, dec!(5000)).lock_contingent_fee(accts[(payer + 1) % accts.len()].addr, dec!(10));
                    desc.push("lock_fee+contingent".into());
                }
                2 => {
                    b = b.lock_fee(accts[payer].addr, dec!("0.5")); // too little: fails when the loan is due
                    desc.push("lock_fee_small".into());
                }
                _ => {
                    b = b.lock_fee(accts[payer].addr, dec!(5000));
                    desc.push("lock_fee".into());
                }
            }
        }
        let a = rng.usize_below(accts.len());
        match rng.below(9) {
            0 | 1 => {
                let amt = Decimal::from(rng.range(1, 50));
                b = b.withdraw_from_account(accts[a].addr, XRD, amt);
                worktop_nonempty = true;
                desc.push(format!("withdraw {} from {}", amt, a));
            }
            2 => {
                b = b.get_free_xrd_from_faucet();
                worktop_nonempty = true;
                desc.push("free_xrd".into());
            }
            3 => {
                b = b.try_deposit_entire_worktop_or_abort(accts[a].addr, None);
                worktop_nonempty = false;
                desc.push(format!("deposit_all to {}", a));
            }
            4 => {
                b = b.create_fungible_resource(
                    OwnerRole::None,
                    true,
                    18,
                    FungibleResourceRoles::default(),
                    metadata!(),
                    Some(Decimal::from(rng.range(1, 1000))),
                );
                worktop_nonempty = true;
                desc.push("create_fungible".into());
            }
            5 => {
                b = b.new_account();
                desc.push("new_account".into());
            }
            6 => {
                // a failing assertion: the transaction fails here by itself
                if rng.chance(1, 3) {
                    b = b.assert_worktop_contains(XRD, dec!(100000000));
                    desc.push("assert_fail".into());
                } else {
                    b = b.assert_worktop_contains(XRD, dec!(0));
                    desc.push("assert_ok".into());
                }
            }
            7 => {
                b = b.call_method(accts[a].addr, "balance", manifest_args!(XRD));
                desc.push("balance".into());
            }
            _ => {
                let amt = Decimal::from(rng.range(1, 20));
                b = b.withdraw_from_account(accts[a].addr, XRD, amt).take_all_from_worktop(XRD, "bkt".to_string() + &i.to_string());
                let name = "bkt".to_string() + &i.to_string();
                b = b.with_name_lookup(|builder, lookup| builder.call_method(accts[(a + 1) % accts.len()].addr, "try_deposit_or_abort", manifest_args!(lookup.bucket(&name), None::<ResourceOrNonFungible>)));
                desc.push(format!("transfer {} {}->{}", amt, a, (a + 1) % accts.len()));
            }
        }
    }
    if worktop_nonempty || rng.chance(1, 2) {
        let a = rng.usize_below(accts.len());
        if !rng.chance(1, 8) {
            b = b.try_deposit_entire_worktop_or_abort(accts[a].addr, None);
            desc.push(format!("final deposit_all to {}", a));
        } else {
            desc.push("dangling worktop".into());
        }
    }
    (b.build(), desc)
}

fn rewards_vault(sim: &Sim) -> NodeId {
    let s: FieldSubstate<ConsensusManagerValidatorRewardsFieldPayload> = sim
        .substate_db()
        .get_substate(CONSENSUS_MANAGER, MAIN_BASE_PARTITION, ConsensusManagerField::ValidatorRewards)
        .unwrap();
    s.into_payload().into_unique_version().rewards_vault.0 .0
}

#[derive(ScryptoSbor)]
struct AmountEvent {
    amount: Decimal,
}

type Db = radix_substate_store_impls::memory_db::InMemorySubstateDatabase;

fn vault_amount(db: &Db, node: &NodeId) -> Option<Decimal> {
    let s: Option<FungibleVaultBalanceFieldSubstate> = db.get_substate(node, MAIN_BASE_PARTITION, FungibleVaultField::Balance);
    s.map(|x| x.into_payload().into_unique_version().amount())
}
fn proposer_rewards_sum(db: &Db) -> (Decimal, NodeId) {
    let s: FieldSubstate<ConsensusManagerValidatorRewardsFieldPayload> =
        db.get_substate(CONSENSUS_MANAGER, MAIN_BASE_PARTITION, ConsensusManagerField::ValidatorRewards).unwrap();
    let r = s.into_payload().into_unique_version();
    let mut sum = Decimal::ZERO;
    for (_, v) in r.proposer_rewards.iter() {
        sum = sum.checked_add(*v).unwrap();
    }
    (sum, r.rewards_vault.0 .0)
}

/// Classifies a failed commit against the fee-only set, amounts included. Returns the violations.
fn classify(report: &mut Report, c: &CommitResult, rewards: &NodeId, before: &Db, after: &Db) -> Vec<String> {
    let mut bad = Vec::new();
    let paying: Vec<NodeId> = c.fee_source.paying_vaults.keys().cloned().collect();
    let royalty: Vec<NodeId> = c.fee_destination.to_royalty_recipients.keys().map(|r| r.vault_id()).collect();
    let fd = &c.fee_destination;
    let to_rewards = fd.to_proposer.checked_add(fd.to_validator_set).unwrap();
    let mut royalty_total = Decimal::ZERO;
    for (_, v) in fd.to_royalty_recipients.iter() {
        royalty_total = royalty_total.checked_add(*v).unwrap();
    }
    let mut paid_total = Decimal::ZERO;
    for (_, v) in c.fee_source.paying_vaults.iter() {
        paid_total = paid_total.checked_add(*v).unwrap();
    }
    if paid_total != to_rewards.checked_add(fd.to_burn).unwrap().checked_add(royalty_total).unwrap() {
        bad.push(format!("fees paid {} != distributed {} + {} + {}", paid_total, to_rewards, fd.to_burn, royalty_total));
    }
    if !royalty_total.is_zero() {
        bad.push(format!("failed transaction paid royalties {}", royalty_total));
    }
    let mut tracker_entries = 0usize;
    for (node, nu) in &c.state_updates.by_node {
        let NodeStateUpdates::Delta { by_partition } = nu;
        for (pnum, pu) in by_partition {
            if node == TRANSACTION_TRACKER.as_node_id() {
                match pu {
                    PartitionStateUpdates::Batch(_) => report.count("upd_tracker_partition_reset"),
                    PartitionStateUpdates::Delta { by_substate } => {
                        for (k, u) in by_substate {
                            if *pnum == MAIN_BASE_PARTITION && *k == SubstateKey::Field(0u8) {
                                report.count("upd_tracker_state_field");
                                continue;
                            }
                            match (k, u) {
                                (SubstateKey::Map(_), DatabaseUpdate::Set(raw)) if *pnum != MAIN_BASE_PARTITION => {
                                    let e: Result<KeyValueEntrySubstate<TransactionStatus>, _> = scrypto_decode(raw);
                                    match e.map(|e| e.into_value()) {
                                        Ok(Some(TransactionStatus::V1(TransactionStatusV1::CommittedFailure))) => {
                                            tracker_entries += 1;
                                            report.count("upd_tracker_intent_committed_failure");
                                        }
                                        other => bad.push(format!("tracker entry of a failed transaction is {:?}", other.map(|x| x.map(|_| "other status")))),
                                    }
                                }
                                _ => bad.push(format!("unexpected transaction tracker update {}/{:?}", pnum.0, k)),
                            }
                        }
                    }
                }
                continue;
            }
            let keys: Vec<SubstateKey> = match pu {
                PartitionStateUpdates::Delta { by_substate } => {
                    for (k, u) in by_substate {
                        if matches!(u, DatabaseUpdate::Delete) {
                            bad.push(format!("substate {:?}/{}/{:?} deleted by a failed transaction", node, pnum.0, k));
                        }
                    }
                    by_substate.keys().cloned().collect()
                }
                PartitionStateUpdates::Batch(_) => {
                    bad.push(format!("partition reset on {:?}/{}", node, pnum.0));
                    continue;
                }
            };
            for k in keys {
                let is_balance = *pnum == MAIN_BASE_PARTITION && k == SubstateKey::Field(FungibleVaultField::Balance as u8);
                if is_balance && (paying.contains(node) || node == rewards || royalty.contains(node)) {
                    let (b, a) = (vault_amount(before, node), vault_amount(after, node));
                    let (Some(b), Some(a)) = (b, a) else {
                        bad.push(format!("fee-related vault {:?} missing before or after", node));
                        continue;
                    };
                    let mut expected = b;
                    if let Some(p) = c.fee_source.paying_vaults.get(node) {
                        expected = expected.checked_sub(*p).unwrap();
                        report.count(if p.is_zero() { "upd_fee_vault_balance_paid_zero" } else { "upd_fee_vault_balance" });
                    }
                    if node == rewards {
                        expected = expected.checked_add(to_rewards).unwrap();
                        report.count("upd_validator_rewards_vault_balance");
                    }
                    if a != expected {
                        bad.push(format!("vault {:?}: balance {} -> {}, the receipt accounts for {}", node, b, a, expected));
                    }
                } else if node == CONSENSUS_MANAGER.as_node_id()
                    && *pnum == MAIN_BASE_PARTITION
                    && k == SubstateKey::Field(ConsensusManagerField::ValidatorRewards as u8)
                {
                    report.count("upd_consensus_manager_validator_rewards");
                    let (sb, vb) = proposer_rewards_sum(before);
                    let (sa, va) = proposer_rewards_sum(after);
                    let d = sa.checked_sub(sb).unwrap();
                    if vb != va || !(d == fd.to_proposer || d.is_zero()) {
                        bad.push(format!("validator rewards bookkeeping changed by {} (to_proposer {}), vault {:?}->{:?}", d, fd.to_proposer, vb, va));
                    }
                } else {
                    bad.push(format!("substate {:?}/{}/{:?} changed by a failed transaction", node, pnum.0, k));
                }
            }
        }
    }
    if tracker_entries > c.performed_nullifications.len() {
        bad.push(format!("{} tracker entries for {} nullifications", tracker_entries, c.performed_nullifications.len()));
    }
    for (v, (_res, _change)) in c.state_update_summary.vault_balance_changes.iter() {
        if !(paying.contains(v) || v == rewards || royalty.contains(v)) {
            bad.push(format!("balance of vault {:?} changed by a failed transaction", v));
        }
    }
    let s = &c.state_update_summary;
    if !(s.new_packages.is_empty() && s.new_components.is_empty() && s.new_resources.is_empty() && s.new_vaults.is_empty()) {
        bad.push("failed transaction created entities".to_string());
    }
    let mut pay_events = Decimal::ZERO;
    for (ty, data) in &c.application_events {
        let name = ty.1.as_str();
        let emitter_node = match &ty.0 {
            Emitter::Method(n, _) => Some(*n),
            Emitter::Function(_) => None,
        };
        let amount = scrypto_decode::<AmountEvent>(data).ok().map(|e| e.amount);
        let ok = match name {
            "LockFeeEvent" => emitter_node.map(|n| paying.contains(&n)).unwrap_or(false),
            "PayFeeEvent" => {
                let ok = emitter_node.map(|n| c.fee_source.paying_vaults.get(&n) == amount.as_ref()).unwrap_or(false);
                if let Some(a) = amount {
                    pay_events = pay_events.checked_add(a).unwrap();
                }
                ok
            }
            "DepositEvent" => emitter_node.map(|n| n == *rewards).unwrap_or(false) && amount == Some(to_rewards),
            "BurnFungibleResourceEvent" => emitter_node == Some(XRD.into_node_id()) && amount == Some(fd.to_burn),
            _ => false,
        };
        if ok {
            report.count(&format!("event_{}", name));
        } else {
            bad.push(format!("event {} ({:?}) from {:?} emitted by a failed transaction is not a fee event of this receipt", name, amount, ty.0));
        }
    }
    if pay_events != paid_total {
        bad.push(format!("PayFeeEvents total {} but paying vaults total {}", pay_events, paid_total));
    }
    bad
}

/// Deterministic manifests (identical for every seed) that put the failure next to every fee mechanism.
fn boundary_manifests(accts: &[Acct]) -> Vec<(&'static str, TransactionManifestV1)> {
    let a = accts[0].addr;
    let b = accts[1].addr;
    let fail = |m: ManifestBuilder| m.assert_worktop_contains(XRD, dec!(100000000)).build();
    vec![
        ("no_fee_lock", ManifestBuilder::new().withdraw_from_account(a, XRD, dec!(1)).try_deposit_entire_worktop_or_abort(b, None).build()),
        ("lock_then_fail", fail(ManifestBuilder::new().lock_fee(a, dec!(5000)))),
        ("writes_before_lock_then_fail", fail(ManifestBuilder::new().withdraw_from_account(b, XRD, dec!(3)).lock_fee(a, dec!(5000)).try_deposit_entire_worktop_or_abort(b, None))),
        // FORCE_WRITE admission (UNMODIFIED_BASE): locking a fee on a vault already modified in this transaction is refused
        ("lock_fee_on_modified_vault_refused", fail(ManifestBuilder::new().withdraw_from_account(a, XRD, dec!(3)).lock_fee(a, dec!(5000)).try_deposit_entire_worktop_or_abort(b, None))),
        ("payer_gets_new_vault_then_fail", fail(ManifestBuilder::new().lock_fee(a, dec!(5000))
            .create_fungible_resource(OwnerRole::None, true, 18, FungibleResourceRoles::default(), metadata!(), Some(dec!(77)))
            .try_deposit_entire_worktop_or_abort(a, None))),
        ("payer_xrd_vault_also_withdrawn_then_fail", fail(ManifestBuilder::new().lock_fee(a, dec!(5000)).withdraw_from_account(a, XRD, dec!(9)).try_deposit_entire_worktop_or_abort(b, None))),
        ("two_payers_then_fail", fail(ManifestBuilder::new().lock_fee(a, dec!(1)).lock_fee(b, dec!(5000)).withdraw_from_account(b, XRD, dec!(2)).try_deposit_entire_worktop_or_abort(a, None))),
        ("same_payer_twice_then_fail", fail(ManifestBuilder::new().lock_fee(a, dec!(2)).lock_fee(a, dec!(5000)))),
        ("contingent_then_fail", fail(ManifestBuilder::new().lock_fee(a, dec!(5000)).lock_contingent_fee(b, dec!(10)))),
        ("faucet_pays_then_fail", fail(ManifestBuilder::new().lock_fee_from_faucet().get_free_xrd_from_faucet().try_deposit_entire_worktop_or_abort(a, None))),
        ("lock_too_small", ManifestBuilder::new().lock_fee(a, dec!("0.01")).withdraw_from_account(a, XRD, dec!(1)).try_deposit_entire_worktop_or_abort(b, None).build()),
        ("new_account_and_transfer_success_shape", ManifestBuilder::new().lock_fee(a, dec!(5000)).new_account().withdraw_from_account(a, XRD, dec!(4)).try_deposit_entire_worktop_or_abort(b, None).build()),
        ("dangling_bucket", ManifestBuilder::new().lock_fee(a, dec!(5000)).withdraw_from_account(a, XRD, dec!(4)).build()),
    ]
}

fn main() {
    let args = Args::parse();
    let mut report = Report::new(
        "C02",
        args.seed,
        "engine level: generated manifests (fee lock early/late/missing/contingent/too small; withdraw, deposit, transfer, create resource, \
         new account, failing assertion) executed with a costing error injected after k kernel callbacks, k swept over the execution; \
         non-trivial = a Commit(Failure) receipt whose state updates were classified; distinct by manifest text + k",
    );
    let mut sim: Sim = LedgerSimulatorBuilder::new().build();
    let mut accts = Vec::new();
    for _ in 0..3 {
        let (pk, _sk, addr) = sim.new_allocated_account();
        accts.push(Acct { pk, addr });
    }
    let rewards = rewards_vault(&sim);
    let proofs: Vec<NonFungibleGlobalId> = accts.iter().map(|a| NonFungibleGlobalId::from_public_key(&a.pk)).collect();
    let root = Rng::new(args.seed);
    let points = if args.tier == "thorough" { 40 } else { 12 };
    let mut work: Vec<(Vec<String>, TransactionManifestV1, Vec<u64>, bool)> = Vec::new();
    // deterministic family first: every manifest at its own outcome and at fixed injection points
    for (name, m) in boundary_manifests(&accts) {
        work.push((vec![format!("boundary:{}", name)], m, vec![0, 1, 2, 3, 10, 100, 400, 1000, 1500, 2000, 3000, 5000, 8000, 12000, 20000, 0], true));
    }
    for i in 0..args.cases {
        let mut rng = root.fork(i as u64);
        let (manifest, desc) = gen_manifest(&mut rng, &accts);
        // injection points: dense at the start (before/around the fee lock), then spread out
        let mut ks: Vec<u64> = vec![0]; // 0 = no injection: the manifest's own outcome
        for j in 0..points {
            ks.push(if j % 4 == 0 { rng.range(1, 300) } else if j % 4 == 1 { rng.range(300, 3000) } else if j % 4 == 2 { rng.range(3000, 12000) } else { rng.range(12000, 40000) });
        }
        work.push((desc, manifest, ks, false));
    }
    for (i, (desc, manifest, ks, is_boundary)) in work.into_iter().enumerate() {
        for k in ks {
            let before = sim.substate_db().clone();
            let m = manifest.clone();
            let p = proofs.clone();
            let receipt = {
                let sim_ref = &mut sim;
                catch(std::panic::AssertUnwindSafe(move || {
                    if k == 0 {
                        sim_ref.execute_manifest(m, p)
                    } else {
                        sim_ref.execute_manifest_with_injected_error(m, p, k)
                    }
                }))
            };
            let canon = format!("{:?}|{}", desc, k);
            let receipt = match receipt {
                Ok(r) => r,
                Err(msg) => {
                    report.case(&canon, false);
                    report.oracle_failure(i, "", &format!("engine panicked with injection at {}: {}", k, msg), json!({"manifest": desc, "k": k}));
                    // fresh ledger; account allocation is deterministic, so the manifests' addresses stay valid
                    sim = LedgerSimulatorBuilder::new().build();
                    for a in accts.iter() {
                        let (pk, _sk, addr) = sim.new_allocated_account();
                        assert!(pk == a.pk && addr == a.addr, "account allocation is not deterministic");
                    }
                    break;
                }
            };
            let pre = if is_boundary { "bf_" } else { "" };
            if is_boundary && k == 0 {
                let o = match &receipt.result {
                    TransactionResult::Commit(c) => if c.outcome.is_success() { "success" } else { "failure" },
                    TransactionResult::Reject(_) => "reject",
                    TransactionResult::Abort(_) => "abort",
                };
                report.count(&format!("bf_own_outcome_{}_{}", desc[0], o));
                if let TransactionResult::Reject(r) = &receipt.result {
                    let txt = format!("{:?}", r.reason);
                    report.notes.push(format!("{} rejected: {}", desc[0], &txt[..txt.len().min(160)]));
                }
            }
            match &receipt.result {
                TransactionResult::Commit(c) => match &c.outcome {
                    TransactionOutcome::Success(_) => {
                        report.case(&canon, false);
                        report.count(&format!("{}{}", pre, if k == 0 { "commit_success_uninjected" } else { "commit_success_injection_point_beyond_end" }));
                    }
                    TransactionOutcome::Failure(_) => {
                        report.case(&canon, true);
                        report.count(&format!("{}{}", pre, if k == 0 { "commit_failure_own" } else { "commit_failure_injected" }));
                        if is_boundary {
                            report.count(&format!("bf_failure_{}", desc[0]));
                        }
                        let bad = classify(&mut report, c, &rewards, &before, sim.substate_db());
                        for b in bad {
                            report.oracle_failure(i, "", &b, json!({"manifest": desc, "k": k}));
                        }
                    }
                },
                TransactionResult::Reject(_) | TransactionResult::Abort(_) => {
                    report.case(&canon, false);
                    report.count(&format!("{}{}", pre, if matches!(receipt.result, TransactionResult::Reject(_)) { "rejected" } else { "aborted" }));
                    if &before != sim.substate_db() {
                        report.oracle_failure(i, "", "rejected/aborted transaction changed the database", json!({"manifest": desc, "k": k}));
                    }
                }
            }
        }
        if i < 2 {
            report.sample(json!({"manifest": desc}));
        }
    }
    // ledger invariants after all the failed commits
    let chk = {
        let sim_ref = &sim;
        catch(std::panic::AssertUnwindSafe(move || sim_ref.check_database()))
    };
    match chk {
        Ok(()) => report.count("database_checkers_passed"),
        Err(msg) => report.oracle_failure(args.cases, "", &format!("database checker failed after the run: {}", msg), json!({})),
    }
    for name in ["lock_then_fail", "writes_before_lock_then_fail", "payer_gets_new_vault_then_fail", "payer_xrd_vault_also_withdrawn_then_fail",
                 "two_payers_then_fail", "same_payer_twice_then_fail", "contingent_then_fail", "faucet_pays_then_fail", "dangling_bucket"] {
        report.floor(&format!("bf_failure_boundary:{}", name), 3);
    }
    report.floor("bf_rejected", 20);
    report.floor("bf_own_outcome_boundary:lock_fee_on_modified_vault_refused_reject", 2);
    report.floor("bf_own_outcome_boundary:no_fee_lock_reject", 2);
    report.floor("bf_own_outcome_boundary:lock_too_small_reject", 2);
    report.floor("bf_commit_failure_own", 9);
    report.floor("bf_commit_failure_injected", 30);
    report.floor("upd_fee_vault_balance_paid_zero", 3);
    report.floor("upd_tracker_state_field", 30);
    report.floor("commit_failure_injected", args.cases as u64);
    report.floor("rejected", (args.cases as u64) / 2);
    report.floor("upd_fee_vault_balance", args.cases as u64);
    report.floor("database_checkers_passed", 1);
    report.write(&args.out).unwrap();
}
