//! C43 correspondence harness: random mint / burn / re-mint / data-update sequences on real
//! non-fungible resources (id types Integer, String, Bytes, RUID; data tuple with two mutable and two
//! immutable fields) executed as transactions on LedgerSimulator. After every transaction the
//! key-value entry substate (value + lock status) of every id of the universe is read back.
//! The Coq model (coq/Model/C43_NfData.v) is evaluated on the same sequences.
//! Direct oracle: ghost set of ever-minted ids; a successful mint of an id in the set, a minted id
//! of the wrong type, or a changed immutable field / untouched-id change is a failure.
use radix_engine::blueprints::resource::*;
use radix_engine::system::system_db_reader::*;
use radix_engine::system::system_substates::*;
use scrypto_test::prelude::*;
use serde_json::json;
use std::collections::{BTreeMap, BTreeSet};
use vh_common::*;

#[derive(ManifestSbor, ScryptoSbor, Clone, Debug, PartialEq, Eq)]
pub struct Data {
    pub a: u64,
    pub b: u64, // mutable
    pub c: u64,
    pub d: u64, // mutable
}
impl NonFungibleData for Data {
    const MUTABLE_FIELDS: &'static [&'static str] = &["b", "d"];
}
const FIELD_NAMES: [&str; 5] = ["a", "b", "c", "d", "zz"];

#[derive(Clone, Copy, PartialEq, Eq, Debug, PartialOrd, Ord)]
enum Ty {
    Str,
    Int,
    Bytes,
    Ruid,
}
type Id = (Ty, u64);

#[derive(Clone, Debug, PartialEq, Eq)]
enum Op {
    Mint(Vec<(Id, [u64; 4])>),
    MintRuid(Vec<(Id, [u64; 4])>), // ids filled in after execution (generated)
    Burn(Vec<Id>),
    Update(Id, usize, u64),
    Seq(Vec<Op>), // several operations in ONE transaction (all or nothing)
}
#[derive(Clone, Debug, PartialEq, Eq)]
enum Entry {
    Absent,
    Live([u64; 4]),
    Tomb,
}

struct World {
    ledger: DefaultLedgerSimulator,
    account: ComponentAddress,
    pk: Secp256k1PublicKey,
    ruids: Vec<NonFungibleLocalId>, // index -> generated id (per world, global numbering)
    tx_counter: u64,
    generator_mismatch: Vec<String>,
    badge: ResourceAddress, // the minter / burner / data-updater badge of role-protected resources
}

fn ty_coq(t: Ty) -> &'static str {
    match t {
        Ty::Str => "TString",
        Ty::Int => "TInteger",
        Ty::Bytes => "TBytes",
        Ty::Ruid => "TRUID",
    }
}
fn id_coq(i: &Id) -> String {
    format!("({}, {})", ty_coq(i.0), i.1)
}
fn data_coq(d: &[u64; 4]) -> String {
    coq_list(d.iter().map(|x| x.to_string()))
}
fn entries_coq(e: &[(Id, [u64; 4])]) -> String {
    coq_list(e.iter().map(|(i, d)| format!("({}, {})", id_coq(i), data_coq(d))))
}
fn op_coq(o: &Op) -> String {
    match o {
        Op::Mint(e) => format!("(OMint {})", entries_coq(e)),
        Op::MintRuid(e) => format!("(OMintRuid {})", entries_coq(e)),
        Op::Burn(ids) => format!("(OBurn {})", coq_list(ids.iter().map(id_coq))),
        Op::Update(id, f, v) => format!("(OUpdate {} {} {})", id_coq(id), f, v),
        Op::Seq(ops) => ops.iter().map(op_coq).collect::<Vec<_>>().join("; "),
    }
}
/// the auth decision for one operation: the caller satisfies the role of the operation's method
fn auth_of(o: &Op, modes: &[u8; 3], with_badge: bool) -> bool {
    let m = match o {
        Op::Mint(_) | Op::MintRuid(_) => modes[0],
        Op::Burn(_) => modes[1],
        Op::Update(..) => modes[2],
        Op::Seq(_) => unreachable!(),
    };
    match m {
        0 => true,
        1 => with_badge,
        _ => false,
    }
}
/// the transaction as a Coq list of (auth, operation)
fn tx_coq(o: &Op, modes: &[u8; 3], with_badge: bool) -> String {
    let one = |x: &Op| format!("({}, {})", coq_bool(auth_of(x, modes, with_badge)), op_coq(x));
    match o {
        Op::Seq(ops) => format!("[{}]", ops.iter().map(one).collect::<Vec<_>>().join("; ")),
        x => format!("[{}]", one(x)),
    }
}
fn entry_coq(e: &Entry) -> String {
    match e {
        Entry::Absent => "None".into(),
        Entry::Live(d) => format!("(Some (Live {}))", data_coq(d)),
        Entry::Tomb => "(Some Tomb)".into(),
    }
}

impl World {
    fn new() -> World {
        let mut ledger = LedgerSimulatorBuilder::new().build();
        let (pk, _, account) = ledger.new_account(false);
        let badge = ledger.create_fungible_resource(dec!(100), 0, account);
        World { ledger, account, pk, ruids: Vec::new(), tx_counter: 0, generator_mismatch: Vec::new(), badge }
    }
    fn local_id(&self, id: &Id) -> NonFungibleLocalId {
        match id.0 {
            Ty::Int => NonFungibleLocalId::integer(id.1),
            Ty::Str => NonFungibleLocalId::string(format!("s{}", id.1)).unwrap(),
            Ty::Bytes => NonFungibleLocalId::bytes(vec![id.1 as u8, 7]).unwrap(),
            Ty::Ruid => self.ruids[id.1 as usize].clone(),
        }
    }
    fn ruid_index(&mut self, l: &NonFungibleLocalId) -> u64 {
        if let Some(p) = self.ruids.iter().position(|x| x == l) {
            p as u64
        } else {
            self.ruids.push(l.clone());
            (self.ruids.len() - 1) as u64
        }
    }
    /// modes: 0 = allow_all, 1 = require(badge), 2 = no such roles (feature off; update: deny_all)
    fn create(&mut self, ty: Ty, initial: &[(Id, [u64; 4])], modes: [u8; 3]) -> Result<ResourceAddress, String> {
        let rule_of = |m: u8, badge: ResourceAddress| if m == 0 { rule!(allow_all) } else { rule!(require(badge)) };
        let id_type = match ty {
            Ty::Int => NonFungibleIdType::Integer,
            Ty::Str => NonFungibleIdType::String,
            Ty::Bytes => NonFungibleIdType::Bytes,
            Ty::Ruid => NonFungibleIdType::RUID,
        };
        let roles = NonFungibleResourceRoles {
            mint_roles: if modes[0] == 2 { None } else { mint_roles! { minter => rule_of(modes[0], self.badge); minter_updater => rule!(deny_all); } },
            burn_roles: if modes[1] == 2 { None } else { burn_roles! { burner => rule_of(modes[1], self.badge); burner_updater => rule!(deny_all); } },
            non_fungible_data_update_roles: if modes[2] == 2 {
                None
            } else {
                non_fungible_data_update_roles! {
                    non_fungible_data_updater => rule_of(modes[2], self.badge); non_fungible_data_updater_updater => rule!(deny_all);
                }
            },
            ..Default::default()
        };
        let init: Option<Vec<(NonFungibleLocalId, Data)>> = if initial.is_empty() {
            None
        } else {
            Some(initial.iter().map(|(i, d)| (self.local_id(i), Data { a: d[0], b: d[1], c: d[2], d: d[3] })).collect())
        };
        let manifest = ManifestBuilder::new()
            .lock_fee_from_faucet()
            .create_non_fungible_resource(OwnerRole::None, id_type, true, roles, metadata!(), init)
            .try_deposit_entire_worktop_or_abort(self.account, None)
            .build();
        let receipt = self.ledger.execute_manifest(manifest, vec![]);
        match &receipt.result {
            TransactionResult::Commit(c) => match &c.outcome {
                TransactionOutcome::Success(_) => Ok(c.new_resource_addresses()[0]),
                TransactionOutcome::Failure(e) => Err(classify(e).to_string()),
            },
            other => panic!("not committed: {:?}", other),
        }
    }
    fn read(&self, res: ResourceAddress, id: &Id) -> Entry {
        let reader = SystemDatabaseReader::new(self.ledger.substate_db());
        let part = reader
            .get_partition_of_collection(res.as_node_id(), ModuleId::Main, NonFungibleResourceManagerCollection::DataKeyValue.collection_index())
            .unwrap();
        let key = SubstateKey::Map(scrypto_encode(&self.local_id(id)).unwrap());
        let sub: Option<KeyValueEntrySubstate<Data>> = self.ledger.substate_db().get_substate(res.as_node_id(), part, key);
        match sub {
            None => Entry::Absent,
            Some(s) => {
                let locked = s.is_locked();
                match (s.into_value(), locked) {
                    (Some(d), false) => Entry::Live([d.a, d.b, d.c, d.d]),
                    (None, true) => Entry::Tomb,
                    (None, false) => Entry::Absent,
                    (Some(_), true) => panic!("live locked non-fungible entry"),
                }
            }
        }
    }
    fn add_op(&self, b: ManifestBuilder, res: ResourceAddress, op: &Op) -> ManifestBuilder {
        match op {
            Op::Mint(entries) => b
                .mint_non_fungible(res, entries.iter().map(|(i, d)| (self.local_id(i), Data { a: d[0], b: d[1], c: d[2], d: d[3] })).collect::<Vec<_>>())
                .try_deposit_entire_worktop_or_abort(self.account, None),
            Op::MintRuid(entries) => b
                .mint_ruid_non_fungible(res, entries.iter().map(|(_, d)| Data { a: d[0], b: d[1], c: d[2], d: d[3] }).collect::<Vec<_>>())
                .try_deposit_entire_worktop_or_abort(self.account, None),
            Op::Burn(ids) => b.burn_non_fungibles_in_account(self.account, res, ids.iter().map(|i| self.local_id(i)).collect::<Vec<_>>()),
            Op::Update(id, f, v) => b.update_non_fungible_data(res, self.local_id(id), FIELD_NAMES[*f], *v),
            Op::Seq(ops) => ops.iter().fold(b, |b, o| self.add_op(b, res, o)),
        }
    }
    /// Executes the op; for MintRuid fills in the generated ids. Returns the Coq outcome term.
    fn exec(&mut self, res: ResourceAddress, op: &mut Op, with_badge: bool) -> String {
        let mut b = ManifestBuilder::new().lock_fee_from_faucet();
        if with_badge {
            b = b.create_proof_from_account_of_amount(self.account, self.badge, dec!(1));
        }
        let b = self.add_op(b, res, op);
        // RUID mints run in a transaction whose hash the harness chooses, so that the generator
        // (hash(transaction hash ++ counter), counter from 0) can be recomputed
        self.tx_counter += 1;
        let tx_hash = hash(format!("vh c43 transaction {}", self.tx_counter));
        let receipt = if matches!(op, Op::MintRuid(_)) {
            let tx = TestTransaction::new_v1(b.build(), tx_hash, btreeset![NonFungibleGlobalId::from_public_key(self.pk)]);
            self.ledger.execute_test_transaction(tx)
        } else {
            self.ledger.execute_manifest(b.build(), [NonFungibleGlobalId::from_public_key(self.pk)])
        };
        match &receipt.result {
            TransactionResult::Commit(c) => match &c.outcome {
                TransactionOutcome::Success(_) => {
                    if let Op::MintRuid(entries) = op {
                        let evs: Vec<MintNonFungibleResourceEvent> = self.ledger.extract_events_of_type(c);
                        let ids: Vec<NonFungibleLocalId> = evs.into_iter().flat_map(|e| e.ids.into_iter()).collect();
                        if ids.len() != entries.len() {
                            self.generator_mismatch.push(format!("RUID mint of {} entries produced {} distinct ids (transaction {})", entries.len(), ids.len(), self.tx_counter));
                            entries.truncate(ids.len());
                        }
                        for (k, l) in ids.iter().enumerate() {
                            let mut buf = tx_hash.0.to_vec();
                            buf.extend_from_slice(&(k as u32).to_le_bytes());
                            if *l != NonFungibleLocalId::ruid(hash(buf).0) {
                                self.generator_mismatch.push(format!("ruid {} of transaction {} is not hash(tx_hash ++ {}u32)", l, self.tx_counter, k));
                            }
                        }
                        for (k, l) in ids.iter().enumerate() {
                            entries[k].0 = (Ty::Ruid, self.ruid_index(l));
                        }
                    }
                    "(ROk tt)".into()
                }
                TransactionOutcome::Failure(e) => format!("(RErr {})", classify(e)),
            },
            other => panic!("not committed: {:?}", other),
        }
    }
}

fn classify(e: &RuntimeError) -> &'static str {
    match e {
        RuntimeError::ApplicationError(ApplicationError::NonFungibleResourceManagerError(x)) => match x {
            NonFungibleResourceManagerError::NonFungibleAlreadyExists(_) => "EAlreadyExists",
            NonFungibleResourceManagerError::NonFungibleNotFound(_) => "ENotFound",
            NonFungibleResourceManagerError::UnknownMutableFieldName(_) => "EUnknownField",
            NonFungibleResourceManagerError::NonFungibleIdTypeDoesNotMatch(..) => "EIdTypeMismatch",
            NonFungibleResourceManagerError::InvalidNonFungibleIdType => "EInvalidIdType",
            NonFungibleResourceManagerError::NotMintable => "ENotMintable",
            NonFungibleResourceManagerError::NotBurnable => "ENotBurnable",
            _ => "EOther",
        },
        RuntimeError::SystemError(SystemError::KeyValueEntryLocked) => "ELocked",
        // burning an id that is not in the caller's vault fails at the withdrawal, before the manager
        RuntimeError::ApplicationError(ApplicationError::NonFungibleVaultError(_)) => "ENotHeld",
        RuntimeError::SystemModuleError(SystemModuleError::AuthError(AuthError::Unauthorized(_))) => "EUnauthorized",
        other => {
            if std::env::var("C43_DEBUG").is_ok() {
                eprintln!("EOther: {:?}", other);
            }
            "EOther"
        }
    }
}

struct Case {
    ty: Ty,
    initial: Vec<(Id, [u64; 4])>,
    steps: Vec<(Op, String, Vec<(Id, Entry)>)>,
    modes: [u8; 3],
    badges: Vec<bool>, // per step: did the caller present the badge
}

fn rand_data(rng: &mut Rng) -> [u64; 4] {
    [rng.below(100), rng.below(100), rng.below(100), rng.below(100)]
}

/// scripted ids (Ty::Ruid, 1000 + j) stand for the j-th RUID generated in the case
fn resolve(op: &Op, case_ruids: &[Id]) -> Op {
    let r = |i: &Id| if i.0 == Ty::Ruid && i.1 >= 1000 { case_ruids.get((i.1 - 1000) as usize).cloned().unwrap_or((Ty::Int, 99)) } else { *i };
    match op {
        Op::Mint(e) => Op::Mint(e.iter().map(|(i, d)| (r(i), *d)).collect()),
        Op::MintRuid(e) => Op::MintRuid(e.clone()),
        Op::Burn(ids) => Op::Burn(ids.iter().map(r).collect()),
        Op::Update(i, f, v) => Op::Update(r(i), *f, *v),
        Op::Seq(ops) => Op::Seq(ops.iter().map(|o| resolve(o, case_ruids)).collect()),
    }
}

fn run_case(w: &mut World, rng: &mut Rng, len: usize, script: Option<(Ty, Vec<u64>, Vec<Op>, [u8; 3], Vec<bool>)>) -> Case {
    let ty = match &script {
        Some((t, _, _, _, _)) => *t,
        None => *rng.pick(&[Ty::Int, Ty::Int, Ty::Str, Ty::Bytes, Ty::Ruid, Ty::Ruid]),
    };
    const POOL: u64 = 6;
    let mut initial = Vec::new();
    if let Some((_, keys, _, _, _)) = &script {
        for k in keys {
            initial.push(((ty, *k), [10 + k, 20 + k, 30 + k, 40 + k]));
        }
    } else if ty != Ty::Ruid && rng.chance(1, 2) {
        for k in 0..POOL {
            if rng.chance(1, 3) {
                initial.push(((ty, k), rand_data(rng)));
            }
        }
    }
    let modes: [u8; 3] = match &script {
        Some((_, _, _, m, _)) => *m,
        None => match rng.below(6) {
            0 => [1, 1, 1],
            1 => [1, 0, 0],
            2 => [2, 0, 1],
            3 => [0, 2, 0],
            _ => [0, 0, 0],
        },
    };
    let res = w.create(ty, &initial, modes).expect("resource creation");
    // universe of ids observed after every step: the pool of the resource's type, two ids of other
    // types, and every ruid generated in this case
    let mut universe: Vec<Id> = (0..POOL).map(|k| (if ty == Ty::Ruid { Ty::Int } else { ty }, k)).collect();
    if ty != Ty::Ruid {
        let other = if ty == Ty::Int { Ty::Str } else { Ty::Int };
        universe.push((other, 0));
        universe.push((other, 1));
    }
    let mut held: BTreeSet<Id> = initial.iter().map(|x| x.0).collect();
    let mut case_ruids: Vec<Id> = Vec::new();
    let mut steps = Vec::new();
    let n_steps = script.as_ref().map(|s| s.2.len()).unwrap_or(len);
    let mut badges: Vec<bool> = Vec::new();
    for step_no in 0..n_steps {
        let r = rng.below(100);
        let pick_id = |rng: &mut Rng, case_ruids: &Vec<Id>| -> Id {
            if ty == Ty::Ruid {
                if !case_ruids.is_empty() && !rng.chance(1, 8) {
                    *rng.pick(case_ruids)
                } else {
                    (Ty::Int, rng.below(POOL))
                }
            } else if rng.chance(1, 12) {
                (if ty == Ty::Int { Ty::Str } else { Ty::Int }, rng.below(2))
            } else {
                (ty, rng.below(POOL))
            }
        };
        let mut op = if let Some((_, _, ops, _, _)) = &script {
            resolve(&ops[step_no], &case_ruids)
        } else if r < 30 {
            let n = rng.range(1, 4);
            let mut ids: Vec<Id> = Vec::new();
            for _ in 0..n {
                let i = pick_id(rng, &case_ruids);
                if !ids.contains(&i) {
                    ids.push(i);
                }
            }
            Op::Mint(ids.into_iter().map(|i| (i, rand_data(rng))).collect())
        } else if r < 42 {
            let n = rng.range(1, 4);
            Op::MintRuid((0..n).map(|_| ((Ty::Ruid, 0), rand_data(rng))).collect())
        } else if r < 65 {
            if held.is_empty() {
                Op::Update(pick_id(rng, &case_ruids), rng.usize_below(5), rng.below(1000))
            } else {
                let v: Vec<Id> = held.iter().cloned().collect();
                let n = rng.range(1, 3).min(v.len() as u64);
                let mut ids = Vec::new();
                for _ in 0..n {
                    let i = *rng.pick(&v);
                    if !ids.contains(&i) {
                        ids.push(i);
                    }
                }
                Op::Burn(ids)
            }
        } else {
            // mostly live ids and mutable fields, so that committed updates are frequent
            let id = if !held.is_empty() && rng.chance(3, 5) {
                let v: Vec<Id> = held.iter().cloned().collect();
                *rng.pick(&v)
            } else {
                pick_id(rng, &case_ruids)
            };
            let f = if rng.chance(3, 5) { *rng.pick(&[1usize, 3]) } else { rng.usize_below(5) };
            Op::Update(id, f, rng.below(1000))
        };
        // ids of the wrong kind (e.g. Integer ids on a RUID resource) must exist as local ids
        let with_badge = match &script {
            Some((_, _, _, _, bs)) => bs.get(step_no).cloned().unwrap_or(true),
            None => !rng.chance(1, 4),
        };
        badges.push(with_badge);
        let out = w.exec(res, &mut op, with_badge);
        if out == "(ROk tt)" {
            match &op {
                Op::Mint(e) => held.extend(e.iter().map(|x| x.0)),
                Op::MintRuid(e) => {
                    for (i, _) in e {
                        held.insert(*i);
                        case_ruids.push(*i);
                        universe.push(*i);
                    }
                }
                Op::Burn(ids) => {
                    for i in ids {
                        held.remove(i);
                    }
                }
                Op::Seq(ops) => {
                    for o in ops {
                        match o {
                            Op::Mint(e) => held.extend(e.iter().map(|x| x.0)),
                            Op::Burn(ids) => {
                                for i in ids {
                                    held.remove(i);
                                }
                            }
                            _ => {}
                        }
                    }
                }
                _ => {}
            }
        }
        let obs: Vec<(Id, Entry)> = universe.iter().map(|i| (*i, w.read(res, i))).collect();
        steps.push((op, out, obs));
    }
    Case { ty, initial, steps, modes, badges }
}

fn touches(op: &Op, id: &Id) -> bool {
    match op {
        Op::Mint(e) | Op::MintRuid(e) => e.iter().any(|x| x.0 == *id),
        Op::Burn(ids) => ids.contains(id),
        Op::Update(i, _, _) => i == id,
        Op::Seq(ops) => ops.iter().any(|o| touches(o, id)),
    }
}

/// Deterministic boundary family (identical for every seed): (name, id type, initial keys, transactions)
fn boundary_scripts() -> Vec<(&'static str, Ty, Vec<u64>, Vec<Op>, [u8; 3], Vec<bool>)> {
    base_scripts().into_iter().map(|(n, t, k, o)| (n, t, k, o, [0, 0, 0], vec![])).chain(role_scripts()).collect()
}

/// admission: role-protected mint / burn / update with and without the badge; resources created without
/// the mint or the burn feature
fn role_scripts() -> Vec<(&'static str, Ty, Vec<u64>, Vec<Op>, [u8; 3], Vec<bool>)> {
    let d = |k: u64| [k, k + 1, k + 2, k + 3];
    let i = |k: u64| (Ty::Int, k);
    let ops = vec![
        Op::Mint(vec![(i(2), d(1))]),
        Op::Mint(vec![(i(2), d(1))]),
        Op::Update(i(0), 1, 5),
        Op::Update(i(0), 1, 5),
        Op::Burn(vec![i(0)]),
        Op::Burn(vec![i(0)]),
        Op::Seq(vec![Op::Mint(vec![(i(3), d(2))]), Op::Burn(vec![i(3)])]),
        Op::Seq(vec![Op::Mint(vec![(i(4), d(2))]), Op::Update(i(4), 3, 1)]),
        Op::Mint(vec![(i(0), d(3))]),
    ];
    let alt = vec![false, true, false, true, false, true, false, true, true];
    vec![
        ("roles_all_protected", Ty::Int, vec![0, 1], ops.clone(), [1, 1, 1], alt.clone()),
        ("roles_mint_protected", Ty::Int, vec![0, 1], ops.clone(), [1, 0, 0], alt.clone()),
        ("no_mint_feature", Ty::Int, vec![0, 1], ops.clone(), [2, 0, 1], alt.clone()),
        ("no_burn_feature", Ty::Int, vec![0, 1], ops, [0, 2, 0], alt),
        ("ruid_mint_protected", Ty::Ruid, vec![], vec![Op::MintRuid(vec![((Ty::Ruid, 0), d(1))]), Op::MintRuid(vec![((Ty::Ruid, 0), d(1))])], [1, 0, 0], vec![false, true]),
    ]
}

fn base_scripts() -> Vec<(&'static str, Ty, Vec<u64>, Vec<Op>)> {
    let d = |k: u64| [k, k + 1, k + 2, k + 3];
    let mut out = Vec::new();
    for (name, ty) in [("remint_int", Ty::Int), ("remint_str", Ty::Str), ("remint_bytes", Ty::Bytes)] {
        let other = if ty == Ty::Int { Ty::Str } else { Ty::Int };
        let id = |k: u64| (ty, k);
        out.push((
            name,
            ty,
            vec![],
            vec![
                Op::Mint(vec![]),
                Op::Mint(vec![(id(0), d(1))]),
                Op::Mint(vec![(id(0), d(2))]),             // exists
                Op::Burn(vec![id(0)]),
                Op::Mint(vec![(id(0), d(3))]),             // burned: locked
                Op::Update(id(0), 1, 5),                   // burned: locked
                Op::Update(id(0), 4, 5),                   // unknown field is checked first
                Op::Update(id(1), 1, 5),                   // never minted
                Op::Mint(vec![(id(1), d(4)), (id(0), d(5))]),      // last entry offends: nothing minted
                Op::Mint(vec![(id(0), d(5)), (id(1), d(4))]),      // first entry offends
                Op::Mint(vec![((other, 0), d(6)), (id(1), d(4))]), // wrong id kind first
                Op::Mint(vec![(id(1), d(4)), ((other, 0), d(6))]), // wrong id kind last
                Op::Mint(vec![(id(1), d(4)), (id(2), d(7))]),
                Op::Mint(vec![(id(3), d(8)), (id(2), d(9))]),      // existing last
                Op::Mint(vec![((other, 1), d(6)), (id(2), d(9))]), // wrong kind before existing: kind error
                Op::Mint(vec![(id(2), d(9)), ((other, 1), d(6))]), // existing before wrong kind: exists error
                Op::Burn(vec![id(1), id(2)]),
                Op::Mint(vec![(id(2), d(1))]),
                Op::MintRuid(vec![((Ty::Ruid, 0), d(1))]),         // generated ids on an explicit-id resource
            ],
        ));
    }
    // the same id minted, burned and minted again inside ONE transaction; failing transactions leave nothing
    let i = |k: u64| (Ty::Int, k);
    out.push((
        "same_transaction",
        Ty::Int,
        vec![5],
        vec![
            Op::Seq(vec![Op::Mint(vec![(i(3), d(1))]), Op::Burn(vec![i(3)]), Op::Mint(vec![(i(3), d(2))])]),
            Op::Seq(vec![Op::Mint(vec![(i(3), d(1))]), Op::Burn(vec![i(3)])]),
            Op::Mint(vec![(i(3), d(2))]),
            Op::Seq(vec![Op::Mint(vec![(i(4), d(1))]), Op::Update(i(4), 1, 9), Op::Update(i(4), 3, 8)]),
            Op::Seq(vec![Op::Mint(vec![(i(2), d(1))]), Op::Update(i(2), 0, 1)]),
            Op::Seq(vec![Op::Burn(vec![i(4)]), Op::Update(i(4), 1, 7)]),
            Op::Seq(vec![Op::Update(i(4), 1, 7), Op::Burn(vec![i(4)]), Op::Mint(vec![(i(4), d(3))])]),
            Op::Seq(vec![Op::Burn(vec![i(5)]), Op::Mint(vec![(i(5), d(3))])]),
            Op::Seq(vec![Op::Mint(vec![(i(1), d(1))]), Op::Mint(vec![(i(1), d(2))])]),
            Op::Seq(vec![Op::Mint(vec![(i(1), d(1))]), Op::Mint(vec![(i(0), d(2))])]),
        ],
    ));
    // the mutable-field boundary: tuple indices 0..3, b (1) and d (3, the last index) mutable; unknown name
    out.push((
        "field_boundary",
        Ty::Int,
        vec![0, 1],
        vec![
            Op::Update(i(0), 0, 100),
            Op::Update(i(0), 1, 101),
            Op::Update(i(0), 2, 102),
            Op::Update(i(0), 3, 103),
            Op::Update(i(0), 4, 104),
            Op::Update(i(1), 3, 0),
            Op::Update(i(1), 3, u64::MAX),
            Op::Update(i(1), 1, 0),
            Op::Mint(vec![(i(0), d(1))]),   // initial supply counts as minted
            Op::Burn(vec![i(0)]),
            Op::Mint(vec![(i(0), d(1))]),
            Op::Update(i(0), 3, 1),
        ],
    ));
    // RUID resources: 1, several and 0 generated ids; explicit ids refused; burn and update of generated ids
    let r = |j: u64| (Ty::Ruid, 1000 + j);
    out.push((
        "ruid",
        Ty::Ruid,
        vec![],
        vec![
            Op::MintRuid(vec![((Ty::Ruid, 0), d(1))]),
            Op::MintRuid(vec![((Ty::Ruid, 0), d(2)), ((Ty::Ruid, 0), d(3)), ((Ty::Ruid, 0), d(4))]),
            Op::MintRuid(vec![]),
            Op::Mint(vec![(i(0), d(5))]),
            Op::Mint(vec![]),
            Op::Update(r(0), 3, 77),
            Op::Update(r(0), 2, 77),
            Op::Burn(vec![r(0), r(2)]),
            Op::Update(r(0), 1, 1),
            Op::Update(r(1), 1, 1),
            Op::Update(i(0), 1, 1),
            Op::MintRuid(vec![((Ty::Ruid, 0), d(6))]),
            Op::Burn(vec![r(1), r(3), r(4)]),
        ],
    ));
    out
}

fn oracle(c: &Case) -> Vec<String> {
    let mut fails = Vec::new();
    let mut ever: BTreeSet<Id> = c.initial.iter().map(|x| x.0).collect();
    let mut state: BTreeMap<Id, Entry> = c.initial.iter().map(|(i, d)| (*i, Entry::Live(*d))).collect();
    for (i, d) in &c.initial {
        let _ = d;
        if i.0 != c.ty {
            fails.push(format!("initial id {:?} does not have the resource's id type", i));
        }
    }
    for (k, (op, out, obs)) in c.steps.iter().enumerate() {
        let ok = out == "(ROk tt)";
        let after: BTreeMap<Id, Entry> = obs.iter().cloned().collect();
        match op {
            Op::Mint(e) | Op::MintRuid(e) if ok => {
                for (id, d) in e {
                    if !ever.insert(*id) {
                        fails.push(format!("step {}: id {:?} minted although it was minted before", k, id));
                    }
                    if id.0 != c.ty {
                        fails.push(format!("step {}: minted id {:?} does not have the resource's id type {:?}", k, id, c.ty));
                    }
                    if after.get(id) != Some(&Entry::Live(*d)) {
                        fails.push(format!("step {}: minted id {:?} does not carry its data", k, id));
                    }
                }
            }
            Op::Update(id, f, v) => {
                let mutable = *f == 1 || *f == 3;
                if ok && !mutable {
                    fails.push(format!("step {}: update of non-mutable field {} succeeded", k, FIELD_NAMES[*f]));
                }
                if ok {
                    if let (Some(Entry::Live(d0)), Some(Entry::Live(d1))) = (state.get(id), after.get(id)) {
                        for j in 0..4 {
                            if j != *f && d0[j] != d1[j] {
                                fails.push(format!("step {}: update of field {} changed field {}", k, FIELD_NAMES[*f], FIELD_NAMES[j]));
                            }
                        }
                        if d1[*f] != *v {
                            fails.push(format!("step {}: updated field does not hold the new value", k));
                        }
                    } else {
                        fails.push(format!("step {}: update succeeded on an id that is not live", k));
                    }
                }
            }
            Op::Seq(ops) if ok => {
                // a committed multi-operation transaction: every mint in it carries never-used ids,
                // every update names a mutable field
                for o in ops {
                    match o {
                        Op::Mint(e) => {
                            for (id, _) in e {
                                if !ever.insert(*id) {
                                    fails.push(format!("step {}: id {:?} minted (inside one transaction) although it was minted before", k, id));
                                }
                                if id.0 != c.ty {
                                    fails.push(format!("step {}: minted id {:?} does not have the resource's id type", k, id));
                                }
                            }
                        }
                        Op::Update(_, f, _) if *f != 1 && *f != 3 => fails.push(format!("step {}: update of non-mutable field {} committed", k, FIELD_NAMES[*f])),
                        _ => {}
                    }
                }
            }
            _ => {}
        }
        // everything not addressed by a successful op is unchanged; burned ids are tombstones
        for (id, e1) in &after {
            let e0 = state.get(id).cloned().unwrap_or(Entry::Absent);
            let touched = ok && touches(op, id);
            if !touched && e0 != *e1 {
                fails.push(format!("step {}: entry of {:?} changed from {:?} to {:?} by {:?}", k, id, e0, e1, op));
            }
            if let (true, Op::Burn(ids)) = (ok, op) {
                if ids.contains(id) && *e1 != Entry::Tomb {
                    fails.push(format!("step {}: burned id {:?} is not a locked empty entry", k, id));
                }
            }
            if e0 == Entry::Tomb && *e1 != Entry::Tomb {
                fails.push(format!("step {}: tombstone of {:?} disappeared", k, id));
            }
        }
        for (id, e1) in after {
            state.insert(id, e1);
        }
    }
    fails
}

fn main() {
    let args = Args::parse();
    let mut report = Report::new(
        "C43",
        args.seed,
        "per case a fresh non-fungible resource (Integer/String/Bytes/RUID ids, optional initial supply) and 8..30 operations: \
         explicit mints over a pool of 6 ids (re-mints of live and burned ids, wrong id kinds, RUID-vs-explicit mismatches), RUID \
         mints, burns of held ids, data updates of mutable/immutable/unknown fields on live, burned and never-minted ids; \
         non-trivial = a re-mint of a burned id was refused and an immutable-field update was refused; distinct by canonical text",
    );
    let mut cw = CaseWriter::new("RV.Corr.C43_run RV.Model.C43_NfData", "check");
    let root = Rng::new(args.seed);
    let mut w = World::new();
    let bf = boundary_scripts();
    for i in 0..args.cases.max(bf.len() + 4) {
        let mut rng = root.fork(i as u64);
        let len = rng.range(8, 30) as usize;
        let case = if i < bf.len() {
            report.count(&format!("bf.{}", bf[i].0));
            run_case(&mut w, &mut rng, 0, Some((bf[i].1, bf[i].2.clone(), bf[i].3.clone(), bf[i].4, bf[i].5.clone())))
        } else {
            run_case(&mut w, &mut rng, len, None)
        };
        let mut relock = false;
        let mut immut = false;
        for (op, out, _) in &case.steps {
            let name = match op {
                Op::Mint(_) => "mint",
                Op::MintRuid(_) => "mint_ruid",
                Op::Burn(_) => "burn",
                Op::Update(..) => "update",
                Op::Seq(..) => "seq",
            };
            report.count(&format!("{}.{}", name, out.trim_matches(|c| c == '(' || c == ')').replace("RErr ", "").replace("ROk tt", "Ok")));
            if out == "(RErr ELocked)" && matches!(op, Op::Mint(_) | Op::Seq(_)) {
                relock = true;
            }
            if out == "(RErr EUnknownField)" {
                immut = true;
            }
        }
        let canon = format!("{:?} {} {}", case.ty, entries_coq(&case.initial), case.steps.iter().map(|(o, out, _)| format!("{}=>{}", op_coq(o), out)).collect::<Vec<_>>().join(";"));
        report.case(&canon, relock && immut);
        report.count(&format!("type.{}", ty_coq(case.ty)));
        let mut fails = oracle(&case);
        fails.extend(w.generator_mismatch.drain(..));
        for what in fails {
            report.oracle_failure(i, "", &what, json!({"ty": ty_coq(case.ty), "initial": entries_coq(&case.initial), "steps": case.steps.iter().map(|(o, out, _)| format!("{} => {}", op_coq(o), out)).collect::<Vec<_>>()}));
        }
        if i < 2 {
            report.sample(json!({"ty": ty_coq(case.ty), "steps": case.steps.iter().take(12).map(|(o, out, _)| format!("{} => {}", op_coq(o), out)).collect::<Vec<_>>()}));
        }
        cw.push(format!(
            "(mkcase {} {} {} {} {})",
            ty_coq(case.ty),
            entries_coq(&case.initial),
            coq_bool(case.modes[0] != 2),
            coq_bool(case.modes[1] != 2),
            coq_list(case.steps.iter().enumerate().map(|(k, (o, out, obs))| format!(
                "({}, {}, {})",
                tx_coq(o, &case.modes, case.badges[k]),
                out,
                coq_list(obs.iter().map(|(i, e)| format!("({}, {})", id_coq(i), entry_coq(e))))
            )))
        ));
        report.count(&format!("modes.{}{}{}", case.modes[0], case.modes[1], case.modes[2]));
    }
    for (name, ..) in &bf {
        report.floor(&format!("bf.{}", name), 1);
    }
    for key in ["mint.EIdTypeMismatch", "mint.EInvalidIdType", "mint_ruid.EInvalidIdType", "mint_ruid.Ok", "update.ELocked", "update.ENotFound", "seq.Ok", "seq.ELocked", "seq.EUnknownField", "seq.EAlreadyExists", "mint.EUnauthorized", "burn.EUnauthorized", "update.EUnauthorized", "seq.EUnauthorized", "mint_ruid.EUnauthorized"] {
        report.floor(key, 1);
    }
    report.floor("mint.ELocked", (args.cases as u64) / 4);
    report.floor("mint.EAlreadyExists", (args.cases as u64) / 4);
    report.floor("update.EUnknownField", (args.cases as u64) / 2);
    report.floor("update.Ok", (args.cases as u64) / 2);
    report.floor("burn.Ok", (args.cases as u64) / 2);
    cw.write(&args.out, args.shards).unwrap();
    report.write(&args.out).unwrap();
}
