//! C47: static scan of radix-engine/src/vm/wasm/wasmi.rs (source text) shared by `gen_c47` (writes the
//! Coq table coq/Gen/C47_host_fns.v) and `c47` (builds the forwarding WAT module from the same scan,
//! so a host function added to wasmi.rs is forwarded and exercised without touching the harness).
#![allow(dead_code)]
use std::collections::BTreeMap;

pub fn repo_root() -> String {
    std::env::var("VERIF_REPO").unwrap_or_else(|_| "/repo".to_string())
}

#[derive(Clone, Debug)]
pub struct NativeFn {
    pub name: String,
    pub cfg_test: bool,
    /// parameters after `caller`: (name, type)
    pub params: Vec<(String, String)>,
    /// indices (into params) of pointer-like u32 parameters / length parameters
    pub ptr_params: Vec<usize>,
    pub len_params: Vec<usize>,
    /// read_memory(caller.as_context_mut(), memory, P, L) calls in textual order: (index of P, index of L)
    pub reads: Vec<(usize, usize)>,
    /// write_memory(.., memory, P, &data) calls: index of P
    pub writes: Vec<usize>,
    pub read_slice_calls: usize,
    /// (ptr,len) pairs by SIGNATURE: a pointer parameter immediately followed by a length parameter
    pub sig_pairs: Vec<(usize, usize)>,
    /// the read_memory calls read exactly the signature pairs, each once (no pointer read with another
    /// parameter's length)
    pub pairs_matched: bool,
    /// the function returns an i64 to WASM (`Result<u64, _>`)
    pub returns_u64: bool,
    /// ... and that i64 is `buffer.0` of the Buffer returned by exactly one runtime call
    pub result_is_buffer: bool,
    /// uses of pointer parameters outside the argument lists of the helpers
    pub stray_ptr_uses: usize,
    /// direct use of the memory object (`memory.<method>(`, `Memory::`, `get_export(`)
    pub raw_access: bool,
}

#[derive(Clone, Debug)]
pub struct Closure {
    pub var: String,
    pub param_types: Vec<String>,
    pub ret: String,
    pub callee: String,
    pub forwards_all: bool,
    pub raw_access: bool,
}

#[derive(Clone, Debug)]
pub struct Import {
    pub import_name: String,
    pub var: String,
    pub cfg_test: bool,
}

#[derive(Clone, Debug)]
pub struct Scan {
    pub natives: Vec<NativeFn>,
    pub closures: Vec<Closure>,
    pub imports: Vec<Import>,
    /// names of all `fn`s of the file whose body touches the memory object directly
    pub raw_fns: Vec<String>,
    /// scrypto_runtime.rs: methods returning `Result<Buffer, _>` with the number of `self.allocate_buffer(` calls in the body
    pub runtime_buffer_fns: Vec<(String, usize)>,
    /// scrypto_runtime.rs: functions whose body constructs a Buffer (`Buffer::new(` / `Buffer(`)
    pub runtime_buffer_ctor_sites: Vec<String>,
}

fn is_ident(c: char) -> bool {
    c.is_ascii_alphanumeric() || c == '_'
}

/// position of the delimiter matching the opening one at `open` (which must be ( [ { or |)
fn matching(s: &[u8], open: usize) -> usize {
    let (o, c) = match s[open] {
        b'(' => (b'(', b')'),
        b'{' => (b'{', b'}'),
        b'[' => (b'[', b']'),
        _ => panic!("matching: not an opening delimiter"),
    };
    let mut depth = 0usize;
    let mut i = open;
    while i < s.len() {
        if s[i] == o {
            depth += 1;
        } else if s[i] == c {
            depth -= 1;
            if depth == 0 {
                return i;
            }
        }
        i += 1;
    }
    panic!("unbalanced delimiter");
}

fn split_top(s: &str) -> Vec<String> {
    let mut out = Vec::new();
    let mut depth = 0i32;
    let mut cur = String::new();
    for ch in s.chars() {
        match ch {
            '(' | '[' | '{' | '<' => depth += 1,
            ')' | ']' | '}' | '>' => depth -= 1,
            _ => {}
        }
        if ch == ',' && depth == 0 {
            out.push(cur.trim().to_string());
            cur.clear();
        } else {
            cur.push(ch);
        }
    }
    if !cur.trim().is_empty() {
        out.push(cur.trim().to_string());
    }
    out
}

fn word_occurrences(hay: &str, word: &str) -> usize {
    let hb = hay.as_bytes();
    let mut n = 0;
    let mut from = 0;
    while let Some(p) = hay[from..].find(word) {
        let s = from + p;
        let e = s + word.len();
        let before_ok = s == 0 || !is_ident(hb[s - 1] as char);
        let after_ok = e >= hb.len() || !is_ident(hb[e] as char);
        if before_ok && after_ok {
            n += 1;
        }
        from = e;
    }
    n
}

/// `memory.<ident>(`, `Memory::`, `get_export(`, `.data_ptr(`
fn touches_memory_directly(body: &str) -> bool {
    let b = body.as_bytes();
    let mut from = 0;
    while let Some(p) = body[from..].find("memory") {
        let s = from + p;
        let e = s + 6;
        let before_ok = s == 0 || !is_ident(b[s - 1] as char);
        if before_ok {
            let mut j = e;
            while j < b.len() && (b[j] as char).is_whitespace() {
                j += 1;
            }
            if j < b.len() && b[j] == b'.' {
                return true;
            }
        }
        from = e;
    }
    body.contains("Memory::") || body.contains("get_export(") || body.contains("data_ptr(")
}

/// all calls `name(args)` in body: returns the argument lists (top-level split)
fn calls_of(body: &str, name: &str) -> Vec<Vec<String>> {
    let b = body.as_bytes();
    let mut out = Vec::new();
    let mut from = 0;
    while let Some(p) = body[from..].find(name) {
        let s = from + p;
        let e = s + name.len();
        let before_ok = s == 0 || !is_ident(b[s - 1] as char);
        if before_ok && e < b.len() && b[e] == b'(' {
            let close = matching(b, e);
            out.push(split_top(&body[e + 1..close]));
            from = close;
        } else {
            from = e;
        }
    }
    out
}

/// number of method calls on `recv` (`recv.name(` possibly with whitespace/newline before the dot)
fn calls_of_method(body: &str, recv: &str) -> usize {
    let b = body.as_bytes();
    let mut n = 0;
    let mut from = 0;
    while let Some(p) = body[from..].find(recv) {
        let s = from + p;
        let e = s + recv.len();
        let before_ok = s == 0 || !is_ident(b[s - 1] as char);
        let mut j = e;
        while j < b.len() && (b[j] as char).is_whitespace() {
            j += 1;
        }
        if before_ok && j < b.len() && b[j] == b'.' && (e >= b.len() || !is_ident(b[e] as char)) {
            n += 1;
        }
        from = e;
    }
    n
}

struct FnText {
    name: String,
    ret: String,
    attrs: String,
    params: String,
    body: String,
    start: usize,
}

/// every `fn name(...) ... { body }` of the text (including nested ones in impl blocks)
fn all_fns(src: &str) -> Vec<FnText> {
    let b = src.as_bytes();
    let mut out = Vec::new();
    let mut from = 0;
    while let Some(p) = src[from..].find("fn ") {
        let s = from + p;
        from = s + 3;
        if s > 0 && is_ident(b[s - 1] as char) {
            continue;
        }
        // inside a line comment?
        let line_start = src[..s].rfind('\n').map(|x| x + 1).unwrap_or(0);
        if src[line_start..s].contains("//") {
            continue;
        }
        let mut j = s + 3;
        let ns = j;
        while j < b.len() && is_ident(b[j] as char) {
            j += 1;
        }
        let name = src[ns..j].to_string();
        if name.is_empty() {
            continue;
        }
        // optional generics
        if j < b.len() && b[j] == b'<' {
            let mut depth = 0;
            while j < b.len() {
                if b[j] == b'<' {
                    depth += 1;
                }
                if b[j] == b'>' {
                    depth -= 1;
                    if depth == 0 {
                        j += 1;
                        break;
                    }
                }
                j += 1;
            }
        }
        if j >= b.len() || b[j] != b'(' {
            continue;
        }
        let pclose = matching(b, j);
        let params = src[j + 1..pclose].to_string();
        // body or `;` (trait method declaration)
        let mut k = pclose + 1;
        while k < b.len() && b[k] != b'{' && b[k] != b';' {
            k += 1;
        }
        if k >= b.len() || b[k] == b';' {
            continue;
        }
        let bclose = matching(b, k);
        // attributes: the contiguous `#[...]` lines directly above
        let mut attrs = String::new();
        let mut ls = line_start;
        loop {
            if ls == 0 {
                break;
            }
            let prev_start = src[..ls - 1].rfind('\n').map(|x| x + 1).unwrap_or(0);
            let line = src[prev_start..ls - 1].trim();
            if line.starts_with("#[") {
                attrs.push_str(line);
                attrs.push('\n');
                ls = prev_start;
            } else {
                break;
            }
        }
        let ret = src[pclose + 1..k].trim().trim_start_matches("->").trim().to_string();
        out.push(FnText { name, ret, attrs, params, body: src[k..=bclose].to_string(), start: s });
        from = j; // nested fns are found too
    }
    out
}

pub fn scan() -> Scan {
    let root = repo_root();
    let src = std::fs::read_to_string(format!("{}/radix-engine/src/vm/wasm/wasmi.rs", root)).expect("read wasmi.rs");
    let consts_src = std::fs::read_to_string(format!("{}/radix-engine/src/vm/wasm/constants.rs", root)).expect("read constants.rs");
    let mut sc = scan_text(&src, &consts_src);
    let rt_src = std::fs::read_to_string(format!("{}/radix-engine/src/vm/wasm_runtime/scrypto_runtime.rs", root)).expect("read scrypto_runtime.rs");
    for f in all_fns(&rt_src) {
        if f.body.contains("Buffer::new(") || f.body.contains("Buffer(") {
            sc.runtime_buffer_ctor_sites.push(f.name.clone());
        }
        if f.ret.starts_with("Result<Buffer") && f.name != "allocate_buffer" {
            sc.runtime_buffer_fns.push((f.name.clone(), f.body.matches("self.allocate_buffer(").count()));
        }
    }
    sc
}

pub fn scan_text(src: &str, consts_src: &str) -> Scan {
    // string constants
    let mut consts: BTreeMap<String, String> = BTreeMap::new();
    for stmt in consts_src.split(';') {
        let l = stmt.trim();
        if let Some(pos) = l.rfind("pub const ") {
            let rest = &l[pos + "pub const ".len()..];
            if let Some(colon) = rest.find(':') {
                let name = rest[..colon].trim().to_string();
                if let (Some(q1), Some(q2)) = (rest.find('"'), rest.rfind('"')) {
                    if q2 > q1 {
                        consts.insert(name, rest[q1 + 1..q2].to_string());
                    }
                }
            }
        }
    }

    let nat_start = src.find("// native functions start").expect("marker: native functions start");
    let nat_end = src.find("// native functions ends").expect("marker: native functions ends");
    let fns = all_fns(src);

    let mut natives = Vec::new();
    let mut raw_fns = Vec::new();
    for f in &fns {
        if touches_memory_directly(&f.body) {
            raw_fns.push(f.name.clone());
        }
        if f.start < nat_start || f.start > nat_end {
            continue;
        }
        let mut params: Vec<(String, String)> = Vec::new();
        for p in split_top(&f.params) {
            let p = p.trim().trim_start_matches("mut ").to_string();
            let colon = p.find(':').expect("param colon");
            let name = p[..colon].trim().to_string();
            let ty = p[colon + 1..].trim().to_string();
            if name == "caller" {
                continue;
            }
            params.push((name, ty));
        }
        let is_ptr = |n: &str| n.ends_with("_ptr") || n.ends_with("_offs") || n == "ptr" || n.contains("ptr");
        let is_len = |n: &str| n.ends_with("_len") || n == "len";
        let ptr_params: Vec<usize> = params.iter().enumerate().filter(|(_, (n, _))| is_ptr(n)).map(|(i, _)| i).collect();
        let len_params: Vec<usize> = params.iter().enumerate().filter(|(_, (n, _))| is_len(n)).map(|(i, _)| i).collect();
        let idx = |n: &str| params.iter().position(|(pn, _)| pn == n.trim());
        let mut reads = Vec::new();
        let mut helper_ptr_uses = 0usize;
        for args in calls_of(&f.body, "read_memory") {
            assert!(args.len() == 4, "read_memory call with {} args in {}", args.len(), f.name);
            let (p, l) = (idx(&args[2]), idx(&args[3]));
            match (p, l) {
                (Some(p), Some(l)) => {
                    reads.push((p, l));
                    helper_ptr_uses += 1;
                }
                _ => panic!("read_memory call in {} with non-parameter arguments {:?}", f.name, args),
            }
        }
        let mut writes = Vec::new();
        for args in calls_of(&f.body, "write_memory") {
            assert!(args.len() == 4, "write_memory call with {} args in {}", args.len(), f.name);
            match idx(&args[2]) {
                Some(p) => {
                    writes.push(p);
                    helper_ptr_uses += 1;
                }
                None => panic!("write_memory call in {} with non-parameter pointer {:?}", f.name, args),
            }
        }
        let read_slice_calls = calls_of(&f.body, "read_slice").len();
        let total_ptr_uses: usize = ptr_params.iter().map(|i| word_occurrences(&f.body, &params[*i].0)).sum();
        let sig_pairs: Vec<(usize, usize)> = ptr_params.iter().filter(|i| len_params.contains(&(**i + 1))).map(|i| (*i, *i + 1)).collect();
        let pairs_matched = {
            let mut a = reads.clone();
            a.sort();
            let mut b: Vec<(usize, usize)> = if writes.is_empty() { sig_pairs.clone() } else { Vec::new() };
            b.sort();
            a == b
        };
        let returns_u64 = f.ret.starts_with("Result<u64");
        let result_is_buffer = returns_u64 && f.body.matches(".map(|buffer| buffer.0)").count() == 1 && calls_of_method(&f.body, "runtime") == 1;
        natives.push(NativeFn {
            returns_u64,
            result_is_buffer,
            sig_pairs,
            pairs_matched,
            name: f.name.clone(),
            cfg_test: f.attrs.contains("radix_engine_tests"),
            ptr_params,
            len_params,
            reads,
            writes,
            read_slice_calls,
            stray_ptr_uses: total_ptr_uses.saturating_sub(helper_ptr_uses),
            raw_access: touches_memory_directly(&f.body),
            params,
        });
    }

    // closures wrapped as host functions
    let hs = fns.iter().find(|f| f.name == "host_funcs_set").expect("host_funcs_set");
    let body = &hs.body;
    let bb = body.as_bytes();
    let mut closures = Vec::new();
    let mut from = 0;
    while let Some(p) = body[from..].find("Func::wrap(") {
        let s = from + p;
        let open = s + "Func::wrap".len();
        let close = matching(bb, open);
        let inner = &body[open + 1..close];
        // variable name: `let NAME = ` before
        let before = &body[..s];
        let let_pos = before.rfind("let ").expect("let before Func::wrap");
        let var = before[let_pos + 4..].split('=').next().unwrap().trim().to_string();
        let bar1 = inner.find('|').expect("closure |");
        let bar2 = bar1 + 1 + inner[bar1 + 1..].find('|').expect("closure | end");
        let mut param_names = Vec::new();
        let mut param_types = Vec::new();
        for p in split_top(&inner[bar1 + 1..bar2]) {
            let colon = p.find(':').expect("closure param colon");
            let n = p[..colon].trim().to_string();
            let t = p[colon + 1..].trim().to_string();
            if n == "caller" {
                continue;
            }
            param_names.push(n);
            param_types.push(t);
        }
        let after = &inner[bar2 + 1..];
        let arrow = after.find("->").expect("closure ->");
        let brace = after.find('{').expect("closure body");
        let ret_full = after[arrow + 2..brace].trim().to_string(); // Result<T, Error>
        let ret = ret_full.trim_start_matches("Result<").split(',').next().unwrap().trim().to_string();
        let cbody = &after[brace..];
        // callee: first identifier followed by '(' in the body
        let cb = cbody.as_bytes();
        let mut i = 1;
        while i < cb.len() && !is_ident(cb[i] as char) {
            i += 1;
        }
        let cs = i;
        while i < cb.len() && is_ident(cb[i] as char) {
            i += 1;
        }
        let callee = cbody[cs..i].to_string();
        let mut forwards_all = false;
        if i < cb.len() && cb[i] == b'(' {
            let cclose = matching(cb, i);
            let args = split_top(&cbody[i + 1..cclose]);
            let mut expect = vec!["caller".to_string()];
            expect.extend(param_names.iter().cloned());
            forwards_all = args == expect;
        }
        closures.push(Closure { var, param_types, ret, callee, forwards_all, raw_access: touches_memory_directly(cbody) || word_occurrences(cbody, "memory") > 0 || cbody.contains("grab_memory") });
        from = close;
    }

    // linker_define!(linker, NAME, var)
    let mut imports = Vec::new();
    let test_block_start = body.find("#[cfg(feature = \"radix_engine_tests\")]").unwrap_or(body.len());
    let mut from = 0;
    while let Some(p) = body[from..].find("linker_define!(") {
        let s = from + p;
        let open = s + "linker_define!".len();
        let close = matching(bb, open);
        let args = split_top(&body[open + 1..close]);
        assert!(args.len() == 3, "linker_define! with {} args", args.len());
        let name = if args[1].starts_with('"') {
            args[1].trim_matches('"').to_string()
        } else {
            consts.get(&args[1]).unwrap_or_else(|| panic!("unknown constant {}", args[1])).clone()
        };
        imports.push(Import { import_name: name, var: args[2].clone(), cfg_test: s > test_block_start });
        from = close;
    }

    Scan { natives, closures, imports, raw_fns, runtime_buffer_fns: Vec::new(), runtime_buffer_ctor_sites: Vec::new() }
}

impl Scan {
    pub fn closure_of(&self, var: &str) -> Option<&Closure> {
        self.closures.iter().find(|c| c.var == var)
    }
    pub fn native_of(&self, name: &str) -> Option<&NativeFn> {
        self.natives.iter().find(|n| n.name == name)
    }
}
