//! helpers shared by the vh-engine harness binaries (repo-specific; generic ones are in vh-common)
pub mod histories;
