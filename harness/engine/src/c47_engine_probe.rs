//! C47: engine-level probes of the REAL ScryptoRuntime buffer table (allocate_buffer /
//! buffer_consume inside a real transaction), included by c47.rs with #[path].
//! The prebuilt test blueprint `system_wasm_buffers` (radix-engine-tests/assets) is published on a
//! LedgerSimulator; its method `write_memory_specific_buffer_id(id)` makes the host allocate one
//! buffer (kv_entry_read) and then calls buffer_consume(id, ptr) with the id chosen by the
//! transaction; `write_memory_specific_buffer_ptr(ptr)` consumes the right buffer into a pointer
//! chosen by the transaction.
use radix_common::prelude::*;
use radix_engine::errors::*;
use radix_engine::vm::wasm::WasmRuntimeError;
use radix_engine_interface::blueprints::package::*;
use radix_engine_interface::prelude::*;
use radix_transactions::prelude::*;
use scrypto_test::prelude::{LedgerSimulator, LedgerSimulatorBuilder, NoExtension};

type Ledger = LedgerSimulator<NoExtension, radix_substate_store_impls::memory_db::InMemorySubstateDatabase>;

const WASM: &[u8] = include_bytes!("../assets/c47/system_wasm_buffers.wasm");
const RPD: &[u8] = include_bytes!("../assets/c47/system_wasm_buffers.rpd");

#[derive(Clone, Debug, PartialEq, Eq)]
pub enum Outcome {
    Ok,
    NotFound(u32),
    TooManyBuffers,
    MemoryAccessError,
    Other(String),
}

pub struct Probe {
    ledger: Ledger,
    component: ComponentAddress,
    pub runs: u64,
}

fn classify(r: Result<radix_engine::transaction::TransactionReceipt, String>) -> Outcome {
    use radix_engine::transaction::*;
    match r {
        Err(m) => Outcome::Other(format!("panic: {}", m.chars().take(100).collect::<String>())),
        Ok(r) => match &r.result {
            TransactionResult::Commit(c) => match &c.outcome {
                TransactionOutcome::Success(_) => Outcome::Ok,
                TransactionOutcome::Failure(RuntimeError::VmError(VmError::Wasm(WasmRuntimeError::BufferNotFound(id)))) => Outcome::NotFound(*id),
                TransactionOutcome::Failure(RuntimeError::VmError(VmError::Wasm(WasmRuntimeError::TooManyBuffers))) => Outcome::TooManyBuffers,
                TransactionOutcome::Failure(RuntimeError::VmError(VmError::Wasm(WasmRuntimeError::MemoryAccessError))) => Outcome::MemoryAccessError,
                TransactionOutcome::Failure(e) => Outcome::Other(format!("{:?}", e).chars().take(200).collect()),
            },
            other => Outcome::Other(format!("{:?}", other).chars().take(200).collect()),
        },
    }
}

impl Probe {
    pub fn new() -> Probe {
        let mut ledger: Ledger = LedgerSimulatorBuilder::new().without_kernel_trace().build();
        let def: PackageDefinition = manifest_decode::<ManifestPackageDefinition>(RPD).expect("rpd").try_into_typed().expect("typed rpd");
        let package = ledger.publish_package((WASM.to_vec(), def), BTreeMap::new(), OwnerRole::None);
        let component = ledger
            .execute_manifest(ManifestBuilder::new().lock_fee_from_faucet().call_function(package, "WasmBuffersTest", "new", manifest_args!()).build(), vec![])
            .expect_commit_success()
            .new_component_addresses()[0];
        Probe { ledger, component, runs: 0 }
    }
    fn exec(&mut self, manifest: TransactionManifestV1, commit: bool) -> Outcome {
        self.runs += 1;
        let ledger = &mut self.ledger;
        classify(vh_common::catch(std::panic::AssertUnwindSafe(|| {
            if commit {
                ledger.execute_manifest(manifest, vec![])
            } else {
                let nonce = ledger.next_transaction_nonce();
                let tx = TestTransaction::new_v1_from_nonce(manifest, nonce, btreeset!());
                ledger.execute_transaction_no_commit(tx, radix_engine::transaction::ExecutionConfig::for_test_transaction())
            }
        })))
    }
    /// stores a value of `n` bytes in the component's KV entry (so that kv_entry_read allocates a
    /// buffer of about n bytes)
    pub fn store_value(&mut self, n: usize) -> Outcome {
        let len = if n == 0 { 4 } else if n < 128 { n + 4 } else if n < 16384 { n + 5 } else { n + 6 };
        let m = ManifestBuilder::new().lock_fee_from_faucet().call_method(self.component, "read_memory", manifest_args!(n, 0isize, len)).build();
        self.exec(m, true)
    }
    /// kv_entry_read (one allocate_buffer) then buffer_consume(id, valid pointer)
    pub fn consume_id(&mut self, id: u32) -> Outcome {
        let m = ManifestBuilder::new().lock_fee_from_faucet().call_method(self.component, "write_memory_specific_buffer_id", manifest_args!(id)).build();
        self.exec(m, false)
    }
    /// kv_entry_read then buffer_consume(the right id, ptr)
    pub fn consume_to(&mut self, ptr: u32) -> Outcome {
        let m = ManifestBuilder::new().lock_fee_from_faucet().call_method(self.component, "write_memory_specific_buffer_ptr", manifest_args!(ptr)).build();
        self.exec(m, false)
    }
}

// ------------------------------------------------------------------------------------------------
// Script probes: a WAT package (one exported function per script) whose functions are straight-line
// sequences of `actor_get_package_address()` (= one allocate_buffer of a 30-byte buffer in the REAL
// ScryptoRuntime table) and `buffer_consume(id, dest)`.  The frame starts with buffer id 0 live (the
// 3-byte argument buffer allocated by ScryptoVm before the export is invoked).  A host error traps
// the frame, so the observation of a script is its first error (or success).
// ------------------------------------------------------------------------------------------------
#[derive(Clone, Debug)]
pub enum SOp {
    Alloc,
    Consume(u32, u32),
}
/// bytes of the buffer allocated by `Alloc` (a package address) and of the argument buffer (`()`)
pub const ALLOC_LEN: u64 = 30;
pub const ARGS_LEN: u64 = 3;

pub struct ScriptProbe {
    ledger: Ledger,
    package: PackageAddress,
    pub runs: u64,
}

pub fn script_wat(scripts: &[Vec<SOp>]) -> String {
    let mut s = String::from(
        r#"(module
  (import "env" "actor_get_package_address" (func $alloc (result i64)))
  (import "env" "buffer_consume" (func $consume (param i32 i32)))
  (memory $0 1)
  (export "memory" (memory $0))
  (func $unit (result i64)
    (i32.store8 (i32.const 0) (i32.const 92))
    (i32.store8 (i32.const 1) (i32.const 33))
    (i32.store8 (i32.const 2) (i32.const 0))
    (i64.const 3))
"#,
    );
    for (k, ops) in scripts.iter().enumerate() {
        s.push_str(&format!("  (func $Test_f{} (param i64) (result i64)\n", k));
        for op in ops {
            match op {
                SOp::Alloc => s.push_str("    (drop (call $alloc))\n"),
                // i32.const takes the u32 bit pattern as a signed literal
                SOp::Consume(id, dest) => s.push_str(&format!("    (call $consume (i32.const {}) (i32.const {}))\n", *id as i32, *dest as i32)),
            }
        }
        s.push_str(&format!("    (call $unit))\n  (export \"Test_f{}\" (func $Test_f{}))\n", k, k));
    }
    s.push_str(")\n");
    s
}

impl ScriptProbe {
    pub fn new(scripts: &[Vec<SOp>]) -> ScriptProbe {
        let mut ledger: Ledger = LedgerSimulatorBuilder::new().without_kernel_trace().build();
        let code = wat::parse_str(&script_wat(scripts)).expect("script wat");
        let names: Vec<(String, String)> = (0..scripts.len()).map(|k| (format!("f{}", k), format!("Test_f{}", k))).collect();
        let def = PackageDefinition::new_functions_only_test_definition("Test", names.iter().map(|(a, b)| (a.as_str(), b.as_str(), false)).collect());
        let package = ledger.publish_package((code, def), BTreeMap::new(), OwnerRole::None);
        ScriptProbe { ledger, package, runs: 0 }
    }
    pub fn run(&mut self, k: usize) -> Outcome {
        self.runs += 1;
        let manifest = ManifestBuilder::new().lock_fee_from_faucet().call_function(self.package, "Test", format!("f{}", k), manifest_args!()).build();
        let ledger = &mut self.ledger;
        classify(vh_common::catch(std::panic::AssertUnwindSafe(|| {
            let nonce = ledger.next_transaction_nonce();
            let tx = TestTransaction::new_v1_from_nonce(manifest, nonce, btreeset!());
            ledger.execute_transaction_no_commit(tx, radix_engine::transaction::ExecutionConfig::for_test_transaction())
        })))
    }
}
