//! Shared random-history generator and ledger observers for the whole-system properties
//! (C03/C04 conservation + supply, C05 well-formedness, C01 determinism, C11 no crash).
//!
//! `World` owns a `LedgerSimulator` (in-memory DB, default test genesis: one validator, every round
//! change is an epoch change with a 1 XRD emission) plus 4 accounts, and produces random
//! transactions over the resources it has created so far:
//!   create fungible (divisibility 0/2/18, with/without supply tracking, with/without initial
//!   supply) / non-fungible resources, mint (valid and invalid amounts), burn (account, worktop),
//!   transfers between the accounts (fungible and by id), recall, freeze/unfreeze, fee locks from
//!   accounts (plain and contingent) or the faucet, staking / unstaking / claiming on the genesis
//!   validator, one- and two-resource pool contribute/redeem, epoch changes, and transactions that
//!   fail at run time (over-withdraw, worktop assertion, frozen vault, duplicate id ...).
//!
//! Observers (independent of the engine's own checkers): `scan` reads every vault / resource
//! manager substate of the whole database; `events_of` decodes the resource events of a receipt.
#![allow(dead_code)]
use num_bigint::BigInt;
use radix_common::prelude::*;
use radix_engine::blueprints::pool::v1::constants::*;
use radix_engine::blueprints::resource::*;
use radix_engine::system::system_db_reader::SystemDatabaseReader;
use radix_engine::transaction::*;
use radix_engine_interface::blueprints::package::*;
use radix_engine_interface::blueprints::pool::*;
use radix_engine_interface::blueprints::resource::*;
use radix_engine_interface::prelude::*;
use radix_substate_store_impls::memory_db::InMemorySubstateDatabase;
use radix_substate_store_interface::interface::*;
use radix_transactions::manifest::*;
use radix_transactions::model::*;
use radix_transactions::prelude::*;
use scrypto_test::prelude::{LedgerSimulator, LedgerSimulatorBuilder, NoExtension};
use std::collections::{BTreeMap, BTreeSet};
use vh_common::*;

pub type Ledger = LedgerSimulator<NoExtension, InMemorySubstateDatabase>;

pub fn big(d: Decimal) -> BigInt {
    d.attos().to_string().parse::<BigInt>().unwrap()
}
pub fn dec_of(b: &BigInt) -> Decimal {
    Decimal::from_attos(I192::from_str(&b.to_string()).expect("fits I192"))
}
pub fn pow10(n: u32) -> BigInt {
    BigInt::from(10u8).pow(n)
}
pub fn unit() -> BigInt {
    pow10(18)
}

// ------------------------------------------------------------------------------------------------
// whole-database scan
// ------------------------------------------------------------------------------------------------

#[derive(Clone, Debug, PartialEq)]
pub struct ResInfo {
    pub nf: bool,
    pub divisibility: u8,
    /// TotalSupply field (attos) iff the resource tracks its supply
    pub supply: Option<BigInt>,
}

#[derive(Clone, Debug, Default, PartialEq)]
pub struct Scan {
    pub res: BTreeMap<ResourceAddress, ResInfo>,
    /// fungible vault -> (resource, liquid balance in attos)
    pub fvaults: BTreeMap<NodeId, (ResourceAddress, BigInt)>,
    /// non-fungible vault -> (resource, amount field in attos, ids in the index)
    pub nvaults: BTreeMap<NodeId, (ResourceAddress, BigInt, BTreeSet<NonFungibleLocalId>)>,
    pub nodes: usize,
}

impl Scan {
    /// sum of all vault balances per resource (fungible: liquid attos; non-fungible: number of ids * 10^18)
    pub fn sums(&self) -> BTreeMap<ResourceAddress, BigInt> {
        let mut m: BTreeMap<ResourceAddress, BigInt> = BTreeMap::new();
        for r in self.res.keys() {
            m.insert(*r, BigInt::from(0));
        }
        for (r, b) in self.fvaults.values() {
            *m.entry(*r).or_default() += b;
        }
        for (r, _, ids) in self.nvaults.values() {
            *m.entry(*r).or_default() += BigInt::from(ids.len()) * unit();
        }
        m
    }
    pub fn ids_of(&self, r: &ResourceAddress) -> Vec<NonFungibleLocalId> {
        let mut v = Vec::new();
        for (rr, _, ids) in self.nvaults.values() {
            if rr == r {
                v.extend(ids.iter().cloned());
            }
        }
        v
    }
}

pub fn scan(db: &InMemorySubstateDatabase) -> Scan {
    let reader = SystemDatabaseReader::new(db);
    let mut nodes: BTreeSet<NodeId> = BTreeSet::new();
    for (n, _) in db.read_partition_keys() {
        nodes.insert(n);
    }
    let mut s = Scan::default();
    s.nodes = nodes.len();
    for n in nodes {
        let Some(et) = n.entity_type() else { continue };
        match et {
            EntityType::GlobalFungibleResourceManager => {
                let info = reader.get_object_info(n).expect("resource manager type info");
                let tracked = info.blueprint_info.features.contains("track_total_supply");
                let divisibility = reader
                    .read_typed_object_field::<FungibleResourceManagerDivisibilityFieldPayload>(
                        &n,
                        ModuleId::Main,
                        FungibleResourceManagerField::Divisibility.field_index(),
                    )
                    .expect("divisibility")
                    .fully_update_and_into_latest_version();
                let supply = if tracked {
                    Some(big(reader
                        .read_typed_object_field::<FungibleResourceManagerTotalSupplyFieldPayload>(
                            &n,
                            ModuleId::Main,
                            FungibleResourceManagerField::TotalSupply.field_index(),
                        )
                        .expect("total supply of a tracking resource")
                        .fully_update_and_into_latest_version()))
                } else {
                    None
                };
                s.res.insert(ResourceAddress::new_or_panic(n.0), ResInfo { nf: false, divisibility, supply });
            }
            EntityType::GlobalNonFungibleResourceManager => {
                let info = reader.get_object_info(n).expect("resource manager type info");
                let tracked = info.blueprint_info.features.contains("track_total_supply");
                let supply = if tracked {
                    Some(big(reader
                        .read_typed_object_field::<NonFungibleResourceManagerTotalSupplyFieldPayload>(
                            &n,
                            ModuleId::Main,
                            NonFungibleResourceManagerField::TotalSupply.field_index(),
                        )
                        .expect("total supply of a tracking resource")
                        .fully_update_and_into_latest_version()))
                } else {
                    None
                };
                s.res.insert(ResourceAddress::new_or_panic(n.0), ResInfo { nf: true, divisibility: 0, supply });
            }
            EntityType::InternalFungibleVault => {
                let info = reader.get_object_info(n).expect("vault type info");
                let r = ResourceAddress::new_or_panic(info.get_outer_object().into_node_id().0);
                let bal = reader
                    .read_typed_object_field::<FungibleVaultBalanceFieldPayload>(&n, ModuleId::Main, FungibleVaultField::Balance.field_index())
                    .expect("vault balance")
                    .fully_update_and_into_latest_version();
                s.fvaults.insert(n, (r, big(bal.amount())));
            }
            EntityType::InternalNonFungibleVault => {
                let info = reader.get_object_info(n).expect("vault type info");
                let r = ResourceAddress::new_or_panic(info.get_outer_object().into_node_id().0);
                let bal = reader
                    .read_typed_object_field::<NonFungibleVaultBalanceFieldPayload>(&n, ModuleId::Main, NonFungibleVaultField::Balance.field_index())
                    .expect("vault balance")
                    .fully_update_and_into_latest_version();
                let ids: BTreeSet<NonFungibleLocalId> = reader
                    .collection_iter(&n, ModuleId::Main, NonFungibleVaultCollection::NonFungibleIndex.collection_index())
                    .expect("id index")
                    .map(|(key, _)| scrypto_decode::<NonFungibleLocalId>(&key.into_map()).expect("id key"))
                    .collect();
                s.nvaults.insert(n, (r, big(bal.amount), ids));
            }
            _ => {}
        }
    }
    s
}

// ------------------------------------------------------------------------------------------------
// resource events of a receipt
// ------------------------------------------------------------------------------------------------

#[derive(Clone, Debug, PartialEq)]
pub enum Ev {
    MintF(ResourceAddress, BigInt),
    BurnF(ResourceAddress, BigInt),
    MintN(ResourceAddress, Vec<NonFungibleLocalId>),
    BurnN(ResourceAddress, Vec<NonFungibleLocalId>),
    Withdraw(NodeId, BigInt),
    Deposit(NodeId, BigInt),
    Recall(NodeId, BigInt),
    WithdrawN(NodeId, Vec<NonFungibleLocalId>),
    DepositN(NodeId, Vec<NonFungibleLocalId>),
    RecallN(NodeId, Vec<NonFungibleLocalId>),
    LockFee(NodeId, BigInt),
    PayFee(NodeId, BigInt),
    VaultCreate(ResourceAddress, NodeId),
}

/// Decodes the resource-package events (by emitter entity type and event name).
pub fn events_of(events: &[(EventTypeIdentifier, Vec<u8>)]) -> Vec<Ev> {
    let mut out = Vec::new();
    for (id, data) in events {
        let EventTypeIdentifier(Emitter::Method(node, ModuleId::Main), name) = id else { continue };
        let Some(et) = node.entity_type() else { continue };
        let name = name.as_str();
        match et {
            EntityType::GlobalFungibleResourceManager => {
                let r = ResourceAddress::new_or_panic(node.0);
                match name {
                    "MintFungibleResourceEvent" => out.push(Ev::MintF(r, big(scrypto_decode::<MintFungibleResourceEvent>(data).unwrap().amount))),
                    "BurnFungibleResourceEvent" => out.push(Ev::BurnF(r, big(scrypto_decode::<BurnFungibleResourceEvent>(data).unwrap().amount))),
                    "VaultCreationEvent" => out.push(Ev::VaultCreate(r, scrypto_decode::<VaultCreationEvent>(data).unwrap().vault_id)),
                    _ => {}
                }
            }
            EntityType::GlobalNonFungibleResourceManager => {
                let r = ResourceAddress::new_or_panic(node.0);
                match name {
                    "MintNonFungibleResourceEvent" => {
                        out.push(Ev::MintN(r, scrypto_decode::<MintNonFungibleResourceEvent>(data).unwrap().ids.into_iter().collect()))
                    }
                    "BurnNonFungibleResourceEvent" => {
                        out.push(Ev::BurnN(r, scrypto_decode::<BurnNonFungibleResourceEvent>(data).unwrap().ids.into_iter().collect()))
                    }
                    "VaultCreationEvent" => out.push(Ev::VaultCreate(r, scrypto_decode::<VaultCreationEvent>(data).unwrap().vault_id)),
                    _ => {}
                }
            }
            EntityType::InternalFungibleVault => match name {
                "WithdrawEvent" => out.push(Ev::Withdraw(*node, big(scrypto_decode::<fungible_vault::WithdrawEvent>(data).unwrap().amount))),
                "DepositEvent" => out.push(Ev::Deposit(*node, big(scrypto_decode::<fungible_vault::DepositEvent>(data).unwrap().amount))),
                "RecallEvent" => out.push(Ev::Recall(*node, big(scrypto_decode::<fungible_vault::RecallEvent>(data).unwrap().amount))),
                "LockFeeEvent" => out.push(Ev::LockFee(*node, big(scrypto_decode::<fungible_vault::LockFeeEvent>(data).unwrap().amount))),
                "PayFeeEvent" => out.push(Ev::PayFee(*node, big(scrypto_decode::<fungible_vault::PayFeeEvent>(data).unwrap().amount))),
                _ => {}
            },
            EntityType::InternalNonFungibleVault => match name {
                "WithdrawEvent" => {
                    out.push(Ev::WithdrawN(*node, scrypto_decode::<non_fungible_vault::WithdrawEvent>(data).unwrap().ids.into_iter().collect()))
                }
                "DepositEvent" => {
                    out.push(Ev::DepositN(*node, scrypto_decode::<non_fungible_vault::DepositEvent>(data).unwrap().ids.into_iter().collect()))
                }
                "RecallEvent" => {
                    out.push(Ev::RecallN(*node, scrypto_decode::<non_fungible_vault::RecallEvent>(data).unwrap().ids.into_iter().collect()))
                }
                _ => {}
            },
            _ => {}
        }
    }
    out
}

// ------------------------------------------------------------------------------------------------
// the world
// ------------------------------------------------------------------------------------------------

#[derive(Clone, Debug)]
pub struct Acct {
    pub pk: Secp256k1PublicKey,
    pub addr: ComponentAddress,
}
#[derive(Clone, Debug)]
pub struct FRes {
    pub addr: ResourceAddress,
    pub div: u8,
    pub tracked: bool,
}
#[derive(Clone, Debug)]
pub struct NRes {
    pub addr: ResourceAddress,
    pub tracked: bool,
    pub next_id: u64,
}
#[derive(Clone, Debug)]
pub struct PoolInfo {
    pub addr: ComponentAddress,
    pub unit: ResourceAddress,
    pub res: Vec<usize>,
}

#[derive(Clone, Debug)]
pub enum Meta {
    None,
    CreateF { div: u8, tracked: bool },
    CreateN { tracked: bool, minted: u64 },
    MintN { idx: usize, upto: u64 },
    Pool { res: Vec<usize> },
    /// boundary script: a script fungible (slot name, divisibility, tracked)
    Script(&'static str, u8, bool),
    /// boundary script: a script non-fungible (slot name, tracked, ids minted)
    ScriptN(&'static str, bool, u64),
    ScriptPkg,
    ScriptComp(&'static str),
    ScriptRoleRes,
}

#[derive(Clone, Debug)]
pub enum Body {
    User(TransactionManifestV1, Vec<usize>),
    System(SystemTransactionManifestV1),
}

#[derive(Clone, Debug)]
pub struct Tx {
    pub label: &'static str,
    pub body: Body,
    pub meta: Meta,
    /// the generator expects this transaction to fail at run time
    pub expect_fail: bool,
}

pub struct World {
    pub ledger: Ledger,
    pub accts: Vec<Acct>,
    pub fres: Vec<FRes>,
    pub nres: Vec<NRes>,
    pub pools: Vec<PoolInfo>,
    pub validator: ComponentAddress,
    pub stake_unit: ResourceAddress,
    pub claim_nft: ResourceAddress,
    pub round: u64,
    pub max_fres: usize,
    pub max_nres: usize,
    pub script: Script,
}

fn all_roles_f() -> FungibleResourceRoles {
    FungibleResourceRoles {
        mint_roles: mint_roles! { minter => rule!(allow_all); minter_updater => rule!(deny_all); },
        burn_roles: burn_roles! { burner => rule!(allow_all); burner_updater => rule!(deny_all); },
        freeze_roles: freeze_roles! { freezer => rule!(allow_all); freezer_updater => rule!(deny_all); },
        recall_roles: recall_roles! { recaller => rule!(allow_all); recaller_updater => rule!(deny_all); },
        ..Default::default()
    }
}
fn all_roles_n() -> NonFungibleResourceRoles {
    NonFungibleResourceRoles {
        mint_roles: mint_roles! { minter => rule!(allow_all); minter_updater => rule!(deny_all); },
        burn_roles: burn_roles! { burner => rule!(allow_all); burner_updater => rule!(deny_all); },
        freeze_roles: freeze_roles! { freezer => rule!(allow_all); freezer_updater => rule!(deny_all); },
        recall_roles: recall_roles! { recaller => rule!(allow_all); recaller_updater => rule!(deny_all); },
        ..Default::default()
    }
}

pub fn nf_ids(lo: u64, hi: u64) -> Vec<NonFungibleLocalId> {
    (lo..hi).map(NonFungibleLocalId::integer).collect()
}

impl World {
    /// `new` under catch_unwind: a ledger whose bootstrap or account set-up fails is reported, not a crash
    pub fn try_new() -> Result<World, String> {
        catch(|| World::new())
    }

    pub fn new() -> World {
        let mut ledger = LedgerSimulatorBuilder::new().without_kernel_trace().build();
        let mut accts = Vec::new();
        for _ in 0..4 {
            let (pk, _sk, addr) = ledger.new_allocated_account();
            accts.push(Acct { pk, addr });
        }
        let vkey = Secp256k1PrivateKey::from_u64(1u64).unwrap().public_key();
        let validator = ledger.get_active_validator_with_key(&vkey);
        let vinfo = ledger.get_validator_info(validator);
        World {
            ledger,
            accts,
            fres: Vec::new(),
            nres: Vec::new(),
            pools: Vec::new(),
            validator,
            stake_unit: vinfo.stake_unit_resource,
            claim_nft: vinfo.claim_nft,
            round: 1,
            max_fres: 9,
            max_nres: 6,
            script: Script::default(),
        }
    }

    pub fn db(&self) -> &InMemorySubstateDatabase {
        self.ledger.substate_db()
    }

    pub fn proofs(&self, signers: &[usize]) -> BTreeSet<NonFungibleGlobalId> {
        signers.iter().map(|i| NonFungibleGlobalId::from_public_key(&self.accts[*i].pk)).collect()
    }

    /// The executable of `tx` for the given nonce (the same nonce gives the same transaction hash).
    pub fn executable(&self, tx: &Tx, nonce: u32) -> Result<ExecutableTransaction, String> {
        match &tx.body {
            Body::User(m, signers) => m.clone().into_executable_with_proofs(nonce, self.proofs(signers), self.ledger.transaction_validator()),
            Body::System(m) => m.clone().into_executable_with_proofs(
                nonce,
                btreeset![system_execution(SystemExecution::Validator)],
                self.ledger.transaction_validator(),
            ),
        }
    }

    pub fn config(tx: &Tx) -> ExecutionConfig {
        match &tx.body {
            Body::User(..) => ExecutionConfig::for_test_transaction().with_kernel_trace(false),
            Body::System(..) => ExecutionConfig::for_system_transaction(NetworkDefinition::simulator()),
        }
    }

    /// Executes and commits; `Err` = host panic message.
    pub fn run(&mut self, tx: &Tx) -> Result<TransactionReceipt, String> {
        let nonce = self.ledger.next_transaction_nonce();
        let exe = self.executable(tx, nonce)?;
        let cfg = Self::config(tx);
        let ledger = &mut self.ledger;
        let receipt = catch(std::panic::AssertUnwindSafe(|| ledger.execute_transaction(exe, cfg)))?;
        self.observe(tx, &receipt);
        Ok(receipt)
    }

    /// Registers what a committed transaction created.
    pub fn observe(&mut self, tx: &Tx, receipt: &TransactionReceipt) {
        let TransactionResult::Commit(c) = &receipt.result else { return };
        if !matches!(c.outcome, TransactionOutcome::Success(_)) {
            return;
        }
        match &tx.meta {
            Meta::None => {}
            Meta::CreateF { div, tracked } => {
                for r in c.new_resource_addresses() {
                    self.fres.push(FRes { addr: *r, div: *div, tracked: *tracked });
                }
            }
            Meta::CreateN { tracked, minted } => {
                for r in c.new_resource_addresses() {
                    self.nres.push(NRes { addr: *r, tracked: *tracked, next_id: *minted + 1 });
                }
            }
            Meta::MintN { idx, upto } => {
                self.nres[*idx].next_id = self.nres[*idx].next_id.max(*upto);
            }
            Meta::Script(_, div, tracked) => {
                for r in c.new_resource_addresses() {
                    let f = FRes { addr: *r, div: *div, tracked: *tracked };
                    self.fres.push(f.clone());
                    self.script.f.push(f);
                }
            }
            Meta::ScriptN(_, tracked, minted) => {
                for r in c.new_resource_addresses() {
                    let n = NRes { addr: *r, tracked: *tracked, next_id: *minted + 20 };
                    self.nres.push(n.clone());
                    self.script.n.push(n);
                }
            }
            Meta::ScriptPkg => {
                self.script.pkg = c.new_package_addresses().first().cloned();
            }
            Meta::ScriptComp(which) => {
                if *which == "R" {
                    self.script.rcomp = c.new_component_addresses().first().cloned();
                } else {
                    self.script.locker = c.new_component_addresses().first().cloned();
                    self.script.locker_badge = c.new_resource_addresses().first().cloned();
                }
            }
            Meta::ScriptRoleRes => {
                self.script.role_res = c.new_resource_addresses().first().cloned();
            }
            Meta::Pool { res } => {
                let unit = c.new_resource_addresses()[0];
                let addr = c.new_component_addresses()[0];
                // pool units are ordinary tracked fungibles of divisibility 18: make them transferable too
                self.fres.push(FRes { addr: unit, div: 18, tracked: true });
                self.pools.push(PoolInfo { addr, unit, res: res.clone() });
            }
        }
        if tx.label == "round" {
            self.round += 1;
        }
    }

    pub fn balance(&mut self, a: usize, r: ResourceAddress) -> BigInt {
        big(self.ledger.get_component_balance(self.accts[a].addr, r))
    }
    pub fn vault_of(&mut self, a: usize, r: ResourceAddress) -> Option<NodeId> {
        self.ledger.get_component_vaults(self.accts[a].addr, r).first().cloned()
    }
    pub fn ids_in(&mut self, a: usize, r: ResourceAddress) -> Vec<NonFungibleLocalId> {
        match self.vault_of(a, r) {
            Some(v) => self.ledger.inspect_non_fungible_vault(v).map(|(_, it)| it.collect()).unwrap_or_default(),
            None => vec![],
        }
    }

    /// an account that holds some of `r` (random among the holders)
    pub fn holder(&mut self, rng: &mut Rng, r: ResourceAddress) -> Option<usize> {
        let mut order: Vec<usize> = (0..self.accts.len()).collect();
        rng.shuffle(&mut order);
        for a in order {
            if self.vault_of(a, r).is_some() && self.balance(a, r) > BigInt::from(0) {
                return Some(a);
            }
        }
        None
    }

    fn step_of(div: u8) -> BigInt {
        pow10(18 - div as u32)
    }

    /// a random amount (attos): mostly a valid multiple of the resource's step not above `avail`
    fn amount(rng: &mut Rng, div: u8, avail: &BigInt, allow_bad: bool) -> (BigInt, bool) {
        let st = Self::step_of(div);
        let k: BigInt = avail / &st;
        let zero = BigInt::from(0);
        if allow_bad {
            match rng.below(12) {
                0 => return (avail + &st, true),                     // one step too much
                1 if div < 18 => return (&st / 10 * 3, true),        // below the divisibility
                2 => return (BigInt::from(-1) * &st, true),          // negative
                _ => {}
            }
        }
        if k <= zero {
            return (zero, false);
        }
        let kk: u64 = if k > BigInt::from(1_000_000u64) { 1_000_000 } else { k.to_string().parse().unwrap() };
        let n = match rng.below(6) {
            0 => k.clone(),                                   // everything
            1 => BigInt::from(1),                             // one step
            2 => BigInt::from(0),                             // zero
            _ => BigInt::from(1 + rng.below(kk)),
        };
        (n * st, false)
    }

    fn fee_prefix(&mut self, rng: &mut Rng, b: ManifestBuilder, signers: &mut Vec<usize>) -> ManifestBuilder {
        match rng.below(10) {
            0 | 1 => {
                // pay from an account; sometimes add a contingent lock from another one
                let a = rng.usize_below(self.accts.len());
                signers.push(a);
                let mut b = b.lock_fee(self.accts[a].addr, dec!(100));
                if rng.chance(1, 2) {
                    let c = rng.usize_below(self.accts.len());
                    signers.push(c);
                    b = b.lock_contingent_fee(self.accts[c].addr, Decimal::from(1 + rng.below(20)));
                }
                b
            }
            2 => {
                let a = rng.usize_below(self.accts.len());
                signers.push(a);
                b.lock_fee_from_faucet().lock_contingent_fee(self.accts[a].addr, Decimal::from(1 + rng.below(50)))
            }
            _ => b.lock_fee_from_faucet(),
        }
    }

    /// The next random transaction for the current state of the world.
    pub fn next_tx(&mut self, rng: &mut Rng) -> Tx {
        for _ in 0..20 {
            if let Some(tx) = self.try_next_tx(rng) {
                return tx;
            }
        }
        self.tx_free_xrd(rng)
    }

    fn user(label: &'static str, b: ManifestBuilder, signers: Vec<usize>, meta: Meta, expect_fail: bool) -> Tx {
        let mut s = signers;
        s.sort();
        s.dedup();
        Tx { label, body: Body::User(b.build(), s), meta, expect_fail }
    }

    fn tx_free_xrd(&mut self, rng: &mut Rng) -> Tx {
        let a = rng.usize_below(self.accts.len());
        let b = ManifestBuilder::new().lock_fee_from_faucet().get_free_xrd_from_faucet().try_deposit_entire_worktop_or_abort(self.accts[a].addr, None);
        Self::user("free_xrd", b, vec![], Meta::None, false)
    }

    fn try_next_tx(&mut self, rng: &mut Rng) -> Option<Tx> {
        let na = self.accts.len();
        let a = rng.usize_below(na);
        let a2 = rng.usize_below(na);
        let mut signers = vec![];
        let need_f = self.fres.len() < 2;
        let need_n = self.nres.is_empty();
        let k = if need_f {
            0
        } else if need_n {
            5
        } else {
            rng.below(100)
        };
        let b0 = ManifestBuilder::new();
        match k {
            // ---- create fungible -------------------------------------------------------------
            0..=4 => {
                if self.fres.len() >= self.max_fres {
                    return None;
                }
                let div = *rng.pick(&[0u8, 2, 18, 18]);
                let tracked = rng.chance(2, 3);
                let initial = if rng.chance(3, 4) { Some(dec_of(&(BigInt::from(1 + rng.below(100_000)) * pow10(18)))) } else { None };
                let b = self
                    .fee_prefix(rng, b0, &mut signers)
                    .create_fungible_resource(OwnerRole::None, tracked, div, all_roles_f(), metadata!(), initial)
                    .try_deposit_entire_worktop_or_abort(self.accts[a].addr, None);
                Some(Self::user("create_fungible", b, signers, Meta::CreateF { div, tracked }, false))
            }
            // ---- create non-fungible ---------------------------------------------------------
            5..=7 => {
                if self.nres.len() >= self.max_nres {
                    return None;
                }
                let tracked = rng.chance(2, 3);
                let n = rng.below(6);
                let entries: Option<Vec<(NonFungibleLocalId, ())>> =
                    if n == 0 { None } else { Some((1..=n).map(|i| (NonFungibleLocalId::integer(i), ())).collect()) };
                let b = self
                    .fee_prefix(rng, b0, &mut signers)
                    .create_non_fungible_resource(OwnerRole::None, NonFungibleIdType::Integer, tracked, all_roles_n(), metadata!(), entries)
                    .try_deposit_entire_worktop_or_abort(self.accts[a].addr, None);
                Some(Self::user("create_non_fungible", b, signers, Meta::CreateN { tracked, minted: n }, false))
            }
            // ---- mint fungible ---------------------------------------------------------------
            8..=17 => {
                let i = rng.usize_below(self.fres.len());
                let f = self.fres[i].clone();
                if self.pools.iter().any(|p| p.unit == f.addr) {
                    return None; // pool units are minted by the pool only
                }
                let st = Self::step_of(f.div);
                let (amt, bad) = match rng.below(14) {
                    0 => (BigInt::from(2).pow(152) / &st * &st, false),                 // the largest mintable amount
                    1 => (BigInt::from(2).pow(152) / &st * &st + &st, true),            // one step above the limit
                    2 => (BigInt::from(-1) * &st, true),
                    3 if f.div < 18 => (&st / 2, true),
                    4 => (BigInt::from(0), false),
                    _ => (BigInt::from(1 + rng.below(1_000_000)) * &st, false),
                };
                let b = self
                    .fee_prefix(rng, b0, &mut signers)
                    .mint_fungible(f.addr, dec_of(&amt))
                    .try_deposit_entire_worktop_or_abort(self.accts[a].addr, None);
                Some(Self::user("mint_fungible", b, signers, Meta::None, bad))
            }
            // ---- mint non-fungible -----------------------------------------------------------
            18..=24 => {
                let i = rng.usize_below(self.nres.len());
                let n = self.nres[i].clone();
                let cnt = 1 + rng.below(4);
                let dup = rng.chance(1, 8) && n.next_id > 1;
                let lo = if dup { n.next_id - 1 } else { n.next_id };
                let entries: Vec<(NonFungibleLocalId, ())> = (lo..lo + cnt).map(|x| (NonFungibleLocalId::integer(x), ())).collect();
                let b = self
                    .fee_prefix(rng, b0, &mut signers)
                    .mint_non_fungible(n.addr, entries)
                    .try_deposit_entire_worktop_or_abort(self.accts[a].addr, None);
                Some(Self::user("mint_non_fungible", b, signers, Meta::MintN { idx: i, upto: lo + cnt }, dup))
            }
            // ---- burn fungible ---------------------------------------------------------------
            25..=32 => {
                let i = rng.usize_below(self.fres.len());
                let f = self.fres[i].clone();
                let a = self.holder(rng, f.addr)?;
                let bal = self.balance(a, f.addr);
                let (amt, bad) = Self::amount(rng, f.div, &bal, true);
                signers.push(a);
                let b = self.fee_prefix(rng, b0, &mut signers);
                let b = if rng.chance(1, 2) {
                    b.burn_in_account(self.accts[a].addr, f.addr, dec_of(&amt))
                } else {
                    b.withdraw_from_account(self.accts[a].addr, f.addr, dec_of(&amt)).burn_all_from_worktop(f.addr)
                };
                Some(Self::user("burn_fungible", b, signers, Meta::None, bad))
            }
            // ---- burn non-fungible -----------------------------------------------------------
            33..=37 => {
                let i = rng.usize_below(self.nres.len());
                let n = self.nres[i].clone();
                let a = self.holder(rng, n.addr)?;
                let mut ids = self.ids_in(a, n.addr);
                if ids.is_empty() {
                    return None;
                }
                rng.shuffle(&mut ids);
                ids.truncate(1 + rng.usize_below(ids.len().min(3)));
                signers.push(a);
                let b = self.fee_prefix(rng, b0, &mut signers);
                let b = if rng.chance(1, 2) {
                    b.burn_non_fungibles_in_account(self.accts[a].addr, n.addr, ids)
                } else {
                    b.withdraw_non_fungibles_from_account(self.accts[a].addr, n.addr, ids).burn_all_from_worktop(n.addr)
                };
                Some(Self::user("burn_non_fungible", b, signers, Meta::None, false))
            }
            // ---- transfer fungible (incl. XRD) -----------------------------------------------
            38..=52 => {
                let (addr, div) = if rng.chance(1, 4) {
                    (XRD, 18)
                } else {
                    let f = rng.pick(&self.fres).clone();
                    (f.addr, f.div)
                };
                let a = self.holder(rng, addr)?;
                let bal = self.balance(a, addr);
                let avail = if addr == XRD { &bal / 2 } else { bal };
                let (amt, bad) = Self::amount(rng, div, &avail, true);
                let bad = bad && !(addr == XRD && amt > BigInt::from(0) && amt <= avail.clone() * 2);
                signers.push(a);
                let mut b = self.fee_prefix(rng, b0, &mut signers).withdraw_from_account(self.accts[a].addr, addr, dec_of(&amt));
                if rng.chance(1, 3) && !bad && amt > BigInt::from(0) {
                    // split over two accounts through a named bucket
                    let half = &amt / Self::step_of(div) / 2 * Self::step_of(div);
                    b = b.take_from_worktop(addr, dec_of(&half), "half").try_deposit_or_abort(self.accts[a2].addr, None, "half");
                }
                let b = b.try_deposit_entire_worktop_or_abort(self.accts[a2].addr, None);
                Some(Self::user("transfer_fungible", b, signers, Meta::None, bad))
            }
            // ---- transfer non-fungible -------------------------------------------------------
            53..=59 => {
                let use_claim = rng.chance(1, 5);
                let addr = if use_claim { self.claim_nft } else { rng.pick(&self.nres).addr };
                let a = self.holder(rng, addr)?;
                let mut ids = self.ids_in(a, addr);
                if ids.is_empty() {
                    return None;
                }
                rng.shuffle(&mut ids);
                ids.truncate(1 + rng.usize_below(ids.len().min(3)));
                let bad = rng.chance(1, 10);
                if bad {
                    ids.push(NonFungibleLocalId::integer(1_000_000 + rng.below(10)));
                }
                signers.push(a);
                let b = self
                    .fee_prefix(rng, b0, &mut signers)
                    .withdraw_non_fungibles_from_account(self.accts[a].addr, addr, ids)
                    .try_deposit_entire_worktop_or_abort(self.accts[a2].addr, None);
                Some(Self::user("transfer_non_fungible", b, signers, Meta::None, bad && !use_claim))
            }
            // ---- recall ----------------------------------------------------------------------
            60..=65 => {
                if rng.chance(1, 3) {
                    let n = rng.pick(&self.nres).clone();
                    let a = self.holder(rng, n.addr)?;
                    let v = self.vault_of(a, n.addr)?;
                    let mut ids = self.ids_in(a, n.addr);
                    if ids.is_empty() {
                        return None;
                    }
                    rng.shuffle(&mut ids);
                    ids.truncate(1 + rng.usize_below(ids.len().min(2)));
                    let b = self
                        .fee_prefix(rng, b0, &mut signers)
                        .recall_non_fungibles(InternalAddress::new_or_panic(v.0), ids)
                        .try_deposit_entire_worktop_or_abort(self.accts[a2].addr, None);
                    Some(Self::user("recall_non_fungible", b, signers, Meta::None, false))
                } else {
                    let f = rng.pick(&self.fres).clone();
                    if self.pools.iter().any(|p| p.unit == f.addr) {
                        return None;
                    }
                    let a = self.holder(rng, f.addr)?;
                    let v = self.vault_of(a, f.addr)?;
                    let bal = self.balance(a, f.addr);
                    let (amt, bad) = Self::amount(rng, f.div, &bal, true);
                    let b = self
                        .fee_prefix(rng, b0, &mut signers)
                        .recall(InternalAddress::new_or_panic(v.0), dec_of(&amt))
                        .try_deposit_entire_worktop_or_abort(self.accts[a2].addr, None);
                    Some(Self::user("recall_fungible", b, signers, Meta::None, bad))
                }
            }
            // ---- freeze / unfreeze -----------------------------------------------------------
            66..=69 => {
                let addr = if rng.chance(1, 3) { rng.pick(&self.nres).addr } else { rng.pick(&self.fres).addr };
                if self.pools.iter().any(|p| p.unit == addr) {
                    return None;
                }
                let a = self.holder(rng, addr)?;
                let v = self.vault_of(a, addr)?;
                let flags = match rng.below(4) {
                    0 => VaultFreezeFlags::WITHDRAW,
                    1 => VaultFreezeFlags::DEPOSIT,
                    2 => VaultFreezeFlags::BURN,
                    _ => VaultFreezeFlags::WITHDRAW | VaultFreezeFlags::DEPOSIT | VaultFreezeFlags::BURN,
                };
                let b = self.fee_prefix(rng, b0, &mut signers);
                let b = if rng.chance(1, 2) {
                    b.call_direct_access_method(InternalAddress::new_or_panic(v.0), VAULT_FREEZE_IDENT, VaultFreezeInput { to_freeze: flags })
                } else {
                    b.call_direct_access_method(InternalAddress::new_or_panic(v.0), VAULT_UNFREEZE_IDENT, VaultUnfreezeInput { to_unfreeze: flags })
                };
                Some(Self::user("freeze", b, signers, Meta::None, false))
            }
            // ---- staking ---------------------------------------------------------------------
            70..=76 => {
                signers.push(a);
                match rng.below(3) {
                    0 => {
                        let bal = self.balance(a, XRD);
                        let (amt, _) = Self::amount(rng, 18, &(bal / 4), false);
                        let b = self
                            .fee_prefix(rng, b0, &mut signers)
                            .withdraw_from_account(self.accts[a].addr, XRD, dec_of(&amt))
                            .take_all_from_worktop(XRD, "stake")
                            .stake_validator(self.validator, "stake")
                            .try_deposit_entire_worktop_or_abort(self.accts[a].addr, None);
                        Some(Self::user("stake", b, signers, Meta::None, false))
                    }
                    1 => {
                        let a = self.holder(rng, self.stake_unit)?;
                        signers.push(a);
                        let bal = self.balance(a, self.stake_unit);
                        if bal <= BigInt::from(0) {
                            return None;
                        }
                        let (amt, _) = Self::amount(rng, 18, &bal, false);
                        let b = self
                            .fee_prefix(rng, b0, &mut signers)
                            .withdraw_from_account(self.accts[a].addr, self.stake_unit, dec_of(&amt))
                            .take_all_from_worktop(self.stake_unit, "su")
                            .unstake_validator(self.validator, "su")
                            .try_deposit_entire_worktop_or_abort(self.accts[a].addr, None);
                        Some(Self::user("unstake", b, signers, Meta::None, false))
                    }
                    _ => {
                        let a = self.holder(rng, self.claim_nft)?;
                        signers.push(a);
                        let mut ids = self.ids_in(a, self.claim_nft);
                        if ids.is_empty() {
                            return None;
                        }
                        rng.shuffle(&mut ids);
                        ids.truncate(1);
                        let b = self
                            .fee_prefix(rng, b0, &mut signers)
                            .withdraw_non_fungibles_from_account(self.accts[a].addr, self.claim_nft, ids)
                            .take_all_from_worktop(self.claim_nft, "claim")
                            .claim_xrd(self.validator, "claim")
                            .try_deposit_entire_worktop_or_abort(self.accts[a].addr, None);
                        // fails when the unstake delay has not elapsed yet
                        Some(Self::user("claim", b, signers, Meta::None, false))
                    }
                }
            }
            // ---- pools -----------------------------------------------------------------------
            77..=86 => {
                if self.pools.len() < 2 && (self.pools.is_empty() || rng.chance(1, 3)) {
                    let cands: Vec<usize> = (0..self.fres.len()).filter(|i| !self.pools.iter().any(|p| p.unit == self.fres[*i].addr)).collect();
                    if cands.is_empty() {
                        return None;
                    }
                    let two = cands.len() >= 2 && rng.chance(1, 2);
                    let b = self.fee_prefix(rng, b0, &mut signers);
                    if two {
                        let i = *rng.pick(&cands);
                        let mut j = *rng.pick(&cands);
                        if i == j {
                            j = *cands.iter().find(|x| **x != i).unwrap();
                        }
                        let b = b.call_function(
                            POOL_PACKAGE,
                            TWO_RESOURCE_POOL_BLUEPRINT_IDENT,
                            TWO_RESOURCE_POOL_INSTANTIATE_IDENT,
                            TwoResourcePoolInstantiateManifestInput {
                                resource_addresses: (self.fres[i].addr.into(), self.fres[j].addr.into()),
                                pool_manager_rule: rule!(allow_all).into(),
                                owner_role: OwnerRole::None.into(),
                                address_reservation: None,
                            },
                        );
                        Some(Self::user("pool_create", b, signers, Meta::Pool { res: vec![i, j] }, false))
                    } else {
                        let i = *rng.pick(&cands);
                        let b = b.call_function(
                            POOL_PACKAGE,
                            ONE_RESOURCE_POOL_BLUEPRINT_IDENT,
                            ONE_RESOURCE_POOL_INSTANTIATE_IDENT,
                            OneResourcePoolInstantiateManifestInput {
                                resource_address: self.fres[i].addr.into(),
                                pool_manager_rule: rule!(allow_all).into(),
                                owner_role: OwnerRole::None.into(),
                                address_reservation: None,
                            },
                        );
                        Some(Self::user("pool_create", b, signers, Meta::Pool { res: vec![i] }, false))
                    }
                } else {
                    let p = rng.pick(&self.pools).clone();
                    if rng.chance(3, 5) {
                        let mut cand = None;
                        for x in 0..self.accts.len() {
                            let all = p.res.iter().all(|i| {
                                let addr = self.fres[*i].addr;
                                self.ledger.get_component_vaults(self.accts[x].addr, addr).first().is_some()
                                    && big(self.ledger.get_component_balance(self.accts[x].addr, addr)) > BigInt::from(0)
                            });
                            if all && (cand.is_none() || rng.chance(1, 2)) {
                                cand = Some(x);
                            }
                        }
                        let a = cand?;
                        signers.push(a);
                        // contribute
                        let mut b = self.fee_prefix(rng, b0, &mut signers);
                        let mut any = false;
                        for (k, i) in p.res.iter().enumerate() {
                            let f = self.fres[*i].clone();
                            let bal = self.balance(a, f.addr);
                            let (mut amt, _) = Self::amount(rng, f.div, &bal, false);
                            if amt == BigInt::from(0) && bal > BigInt::from(0) {
                                amt = Self::step_of(f.div).min(bal);
                            }
                            any |= amt > BigInt::from(0);
                            b = b
                                .withdraw_from_account(self.accts[a].addr, f.addr, dec_of(&amt))
                                .take_all_from_worktop(f.addr, format!("c{}", k));
                        }
                        let b = if p.res.len() == 1 {
                            b.with_name_lookup(|b, l| b.call_method(p.addr, "contribute", manifest_args!(l.bucket("c0"))))
                        } else {
                            b.with_name_lookup(|b, l| b.call_method(p.addr, "contribute", manifest_args!((l.bucket("c0"), l.bucket("c1")))))
                        };
                        let b = b.try_deposit_entire_worktop_or_abort(self.accts[a].addr, None);
                        Some(Self::user("pool_contribute", b, signers, Meta::None, !any))
                    } else {
                        let a = self.holder(rng, p.unit)?;
                        signers.push(a);
                        let bal = self.balance(a, p.unit);
                        if bal <= BigInt::from(0) {
                            return None;
                        }
                        let (amt, _) = Self::amount(rng, 18, &bal, false);
                        let b = self
                            .fee_prefix(rng, b0, &mut signers)
                            .withdraw_from_account(self.accts[a].addr, p.unit, dec_of(&amt))
                            .take_all_from_worktop(p.unit, "u")
                            .with_name_lookup(|b, l| b.call_method(p.addr, "redeem", manifest_args!(l.bucket("u"))))
                            .try_deposit_entire_worktop_or_abort(self.accts[a].addr, None);
                        Some(Self::user("pool_redeem", b, signers, Meta::None, false))
                    }
                }
            }
            // ---- epoch change ----------------------------------------------------------------
            87..=91 => {
                let st = self.ledger.get_consensus_manager_state();
                let next = st.round.number() + 1;
                let ts = self.ledger.get_current_proposer_timestamp_ms() + rng.below(120_000) as i64;
                let m = ManifestBuilder::new_system_v1()
                    .call_method(
                        CONSENSUS_MANAGER,
                        CONSENSUS_MANAGER_NEXT_ROUND_IDENT,
                        ConsensusManagerNextRoundInput {
                            round: Round::of(next),
                            proposer_timestamp_ms: ts,
                            leader_proposal_history: LeaderProposalHistory { gap_round_leaders: vec![], current_leader: 0, is_fallback: false },
                        },
                    )
                    .build();
                Some(Tx { label: "round", body: Body::System(m), meta: Meta::None, expect_fail: false })
            }
            // ---- run-time failures after moving resources -------------------------------------
            92..=96 => {
                let f = rng.pick(&self.fres).clone();
                if self.pools.iter().any(|p| p.unit == f.addr) {
                    return None;
                }
                let a = self.holder(rng, f.addr)?;
                let bal = self.balance(a, f.addr);
                let (amt, _) = Self::amount(rng, f.div, &bal, false);
                signers.push(a);
                let b = self
                    .fee_prefix(rng, b0, &mut signers)
                    .withdraw_from_account(self.accts[a].addr, f.addr, dec_of(&amt))
                    .mint_fungible(f.addr, dec_of(&Self::step_of(f.div)))
                    .try_deposit_entire_worktop_or_abort(self.accts[a2].addr, None)
                    .assert_worktop_contains(f.addr, dec_of(&Self::step_of(f.div)));
                Some(Self::user("fail_assert", b, signers, Meta::None, true))
            }
            _ => Some(self.tx_free_xrd(rng)),
        }
    }
}

/// short classification of a receipt for the distribution report
pub fn outcome_class(r: &TransactionReceipt) -> &'static str {
    match &r.result {
        TransactionResult::Commit(c) => match &c.outcome {
            TransactionOutcome::Success(_) => "success",
            TransactionOutcome::Failure(_) => "failure",
        },
        TransactionResult::Reject(_) => "reject",
        TransactionResult::Abort(_) => "abort",
    }
}

// ------------------------------------------------------------------------------------------------
// Coq printing (shared by c03 / c04): resources, vaults and non-fungible ids are interned to small N
// ------------------------------------------------------------------------------------------------

#[derive(Default)]
pub struct Intern {
    pub res: BTreeMap<ResourceAddress, u64>,
    pub vaults: BTreeMap<NodeId, u64>,
    pub ids: BTreeMap<(ResourceAddress, NonFungibleLocalId), u64>,
}

impl Intern {
    pub fn new() -> Intern {
        let mut i = Intern::default();
        i.res.insert(XRD, 0); // Model: XRD = 0
        i
    }
    pub fn r(&mut self, r: &ResourceAddress) -> u64 {
        let n = self.res.len() as u64;
        *self.res.entry(*r).or_insert(n)
    }
    pub fn v(&mut self, v: &NodeId) -> u64 {
        let n = self.vaults.len() as u64;
        *self.vaults.entry(*v).or_insert(n)
    }
    pub fn id(&mut self, r: &ResourceAddress, id: &NonFungibleLocalId) -> u64 {
        let n = self.ids.len() as u64;
        *self.ids.entry((*r, id.clone())).or_insert(n)
    }
    pub fn ids<'a>(&mut self, r: &ResourceAddress, ids: impl IntoIterator<Item = &'a NonFungibleLocalId>) -> String {
        let v: Vec<String> = ids.into_iter().map(|i| coq_n(self.id(r, i))).collect();
        coq_list(v)
    }
}

/// resource of a vault according to the scans (post first: vaults created by the transaction)
pub fn vault_res(v: &NodeId, a: &Scan, b: &Scan) -> Option<ResourceAddress> {
    for s in [a, b] {
        if let Some((r, _)) = s.fvaults.get(v) {
            return Some(*r);
        }
        if let Some((r, _, _)) = s.nvaults.get(v) {
            return Some(*r);
        }
    }
    None
}

/// the resource an event is about
pub fn ev_res(e: &Ev, pre: &Scan, post: &Scan) -> Option<ResourceAddress> {
    match e {
        Ev::MintF(r, _) | Ev::BurnF(r, _) | Ev::MintN(r, _) | Ev::BurnN(r, _) | Ev::VaultCreate(r, _) => Some(*r),
        Ev::Withdraw(v, _) | Ev::Deposit(v, _) | Ev::Recall(v, _) | Ev::LockFee(v, _) | Ev::PayFee(v, _) => vault_res(v, post, pre),
        Ev::WithdrawN(v, _) | Ev::DepositN(v, _) | Ev::RecallN(v, _) => vault_res(v, post, pre),
    }
}

pub fn coq_event(e: &Ev, it: &mut Intern, pre: &Scan, post: &Scan) -> String {
    let vr = |v: &NodeId| vault_res(v, post, pre).unwrap_or(XRD);
    match e {
        Ev::MintF(r, a) => format!("EvMintF {} {}", coq_n(it.r(r)), coq_z(a)),
        Ev::BurnF(r, a) => format!("EvBurnF {} {}", coq_n(it.r(r)), coq_z(a)),
        Ev::MintN(r, ids) => format!("EvMintN {} {}", coq_n(it.r(r)), it.ids(r, ids)),
        Ev::BurnN(r, ids) => format!("EvBurnN {} {}", coq_n(it.r(r)), it.ids(r, ids)),
        Ev::Withdraw(v, a) => format!("EvWithdraw {} {}", coq_n(it.v(v)), coq_z(a)),
        Ev::Deposit(v, a) => format!("EvDeposit {} {}", coq_n(it.v(v)), coq_z(a)),
        Ev::Recall(v, a) => format!("EvRecall {} {}", coq_n(it.v(v)), coq_z(a)),
        Ev::WithdrawN(v, ids) => format!("EvWithdrawN {} {}", coq_n(it.v(v)), it.ids(&vr(v), ids)),
        Ev::DepositN(v, ids) => format!("EvDepositN {} {}", coq_n(it.v(v)), it.ids(&vr(v), ids)),
        Ev::RecallN(v, ids) => format!("EvRecallN {} {}", coq_n(it.v(v)), it.ids(&vr(v), ids)),
        Ev::LockFee(v, a) => format!("EvLockFee {} {}", coq_n(it.v(v)), coq_z(a)),
        Ev::PayFee(v, a) => format!("EvPayFee {} {}", coq_n(it.v(v)), coq_z(a)),
        Ev::VaultCreate(r, v) => format!("EvVaultCreate {} {}", coq_n(it.r(r)), coq_n(it.v(v))),
    }
}

pub fn coq_rinfo(i: &ResInfo) -> String {
    format!("mkR {} {} {}", coq_bool(i.nf), coq_z(i.divisibility), coq_option(i.supply.as_ref().map(|s| coq_z(s))))
}

/// fungible / non-fungible vault lists of the given resources, as Coq terms
pub fn coq_vaults(s: &Scan, touched: &BTreeSet<ResourceAddress>, it: &mut Intern) -> (String, String) {
    let mut fv = Vec::new();
    for (v, (r, b)) in &s.fvaults {
        if touched.contains(r) {
            fv.push(format!("({}, ({}, {}))", coq_n(it.v(v)), coq_n(it.r(r)), coq_z(b)));
        }
    }
    let mut nv = Vec::new();
    for (v, (r, a, ids)) in &s.nvaults {
        if touched.contains(r) {
            nv.push(format!("({}, ({}, ({}, {})))", coq_n(it.v(v)), coq_n(it.r(r)), coq_z(a), it.ids(r, ids.iter())));
        }
    }
    (coq_list(fv), coq_list(nv))
}

/// contingency flags of the fee-lock calls of a manifest, in instruction order
pub fn lock_flags(tx: &Tx) -> Vec<bool> {
    let mut v = Vec::new();
    if let Body::User(m, _) = &tx.body {
        for i in &m.instructions {
            if let InstructionV1::CallMethod(c) = i {
                match c.method_name.as_str() {
                    "lock_fee" | "lock_fee_and_withdraw" | "lock_fee_and_withdraw_non_fungibles" => v.push(false),
                    "lock_contingent_fee" => v.push(true),
                    _ => {}
                }
            }
        }
    }
    v
}

/// Splits the decoded events of a committed receipt into (application part, fee-finalisation part):
/// finalize_fees_for_commit appends royalty deposits, one PayFee per fee lock, the validator-reward
/// deposit and the burn event, in this order, after everything else.
pub fn split_final(evs: &[Ev], c: &CommitResult) -> (Vec<Ev>, Vec<Ev>) {
    let mut n = evs.len();
    let zero = BigInt::from(0);
    if big(c.fee_destination.to_burn) > zero && n > 0 && matches!(&evs[n - 1], Ev::BurnF(r, a) if *r == XRD && *a == big(c.fee_destination.to_burn)) {
        n -= 1;
    }
    let rewards = big(c.fee_destination.to_proposer) + big(c.fee_destination.to_validator_set);
    if rewards != zero && n > 0 && matches!(&evs[n - 1], Ev::Deposit(_, a) if *a == rewards) {
        n -= 1;
    }
    while n > 0 && matches!(&evs[n - 1], Ev::PayFee(..)) {
        n -= 1;
    }
    let mut k = c.fee_destination.to_royalty_recipients.len();
    while k > 0 && n > 0 && matches!(&evs[n - 1], Ev::Deposit(..)) {
        n -= 1;
        k -= 1;
    }
    (evs[..n].to_vec(), evs[n..].to_vec())
}

/// the XRD vault that collects validator rewards
pub fn rewards_vault(db: &InMemorySubstateDatabase) -> NodeId {
    use radix_engine::blueprints::consensus_manager::*;
    let reader = SystemDatabaseReader::new(db);
    let rewards = reader
        .read_typed_object_field::<ConsensusManagerValidatorRewardsFieldPayload>(
            CONSENSUS_MANAGER.as_node_id(),
            ModuleId::Main,
            ConsensusManagerField::ValidatorRewards.field_index(),
        )
        .expect("validator rewards")
        .fully_update_and_into_latest_version();
    rewards.rewards_vault.0 .0
}

// ------------------------------------------------------------------------------------------------
// deterministic boundary family (identical for every seed; executed before the random stream)
// ------------------------------------------------------------------------------------------------
//
// Every comparison / rare branch of the modelled resource code is hit on both sides and at
// equality: check_mint_amount (negative, finer than the divisibility, == 2^152 limit, one step
// above), take_by_amount (== balance, one step above / below, zero, from an empty vault), put
// (empty bucket, first deposit = new vault, existing vault, zero-balance vault), burn (bucket,
// vault, zero, everything, over), recall (zero, exact, over, empty vault, then burn), supply tracking
// on and off for each, non-fungibles (empty mint, existing id, burnt id, mint+burn in one
// transaction, take by ids / by amount at count-1/count/count+1/fraction, last id of a vault, all
// ids), fee locks (plain, contingent on success and on failure, zero, two locks where only the last
// pays, split payment, exact balance, one atto over, rejected), royalties (package + component,
// failed transaction, claim), freeze flags, staking (claim too early / after the delay), pools
// (redeem everything), epoch change, and the object shapes C05 cares about (owned vaults inside
// key-value entries: account, locker, access controller; identity; validator; role and metadata
// updates; non-fungible data updates; data holding a reference to an internal node).

const ROYALTY_WASM: &[u8] = include_bytes!("../assets/c03/royalty.wasm");
const ROYALTY_RPD: &[u8] = include_bytes!("../assets/c03/royalty.rpd");

#[derive(Debug, Clone, ScryptoSbor, ManifestSbor)]
pub struct NameData {
    pub name: String,
}
impl NonFungibleData for NameData {
    const MUTABLE_FIELDS: &'static [&'static str] = &["name"];
}
#[derive(Debug, Clone, ScryptoSbor, ManifestSbor)]
pub struct RefData {
    pub target: InternalAddress,
}
impl NonFungibleData for RefData {
    const MUTABLE_FIELDS: &'static [&'static str] = &[];
}

#[derive(Clone, Debug, Default)]
pub struct Script {
    /// A = divisibility 18 tracked, B = divisibility 2 untracked, C = divisibility 0 tracked
    pub f: Vec<FRes>,
    /// T = tracked, U = untracked, W = with mutable NameData
    pub n: Vec<NRes>,
    pub pkg: Option<PackageAddress>,
    pub rcomp: Option<ComponentAddress>,
    pub locker: Option<ComponentAddress>,
    pub locker_badge: Option<ResourceAddress>,
    pub role_res: Option<ResourceAddress>,
}

fn limit() -> BigInt {
    BigInt::from(2).pow(152)
}

pub fn boundary_plan() -> Vec<(&'static str, usize)> {
    let mut p: Vec<(&'static str, usize)> = Vec::new();
    for r in 0..3 {
        p.push(("create_f_initial", r));
    }
    for c in ["create_f_none", "create_f_zero", "create_f_at_limit", "create_f_over_limit", "create_f_bad_div"] {
        p.push((c, 0));
    }
    for r in 0..3 {
        for c in ["mint_zero", "mint_one_step", "mint_at_limit", "mint_over_limit", "mint_negative"] {
            p.push((c, r));
        }
        if r > 0 {
            p.push(("mint_substep", r));
        }
    }
    for r in 0..3 {
        for c in ["take_zero_deposit_new_vault", "take_one_step", "take_over_by_one_step", "take_negative"] {
            p.push((c, r));
        }
        if r > 0 {
            p.push(("take_substep", r));
        }
        for c in ["take_under_by_one_step", "take_exact_balance_new_vault", "take_from_empty", "take_zero_from_empty", "deposit_into_zero_balance_vault"] {
            p.push((c, r));
        }
    }
    for r in 0..3 {
        for c in ["burn_bucket_one_step", "burn_vault_one_step", "burn_zero", "burn_over", "burn_vault_all", "mint_regular"] {
            p.push((c, r));
        }
    }
    for c in ["worktop_split_exact", "worktop_take_over"] {
        p.push((c, 0));
    }
    for r in 0..2 {
        for c in ["recall_zero", "recall_over", "recall_exact", "recall_zero_from_empty", "recall_then_burn"] {
            p.push((c, r));
        }
    }
    for c in [
        "nf_create_initial", "nf_create_none", "nf_create_named", "nf_mint_empty", "nf_mint_one", "nf_mint_existing", "nf_burn_one", "nf_remint_burnt",
        "nf_mint_burn_same_tx", "nf_remint_after_same_tx", "nf_take_ids_one_new_vault", "nf_take_ids_missing", "nf_take_amount_zero", "nf_take_amount_one",
        "nf_take_amount_fraction", "nf_take_amount_over", "nf_take_amount_all", "nf_deposit_back", "nf_burn_last_id", "nf_recall_last_id", "nf_recall_then_burn",
        "nf_recall_amount_one", "nf_take_amount_huge", "nf_burn_all", "nf_untracked_mint", "nf_untracked_burn", "nf_data_update", "nf_data_update_wrong_type", "nf_mint_wrong_data_type", "nf_data_internal_ref", "nf_create_empty_initial",
    ] {
        p.push((c, 0));
    }
    for c in [
        "fee_account_plain", "fee_contingent_success", "fee_contingent_failure", "fee_two_locks_last_pays", "fee_split_payment", "fee_lock_zero",
        "fee_lock_exact_balance", "fee_lock_over_balance", "fee_reject_insufficient", "fee_failure_plain", "fee_lock_exact_cost", "fee_lock_one_atto_short",
    ] {
        p.push((c, 0));
    }
    for c in ["royalty_publish", "royalty_instantiate", "royalty_paid", "royalty_free", "royalty_failed_tx", "royalty_usd", "royalty_claim"] {
        p.push((c, 0));
    }
    for c in ["freeze_fund", "frozen_withdraw_fails", "unfreeze_then_withdraw", "frozen_deposit_fails", "frozen_burn_fails", "unfreeze_all"] {
        p.push((c, 0));
    }
    for c in ["stake", "unstake_half", "claim_too_early", "round", "round", "claim_after_delay", "unstake_all"] {
        p.push((c, 0));
    }
    for c in ["pool_one_create", "pool_one_contribute", "pool_one_redeem_all", "pool_two_create", "pool_two_contribute", "pool_two_redeem_half"] {
        p.push((c, 0));
    }
    for c in [
        "create_access_controller", "create_identity", "locker_instantiate", "locker_store", "locker_claim", "metadata_global_ref", "role_res_create", "role_update",
        "create_validator",
    ] {
        p.push((c, 0));
    }
    p
}

impl World {
    fn sb(&self) -> ManifestBuilder {
        ManifestBuilder::new().lock_fee_from_faucet()
    }
    fn sf(&self, r: usize) -> FRes {
        self.script.f[r].clone()
    }
    fn at_limit(div: u8) -> BigInt {
        let st = Self::step_of(div);
        limit() / &st * &st
    }
    fn stx(label: &'static str, b: ManifestBuilder, signers: Vec<usize>, meta: Meta, expect_fail: bool) -> Tx {
        Self::user(label, b, signers, meta, expect_fail)
    }

    /// The k-th transaction of the deterministic boundary family (None when k is past the end or
    /// the step is not applicable in the current state).
    pub fn boundary_step(&mut self, k: usize) -> Option<(&'static str, Tx)> {
        let plan = boundary_plan();
        let (class, r) = *plan.get(k)?;
        let a0 = self.accts[0].addr;
        let a1 = self.accts[1].addr;
        let a2 = self.accts[2].addr;
        let a3 = self.accts[3].addr;
        let zero = BigInt::from(0);
        let tx = match class {
            // ------------------------------------------------------------- create fungible
            "create_f_initial" => {
                let (div, tracked) = [(18u8, true), (2, false), (0, true)][r];
                let b = self.sb().create_fungible_resource(OwnerRole::None, tracked, div, all_roles_f(), metadata!(), Some(Decimal::from(1000))).try_deposit_entire_worktop_or_abort(a0, None);
                Self::stx(class, b, vec![], Meta::Script(["A", "B", "C"][r], div, tracked), false)
            }
            "create_f_none" => {
                let b = self.sb().create_fungible_resource(OwnerRole::None, true, 18, all_roles_f(), metadata!(), None);
                Self::stx(class, b, vec![], Meta::None, false)
            }
            "create_f_zero" => {
                let b = self.sb().create_fungible_resource(OwnerRole::None, true, 18, all_roles_f(), metadata!(), Some(Decimal::ZERO)).try_deposit_entire_worktop_or_abort(a0, None);
                Self::stx(class, b, vec![], Meta::None, false)
            }
            "create_f_at_limit" => {
                let b = self.sb().create_fungible_resource(OwnerRole::None, true, 18, all_roles_f(), metadata!(), Some(dec_of(&limit()))).try_deposit_entire_worktop_or_abort(a3, None);
                Self::stx(class, b, vec![], Meta::None, false)
            }
            "create_f_over_limit" => {
                let b = self.sb().create_fungible_resource(OwnerRole::None, true, 18, all_roles_f(), metadata!(), Some(dec_of(&(limit() + 1)))).try_deposit_entire_worktop_or_abort(a3, None);
                Self::stx(class, b, vec![], Meta::None, true)
            }
            "create_f_bad_div" => {
                let b = self.sb().create_fungible_resource(OwnerRole::None, true, 19, all_roles_f(), metadata!(), None);
                Self::stx(class, b, vec![], Meta::None, true)
            }
            // ------------------------------------------------------------- mint
            "mint_zero" | "mint_one_step" | "mint_at_limit" | "mint_over_limit" | "mint_negative" | "mint_substep" | "mint_regular" => {
                let f = self.sf(r);
                let st = Self::step_of(f.div);
                let (amt, bad) = match class {
                    "mint_zero" => (zero.clone(), false),
                    "mint_one_step" => (st.clone(), false),
                    "mint_at_limit" => (Self::at_limit(f.div), false),
                    "mint_over_limit" => (Self::at_limit(f.div) + &st, true),
                    "mint_negative" => (-st.clone(), true),
                    "mint_substep" => (&st / 10, true),
                    _ => (BigInt::from(500) * pow10(18), false),
                };
                // the limit-sized mints go to account 3 so that account 0 keeps small balances
                let to = if class == "mint_at_limit" { a3 } else { a0 };
                let b = self.sb().mint_fungible(f.addr, dec_of(&amt)).try_deposit_entire_worktop_or_abort(to, None);
                Self::stx(class, b, vec![], Meta::None, bad)
            }
            // ------------------------------------------------------------- take / put
            "take_zero_deposit_new_vault" | "take_one_step" | "take_over_by_one_step" | "take_negative" | "take_substep" | "take_under_by_one_step" => {
                let f = self.sf(r);
                let st = Self::step_of(f.div);
                let bal = self.balance(0, f.addr);
                let (amt, bad) = match class {
                    "take_zero_deposit_new_vault" => (zero.clone(), false),
                    "take_one_step" => (st.clone(), false),
                    "take_over_by_one_step" => (&bal + &st, true),
                    "take_negative" => (-st.clone(), true),
                    "take_substep" => (&st / 10, true),
                    _ => (&bal - &st, false),
                };
                let to = if class == "take_under_by_one_step" { a2 } else { a1 };
                let b = self.sb().withdraw_from_account(a0, f.addr, dec_of(&amt)).try_deposit_entire_worktop_or_abort(to, None);
                Self::stx(class, b, vec![0], Meta::None, bad)
            }
            "take_exact_balance_new_vault" => {
                // account 0 holds exactly one step after take_under_by_one_step; everything goes to account 3's new vault
                let f = self.sf(r);
                let bal = self.balance(0, f.addr);
                let b = self.sb().withdraw_from_account(a0, f.addr, dec_of(&bal)).try_deposit_entire_worktop_or_abort(if r == 0 { a2 } else { a3 }, None);
                Self::stx(class, b, vec![0], Meta::None, false)
            }
            "take_from_empty" => {
                let f = self.sf(r);
                let b = self.sb().withdraw_from_account(a0, f.addr, dec_of(&Self::step_of(f.div))).try_deposit_entire_worktop_or_abort(a1, None);
                Self::stx(class, b, vec![0], Meta::None, true)
            }
            "take_zero_from_empty" => {
                let f = self.sf(r);
                let b = self.sb().withdraw_from_account(a0, f.addr, Decimal::ZERO).try_deposit_entire_worktop_or_abort(a1, None);
                Self::stx(class, b, vec![0], Meta::None, false)
            }
            "deposit_into_zero_balance_vault" => {
                let f = self.sf(r);
                let bal = self.balance(2, f.addr);
                let b = self.sb().withdraw_from_account(a2, f.addr, dec_of(&bal)).try_deposit_entire_worktop_or_abort(a0, None);
                Self::stx(class, b, vec![2], Meta::None, false)
            }
            // ------------------------------------------------------------- burn
            "burn_bucket_one_step" | "burn_vault_one_step" | "burn_zero" | "burn_over" | "burn_vault_all" => {
                let f = self.sf(r);
                let st = Self::step_of(f.div);
                let bal = self.balance(0, f.addr);
                let b = match class {
                    "burn_bucket_one_step" => self.sb().withdraw_from_account(a0, f.addr, dec_of(&st)).burn_all_from_worktop(f.addr),
                    "burn_vault_one_step" => self.sb().burn_in_account(a0, f.addr, dec_of(&st)),
                    "burn_zero" => self.sb().burn_in_account(a0, f.addr, Decimal::ZERO),
                    "burn_over" => self.sb().burn_in_account(a0, f.addr, dec_of(&(&bal + &st))),
                    _ => self.sb().burn_in_account(a0, f.addr, dec_of(&bal)),
                };
                Self::stx(class, b, vec![0], Meta::None, class == "burn_over")
            }
            "worktop_split_exact" | "worktop_take_over" => {
                let f = self.sf(0);
                let over = class == "worktop_take_over";
                let b = self
                    .sb()
                    .withdraw_from_account(a0, f.addr, dec!(10))
                    .take_from_worktop(f.addr, if over { dec!("10.000000000000000001") } else { dec!(10) }, "w")
                    .try_deposit_or_abort(a1, None, "w")
                    .try_deposit_entire_worktop_or_abort(a0, None);
                Self::stx(class, b, vec![0], Meta::None, over)
            }
            // ------------------------------------------------------------- recall (from account 1's vault)
            "recall_zero" | "recall_over" | "recall_exact" | "recall_zero_from_empty" | "recall_then_burn" => {
                let f = self.sf(r);
                let st = Self::step_of(f.div);
                let (holder, to) = if class == "recall_then_burn" { (3usize, a3) } else { (1usize, a3) };
                let v = self.vault_of(holder, f.addr)?;
                let bal = self.balance(holder, f.addr);
                let ia = InternalAddress::new_or_panic(v.0);
                let b = match class {
                    "recall_zero" | "recall_zero_from_empty" => self.sb().recall(ia, Decimal::ZERO).try_deposit_entire_worktop_or_abort(to, None),
                    "recall_over" => self.sb().recall(ia, dec_of(&(&bal + &st))).try_deposit_entire_worktop_or_abort(to, None),
                    "recall_exact" => self.sb().recall(ia, dec_of(&bal)).try_deposit_entire_worktop_or_abort(to, None),
                    _ => self.sb().recall(ia, dec_of(&bal.min(BigInt::from(3) * &st))).burn_all_from_worktop(f.addr),
                };
                Self::stx(class, b, vec![], Meta::None, class == "recall_over")
            }
            // ------------------------------------------------------------- non-fungibles
            "nf_create_initial" => {
                let entries: Vec<(NonFungibleLocalId, ())> = (1..=5u64).map(|i| (NonFungibleLocalId::integer(i), ())).collect();
                let b = self
                    .sb()
                    .create_non_fungible_resource(OwnerRole::None, NonFungibleIdType::Integer, true, all_roles_n(), metadata!(), Some(entries))
                    .try_deposit_entire_worktop_or_abort(a0, None);
                Self::stx(class, b, vec![], Meta::ScriptN("T", true, 5), false)
            }
            "nf_create_none" => {
                let b = self.sb().create_non_fungible_resource(OwnerRole::None, NonFungibleIdType::Integer, false, all_roles_n(), metadata!(), None::<Vec<(NonFungibleLocalId, ())>>);
                Self::stx(class, b, vec![], Meta::ScriptN("U", false, 0), false)
            }
            "nf_create_named" => {
                let entries = vec![(NonFungibleLocalId::integer(1), NameData { name: "one".into() })];
                let mut roles = all_roles_n();
                roles.non_fungible_data_update_roles = non_fungible_data_update_roles! { non_fungible_data_updater => rule!(allow_all); non_fungible_data_updater_updater => rule!(deny_all); };
                let b = self
                    .sb()
                    .create_non_fungible_resource(OwnerRole::None, NonFungibleIdType::Integer, true, roles, metadata!(), Some(entries))
                    .try_deposit_entire_worktop_or_abort(a0, None);
                Self::stx(class, b, vec![], Meta::ScriptN("W", true, 1), false)
            }
            "nf_mint_empty" | "nf_mint_one" | "nf_mint_existing" | "nf_remint_burnt" | "nf_remint_after_same_tx" | "nf_mint_burn_same_tx" => {
                let t = self.script.n.first()?.clone();
                let ids: Vec<u64> = match class {
                    "nf_mint_empty" => vec![],
                    "nf_mint_one" | "nf_remint_burnt" => vec![6],
                    "nf_mint_existing" => vec![1],
                    _ => vec![7],
                };
                let entries: Vec<(NonFungibleLocalId, ())> = ids.iter().map(|i| (NonFungibleLocalId::integer(*i), ())).collect();
                let b = self.sb().mint_non_fungible(t.addr, entries);
                let b = if class == "nf_mint_burn_same_tx" { b.burn_all_from_worktop(t.addr) } else { b.try_deposit_entire_worktop_or_abort(a0, None) };
                let bad = matches!(class, "nf_mint_existing" | "nf_remint_burnt" | "nf_remint_after_same_tx");
                Self::stx(class, b, vec![], Meta::MintN { idx: self.nres.iter().position(|x| x.addr == t.addr)?, upto: 8 }, bad)
            }
            "nf_burn_one" => {
                let t = self.script.n.first()?.clone();
                let b = self.sb().burn_non_fungibles_in_account(a0, t.addr, [NonFungibleLocalId::integer(6)]);
                Self::stx(class, b, vec![0], Meta::None, false)
            }
            "nf_take_ids_one_new_vault" | "nf_take_ids_missing" => {
                let t = self.script.n.first()?.clone();
                let id = if class == "nf_take_ids_missing" { 99 } else { 1 };
                let b = self.sb().withdraw_non_fungibles_from_account(a0, t.addr, [NonFungibleLocalId::integer(id)]).try_deposit_entire_worktop_or_abort(a1, None);
                Self::stx(class, b, vec![0], Meta::None, id == 99)
            }
            "nf_take_amount_zero" | "nf_take_amount_one" | "nf_take_amount_fraction" | "nf_take_amount_over" | "nf_take_amount_all" => {
                let t = self.script.n.first()?.clone();
                let cnt = self.ids_in(0, t.addr).len() as u64;
                let (amt, bad) = match class {
                    "nf_take_amount_zero" => (Decimal::ZERO, false),
                    "nf_take_amount_one" => (Decimal::ONE, false),
                    "nf_take_amount_fraction" => (dec!("1.5"), true),
                    "nf_take_amount_over" => (Decimal::from(cnt + 1), true),
                    _ => (Decimal::from(cnt), false),
                };
                let b = self.sb().withdraw_from_account(a0, t.addr, amt).try_deposit_entire_worktop_or_abort(a2, None);
                Self::stx(class, b, vec![0], Meta::None, bad)
            }
            "nf_deposit_back" => {
                let t = self.script.n.first()?.clone();
                let ids = self.ids_in(2, t.addr);
                let b = self.sb().withdraw_non_fungibles_from_account(a2, t.addr, ids).try_deposit_entire_worktop_or_abort(a0, None);
                Self::stx(class, b, vec![2], Meta::None, false)
            }
            "nf_burn_last_id" => {
                let t = self.script.n.first()?.clone();
                let ids = self.ids_in(1, t.addr);
                let b = self.sb().burn_non_fungibles_in_account(a1, t.addr, ids);
                Self::stx(class, b, vec![1], Meta::None, false)
            }
            "nf_recall_last_id" | "nf_recall_then_burn" => {
                let t = self.script.n.first()?.clone();
                // move one id into account 1's (now empty) vault and recall it in the same transaction
                let id = self.ids_in(0, t.addr).into_iter().next()?;
                let v = self.vault_of(1, t.addr)?;
                let b = self
                    .sb()
                    .withdraw_non_fungibles_from_account(a0, t.addr, [id.clone()])
                    .try_deposit_entire_worktop_or_abort(a1, None)
                    .recall_non_fungibles(InternalAddress::new_or_panic(v.0), [id]);
                let b = if class == "nf_recall_then_burn" { b.burn_all_from_worktop(t.addr) } else { b.try_deposit_entire_worktop_or_abort(a3, None) };
                Self::stx(class, b, vec![0], Meta::None, false)
            }
            "nf_recall_amount_one" => {
                let t = self.script.n.first()?.clone();
                let v = self.vault_of(0, t.addr)?;
                let b = self.sb().recall(InternalAddress::new_or_panic(v.0), Decimal::ONE).try_deposit_entire_worktop_or_abort(a0, None);
                Self::stx(class, b, vec![], Meta::None, false)
            }
            "nf_take_amount_huge" => {
                let t = self.script.n.first()?.clone();
                let b = self.sb().withdraw_from_account(a0, t.addr, Decimal::from(4294967296u64)).try_deposit_entire_worktop_or_abort(a2, None);
                Self::stx(class, b, vec![0], Meta::None, true)
            }
            "nf_create_empty_initial" => {
                let b = self
                    .sb()
                    .create_non_fungible_resource(OwnerRole::None, NonFungibleIdType::Integer, true, all_roles_n(), metadata!(), Some(Vec::<(NonFungibleLocalId, ())>::new()))
                    .try_deposit_entire_worktop_or_abort(a0, None);
                Self::stx(class, b, vec![], Meta::None, false)
            }
            "nf_burn_all" => {
                let t = self.script.n.first()?.clone();
                let ids = self.ids_in(0, t.addr);
                let b = self.sb().burn_non_fungibles_in_account(a0, t.addr, ids);
                Self::stx(class, b, vec![0], Meta::None, false)
            }
            "nf_untracked_mint" => {
                let u = self.script.n.get(1)?.clone();
                let entries: Vec<(NonFungibleLocalId, ())> = (1..=3u64).map(|i| (NonFungibleLocalId::integer(i), ())).collect();
                let b = self.sb().mint_non_fungible(u.addr, entries).try_deposit_entire_worktop_or_abort(a0, None);
                Self::stx(class, b, vec![], Meta::MintN { idx: self.nres.iter().position(|x| x.addr == u.addr)?, upto: 4 }, false)
            }
            "nf_untracked_burn" => {
                let u = self.script.n.get(1)?.clone();
                let b = self.sb().withdraw_from_account(a0, u.addr, Decimal::from(2)).burn_all_from_worktop(u.addr);
                Self::stx(class, b, vec![0], Meta::None, false)
            }
            "nf_data_update" => {
                let w = self.script.n.get(2)?.clone();
                let b = self.sb().update_non_fungible_data(w.addr, NonFungibleLocalId::integer(1), "name", "uno".to_string());
                Self::stx(class, b, vec![], Meta::None, false)
            }
            "nf_data_update_wrong_type" => {
                // the new value does not have the type the resource declared for the field: must be refused,
                // every stored value has to conform to its schema
                let w = self.script.n.get(2)?.clone();
                let b = self.sb().update_non_fungible_data(w.addr, NonFungibleLocalId::integer(1), "name", 7u32);
                Self::stx(class, b, vec![], Meta::None, true)
            }
            "nf_mint_wrong_data_type" => {
                let w = self.script.n.get(2)?.clone();
                let b = self.sb().mint_non_fungible(w.addr, vec![(NonFungibleLocalId::integer(2), (7u32, 8u32))]).try_deposit_entire_worktop_or_abort(a0, None);
                Self::stx(class, b, vec![], Meta::None, true)
            }
            "nf_data_internal_ref" => {
                // data holding a reference to an internal node (a vault): must be refused, nothing stored may reference a non-global node
                let v = self.vault_of(0, XRD)?;
                let entries = vec![(NonFungibleLocalId::integer(1), RefData { target: InternalAddress::new_or_panic(v.0) })];
                let b = self
                    .sb()
                    .create_non_fungible_resource(OwnerRole::None, NonFungibleIdType::Integer, true, all_roles_n(), metadata!(), Some(entries))
                    .try_deposit_entire_worktop_or_abort(a0, None);
                Self::stx(class, b, vec![], Meta::None, true)
            }
            // ------------------------------------------------------------- fees
            "fee_account_plain" => Self::stx(class, ManifestBuilder::new().lock_fee(a0, dec!(10)).get_free_xrd_from_faucet().try_deposit_entire_worktop_or_abort(a0, None), vec![0], Meta::None, false),
            "fee_contingent_success" => Self::stx(class, self.sb().lock_contingent_fee(a1, dec!(5)).get_free_xrd_from_faucet().try_deposit_entire_worktop_or_abort(a1, None), vec![1], Meta::None, false),
            "fee_contingent_failure" => {
                Self::stx(class, self.sb().lock_contingent_fee(a1, dec!(5)).assert_worktop_contains(XRD, dec!(1)), vec![1], Meta::None, true)
            }
            "fee_two_locks_last_pays" => Self::stx(class, ManifestBuilder::new().lock_fee(a0, dec!(10)).lock_fee(a1, dec!(10)).get_free_xrd_from_faucet().try_deposit_entire_worktop_or_abort(a0, None), vec![0, 1], Meta::None, false),
            "fee_split_payment" => Self::stx(class, ManifestBuilder::new().lock_fee(a0, dec!(10)).lock_fee(a1, dec!("0.05")).get_free_xrd_from_faucet().try_deposit_entire_worktop_or_abort(a0, None), vec![0, 1], Meta::None, false),
            "fee_lock_zero" => Self::stx(class, self.sb().lock_fee(a0, Decimal::ZERO).get_free_xrd_from_faucet().try_deposit_entire_worktop_or_abort(a0, None), vec![0], Meta::None, false),
            "fee_lock_exact_balance" | "fee_lock_over_balance" | "fee_reject_insufficient" => {
                let bal = self.balance(3, XRD);
                let b = match class {
                    "fee_lock_exact_balance" => ManifestBuilder::new().lock_fee(a3, dec_of(&bal)).get_free_xrd_from_faucet().try_deposit_entire_worktop_or_abort(a0, None),
                    "fee_lock_over_balance" => self.sb().lock_fee(a3, dec_of(&(&bal + 1))).get_free_xrd_from_faucet().try_deposit_entire_worktop_or_abort(a0, None),
                    _ => ManifestBuilder::new().lock_fee(a3, dec_of(&(&bal + 1))).get_free_xrd_from_faucet().try_deposit_entire_worktop_or_abort(a0, None),
                };
                Self::stx(class, b, vec![3], Meta::None, class != "fee_lock_exact_balance")
            }
            "fee_lock_exact_cost" | "fee_lock_one_atto_short" => {
                // learn the exact cost of this very manifest shape without committing, then lock exactly that / one atto less
                let shape = |amt: Decimal| ManifestBuilder::new().lock_fee(a0, amt).get_free_xrd_from_faucet().try_deposit_entire_worktop_or_abort(a2, None);
                let probe = Self::stx(class, shape(dec!(10)), vec![0], Meta::None, false);
                let exe = self.executable(&probe, 7_000_000).ok()?;
                let receipt = self.ledger.execute_transaction_no_commit(exe, Self::config(&probe));
                let fs = &receipt.fee_summary;
                let total = big(fs.total_execution_cost_in_xrd) + big(fs.total_finalization_cost_in_xrd) + big(fs.total_tipping_cost_in_xrd) + big(fs.total_storage_cost_in_xrd) + big(fs.total_royalty_cost_in_xrd);
                let amt = if class == "fee_lock_exact_cost" { total } else { total - 1 };
                Self::stx(class, shape(dec_of(&amt)), vec![0], Meta::None, class != "fee_lock_exact_cost")
            }
            "fee_failure_plain" => Self::stx(class, self.sb().assert_worktop_contains(XRD, dec!(1)), vec![], Meta::None, true),
            // ------------------------------------------------------------- royalties
            "royalty_publish" => {
                let def: PackageDefinition = manifest_decode::<ManifestPackageDefinition>(ROYALTY_RPD).ok()?.try_into_typed().ok()?;
                let b = self.sb().publish_package_advanced(None, ROYALTY_WASM.to_vec(), def, metadata_init!(), OwnerRole::None);
                Self::stx(class, b, vec![], Meta::ScriptPkg, false)
            }
            "royalty_instantiate" => {
                let p = self.script.pkg?;
                let b = self.sb().call_function(p, "RoyaltyTest", "create_component_with_royalty", manifest_args!(dec!(3)));
                Self::stx(class, b, vec![], Meta::ScriptComp("R"), false)
            }
            "royalty_paid" | "royalty_free" | "royalty_failed_tx" | "royalty_usd" => {
                let c = self.script.rcomp?;
                let m = match class {
                    "royalty_paid" => "paid_method",
                    "royalty_free" => "free_method",
                    "royalty_failed_tx" => "paid_method_panic",
                    _ => "paid_method_usd",
                };
                Self::stx(class, self.sb().call_method(c, m, manifest_args!()), vec![], Meta::None, class == "royalty_failed_tx")
            }
            "royalty_claim" => {
                let c = self.script.rcomp?;
                Self::stx(class, self.sb().claim_component_royalties(c).try_deposit_entire_worktop_or_abort(a0, None), vec![], Meta::None, false)
            }
            // ------------------------------------------------------------- freeze (resource A, account 1)
            "freeze_fund" => {
                let f = self.sf(0);
                Self::stx(class, self.sb().mint_fungible(f.addr, dec!(10)).try_deposit_entire_worktop_or_abort(a1, None), vec![], Meta::None, false)
            }
            "frozen_withdraw_fails" | "unfreeze_then_withdraw" | "frozen_deposit_fails" | "frozen_burn_fails" | "unfreeze_all" => {
                let f = self.sf(0);
                let v = InternalAddress::new_or_panic(self.vault_of(1, f.addr)?.0);
                let fr = |b: ManifestBuilder, fl: VaultFreezeFlags| b.call_direct_access_method(v, VAULT_FREEZE_IDENT, VaultFreezeInput { to_freeze: fl });
                let un = |b: ManifestBuilder, fl: VaultFreezeFlags| b.call_direct_access_method(v, VAULT_UNFREEZE_IDENT, VaultUnfreezeInput { to_unfreeze: fl });
                let b = match class {
                    "frozen_withdraw_fails" => fr(self.sb(), VaultFreezeFlags::WITHDRAW).withdraw_from_account(a1, f.addr, dec!(1)).try_deposit_entire_worktop_or_abort(a0, None),
                    "unfreeze_then_withdraw" => un(fr(self.sb(), VaultFreezeFlags::WITHDRAW), VaultFreezeFlags::WITHDRAW).withdraw_from_account(a1, f.addr, dec!(1)).try_deposit_entire_worktop_or_abort(a0, None),
                    "frozen_deposit_fails" => fr(self.sb(), VaultFreezeFlags::DEPOSIT).mint_fungible(f.addr, dec!(1)).try_deposit_entire_worktop_or_abort(a1, None),
                    "frozen_burn_fails" => fr(self.sb(), VaultFreezeFlags::BURN).burn_in_account(a1, f.addr, dec!(1)),
                    _ => un(self.sb(), VaultFreezeFlags::WITHDRAW | VaultFreezeFlags::DEPOSIT | VaultFreezeFlags::BURN),
                };
                Self::stx(class, b, vec![1], Meta::None, class.ends_with("_fails"))
            }
            // ------------------------------------------------------------- staking / epochs
            "stake" => Self::stx(
                class,
                self.sb().withdraw_from_account(a0, XRD, dec!(100)).take_all_from_worktop(XRD, "s").stake_validator(self.validator, "s").try_deposit_entire_worktop_or_abort(a0, None),
                vec![0],
                Meta::None,
                false,
            ),
            "unstake_half" | "unstake_all" => {
                let bal = self.balance(0, self.stake_unit);
                let amt = if class == "unstake_half" { &bal / 2 } else { bal };
                Self::stx(
                    class,
                    self.sb().withdraw_from_account(a0, self.stake_unit, dec_of(&amt)).take_all_from_worktop(self.stake_unit, "u").unstake_validator(self.validator, "u").try_deposit_entire_worktop_or_abort(a0, None),
                    vec![0],
                    Meta::None,
                    false,
                )
            }
            "claim_too_early" | "claim_after_delay" => {
                let id = self.ids_in(0, self.claim_nft).into_iter().next()?;
                Self::stx(
                    class,
                    self.sb().withdraw_non_fungibles_from_account(a0, self.claim_nft, [id]).take_all_from_worktop(self.claim_nft, "c").claim_xrd(self.validator, "c").try_deposit_entire_worktop_or_abort(a0, None),
                    vec![0],
                    Meta::None,
                    class == "claim_too_early",
                )
            }
            "round" => {
                let st = self.ledger.get_consensus_manager_state();
                let ts = self.ledger.get_current_proposer_timestamp_ms() + 60_000;
                let m = ManifestBuilder::new_system_v1()
                    .call_method(
                        CONSENSUS_MANAGER,
                        CONSENSUS_MANAGER_NEXT_ROUND_IDENT,
                        ConsensusManagerNextRoundInput {
                            round: Round::of(st.round.number() + 1),
                            proposer_timestamp_ms: ts,
                            leader_proposal_history: LeaderProposalHistory { gap_round_leaders: vec![], current_leader: 0, is_fallback: false },
                        },
                    )
                    .build();
                Tx { label: "round", body: Body::System(m), meta: Meta::None, expect_fail: false }
            }
            // ------------------------------------------------------------- pools
            "pool_one_create" => {
                let i = self.fres.iter().position(|x| x.addr == self.sf(0).addr)?;
                let b = self.sb().call_function(
                    POOL_PACKAGE,
                    ONE_RESOURCE_POOL_BLUEPRINT_IDENT,
                    ONE_RESOURCE_POOL_INSTANTIATE_IDENT,
                    OneResourcePoolInstantiateManifestInput { resource_address: self.sf(0).addr.into(), pool_manager_rule: rule!(allow_all).into(), owner_role: OwnerRole::None.into(), address_reservation: None },
                );
                Self::stx(class, b, vec![], Meta::Pool { res: vec![i] }, false)
            }
            "pool_two_create" => {
                let i = self.fres.iter().position(|x| x.addr == self.sf(0).addr)?;
                let j = self.fres.iter().position(|x| x.addr == self.sf(2).addr)?;
                let b = self.sb().call_function(
                    POOL_PACKAGE,
                    TWO_RESOURCE_POOL_BLUEPRINT_IDENT,
                    TWO_RESOURCE_POOL_INSTANTIATE_IDENT,
                    TwoResourcePoolInstantiateManifestInput {
                        resource_addresses: (self.sf(0).addr.into(), self.sf(2).addr.into()),
                        pool_manager_rule: rule!(allow_all).into(),
                        owner_role: OwnerRole::None.into(),
                        address_reservation: None,
                    },
                );
                Self::stx(class, b, vec![], Meta::Pool { res: vec![i, j] }, false)
            }
            "pool_one_contribute" | "pool_two_contribute" => {
                let two = class == "pool_two_contribute";
                let p = self.pools.iter().find(|p| p.res.len() == if two { 2 } else { 1 })?.clone();
                let mut b = self.sb();
                for (k, i) in p.res.iter().enumerate() {
                    let f = self.fres[*i].clone();
                    b = b.withdraw_from_account(a0, f.addr, dec!(10)).take_all_from_worktop(f.addr, format!("c{}", k));
                }
                let b = if two {
                    b.with_name_lookup(|b, l| b.call_method(p.addr, "contribute", manifest_args!((l.bucket("c0"), l.bucket("c1")))))
                } else {
                    b.with_name_lookup(|b, l| b.call_method(p.addr, "contribute", manifest_args!(l.bucket("c0"))))
                };
                Self::stx(class, b.try_deposit_entire_worktop_or_abort(a0, None), vec![0], Meta::None, false)
            }
            "pool_one_redeem_all" | "pool_two_redeem_half" => {
                let two = class == "pool_two_redeem_half";
                let p = self.pools.iter().find(|p| p.res.len() == if two { 2 } else { 1 })?.clone();
                let bal = self.balance(0, p.unit);
                let amt = if two { &bal / 2 } else { bal };
                let b = self
                    .sb()
                    .withdraw_from_account(a0, p.unit, dec_of(&amt))
                    .take_all_from_worktop(p.unit, "u")
                    .with_name_lookup(|b, l| b.call_method(p.addr, "redeem", manifest_args!(l.bucket("u"))))
                    .try_deposit_entire_worktop_or_abort(a0, None);
                Self::stx(class, b, vec![0], Meta::None, false)
            }
            // ------------------------------------------------------------- object shapes (C05)
            "create_access_controller" => Self::stx(
                class,
                self.sb().withdraw_from_account(a0, XRD, dec!(10)).take_all_from_worktop(XRD, "asset").create_access_controller("asset", rule!(allow_all), rule!(allow_all), rule!(allow_all), Some(1)),
                vec![0],
                Meta::None,
                false,
            ),
            "create_identity" => Self::stx(class, self.sb().create_identity().try_deposit_entire_worktop_or_abort(a0, None), vec![], Meta::None, false),
            "locker_instantiate" => Self::stx(
                class,
                self.sb().call_function(LOCKER_PACKAGE, "AccountLocker", "instantiate_simple", manifest_args!(true)).try_deposit_entire_worktop_or_abort(a0, None),
                vec![],
                Meta::ScriptComp("L"),
                false,
            ),
            "locker_store" => {
                let l = self.script.locker?;
                let badge = self.script.locker_badge?;
                let b = self
                    .sb()
                    .create_proof_from_account_of_amount(a0, badge, dec!(1))
                    .withdraw_from_account(a0, XRD, dec!(7))
                    .take_all_from_worktop(XRD, "x")
                    .with_name_lookup(|b, lk| b.call_method(l, "store", manifest_args!(a1, lk.bucket("x"), false)));
                Self::stx(class, b, vec![0], Meta::None, false)
            }
            "locker_claim" => {
                let l = self.script.locker?;
                let b = self.sb().call_method(l, "claim", manifest_args!(a1, XRD, dec!(7))).try_deposit_entire_worktop_or_abort(a1, None);
                Self::stx(class, b, vec![1], Meta::None, false)
            }
            "metadata_global_ref" => {
                let md = metadata! { init { "owner_account" => GlobalAddress::from(a0), locked; "name" => "r".to_string(), updatable; } };
                let b = self.sb().create_fungible_resource(OwnerRole::None, true, 18, all_roles_f(), md, Some(dec!(1))).try_deposit_entire_worktop_or_abort(a0, None);
                Self::stx(class, b, vec![], Meta::None, false)
            }
            "role_res_create" => {
                let mut roles = all_roles_f();
                roles.mint_roles = mint_roles! { minter => rule!(allow_all); minter_updater => rule!(allow_all); };
                let b = self.sb().create_fungible_resource(OwnerRole::None, true, 18, roles, metadata!(), None);
                Self::stx(class, b, vec![], Meta::ScriptRoleRes, false)
            }
            "role_update" => {
                let r = self.script.role_res?;
                Self::stx(class, self.sb().set_role(r, ModuleId::Main, "minter", rule!(deny_all)), vec![], Meta::None, false)
            }
            "create_validator" => {
                let key = Secp256k1PrivateKey::from_u64(777).unwrap().public_key();
                let b = self
                    .sb()
                    .get_free_xrd_from_faucet()
                    .take_from_worktop(XRD, *radix_engine::system::bootstrap::DEFAULT_VALIDATOR_XRD_COST, "fee")
                    .create_validator(key, Decimal::ONE, "fee")
                    .try_deposit_entire_worktop_or_abort(a0, None);
                Self::stx(class, b, vec![], Meta::None, false)
            }
            _ => return None,
        };
        Some((class, tx))
    }
}
