//! C47: the REAL `ScryptoRuntime` (radix-engine/src/vm/wasm_runtime/scrypto_runtime.rs) on top of a real
//! `SystemService` (kernel + system over a bootstrapped in-memory ledger, no transaction), so that
//! `allocate_buffer` / `buffer_consume` can be driven with arbitrary histories, any ScryptoVmVersion
//! (buffer limit 32 or 4), zero-length and large buffers, and so that host functions that need no
//! actor (the hash functions) run their complete return path: read from WASM memory -> runtime ->
//! allocate_buffer -> (id,len) to WASM -> buffer_consume -> write_memory.
use radix_common::prelude::*;
use radix_engine::kernel::id_allocator::*;
use radix_engine::kernel::kernel::*;
use radix_engine::system::system::*;
use radix_engine::system::system_callback::*;
use radix_engine::system::system_modules::auth::AuthModule;
use radix_engine::system::system_modules::costing::*;
use radix_engine::system::system_modules::execution_trace::ExecutionTraceModule;
use radix_engine::system::system_modules::kernel_trace::KernelTraceModule;
use radix_engine::system::system_modules::limits::LimitsModule;
use radix_engine::system::system_modules::transaction_runtime::TransactionRuntimeModule;
use radix_engine::system::system_modules::*;
use radix_engine::track::*;
use radix_engine::updates::ProtocolBuilder;
use radix_engine::vm::wasm::*;
use radix_engine::vm::wasm_runtime::ScryptoRuntime;
use radix_engine::vm::*;
use radix_substate_store_impls::memory_db::*;

pub struct RealRuntimeHost {
    db: InMemorySubstateDatabase,
}

impl RealRuntimeHost {
    pub fn new() -> Self {
        let mut db = InMemorySubstateDatabase::standard();
        ProtocolBuilder::for_simulator().from_bootstrap_to_latest().commit_each_protocol_update(&mut db);
        RealRuntimeHost { db }
    }

    /// runs `f` with a fresh ScryptoRuntime (fresh buffer table) of the given version
    pub fn with_runtime<T>(&self, version: ScryptoVmVersion, f: impl for<'r> FnOnce(&mut Box<dyn WasmRuntime + 'r>) -> T) -> T {
        let mut track = Track::new(&self.db);
        let scrypto_vm = ScryptoVm::<DefaultWasmEngine>::default();
        let native_vm = NativeVm::new();
        let intent_hash = Hash([0; 32]);
        let mut system = System::new(
            SystemVersion::latest(),
            Vm { scrypto_vm: &scrypto_vm, native_vm, vm_boot: VmBoot::latest() },
            SystemModuleMixer::new(
                EnabledModules::for_notarized_transaction(),
                KernelTraceModule,
                TransactionRuntimeModule::new(NetworkDefinition::simulator(), intent_hash),
                AuthModule::new(),
                LimitsModule::babylon_genesis(),
                CostingModule {
                    current_depth: 0,
                    fee_reserve: SystemLoanFeeReserve::default(),
                    fee_table: FeeTable::latest(),
                    tx_payload_len: 0,
                    tx_num_of_signature_validations: 1,
                    config: CostingModuleConfig::babylon_genesis(),
                    cost_breakdown: None,
                    detailed_cost_breakdown: None,
                    on_apply_cost: Default::default(),
                },
                ExecutionTraceModule::new(MAX_EXECUTION_TRACE_DEPTH),
            ),
            SystemFinalization::no_nullifications(),
        );
        let mut id_allocator = IdAllocator::new(intent_hash);
        let mut kernel = Kernel::new_no_refs(&mut track, &mut id_allocator, &mut system);
        let mut api = SystemService::new(&mut kernel);
        let mut rt: Box<dyn WasmRuntime + '_> = Box::new(ScryptoRuntime::new(&mut api, PACKAGE_PACKAGE, "verif".to_string(), version));
        f(&mut rt)
    }
}
