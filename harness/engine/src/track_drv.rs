//! Shared driver for the C12 / C02 track-level harnesses (included with #[path] by the binaries).
//! Drives the real `radix_engine::track::Track` over an `InMemorySubstateDatabase`, records every
//! return value and every IOAccess passed to the callback, dumps the finalized tracked structure
//! and the StateUpdates, prints all of it as Coq terms of `RV.Corr.C12_run.case`, and evaluates the
//! direct oracle (a plain BTreeMap replay of the operations).
#![allow(dead_code)]
use radix_common::prelude::*;
use radix_engine::track::interface::{CommitableSubstateStore, IOAccess, NodeSubstates, StoreCommit, TrackedSubstateInfo};
use radix_engine::track::state_updates::{ReadOnly, TrackedSubstateValue, Write};
use radix_engine::track::Track;
use radix_engine_interface::types::IndexedScryptoValue;
use radix_substate_store_impls::memory_db::InMemorySubstateDatabase;
use radix_substate_store_interface::db_key_mapper::{DatabaseKeyMapper, SpreadPrefixKeyMapper};
use radix_substate_store_interface::interface::*;
use std::collections::{BTreeMap, BTreeSet};
use vh_common::*;

pub const NODES: usize = 4;
pub const PARTS: usize = 3; // partition p holds keys of kind p % 3: 0 = Field, 1 = Map, 2 = Sorted
pub const KEYS: [usize; 3] = [4, 6, 6];

pub type Val = (u32, usize); // (id, len())
pub type K3 = (usize, usize, usize); // node index, partition number, key rank

pub fn node_id(n: usize) -> NodeId {
    let mut node = [0u8; NodeId::LENGTH];
    node[0] = 0x5d;
    node[29] = n as u8;
    NodeId(node)
}
pub fn node_index(id: &NodeId) -> usize {
    id.0[29] as usize
}

/// The key alphabet: for each kind the substate keys, sorted by their DbSortKey (rank = index).
pub struct Alphabet {
    pub keys: [Vec<SubstateKey>; 3],
}
impl Alphabet {
    pub fn new() -> Self {
        let field: Vec<SubstateKey> = (0..KEYS[0] as u8).map(|b| SubstateKey::Field(b * 3)).collect();
        let map: Vec<SubstateKey> = (0..KEYS[1] as u8)
            .map(|b| SubstateKey::Map(if b % 2 == 0 { vec![b, 7] } else { vec![b; (b as usize) + 1] }))
            .collect();
        let sorted: Vec<SubstateKey> = (0..KEYS[2] as u8)
            .map(|b| SubstateKey::Sorted(([b / 3, (b % 3) * 100], vec![9 - b, b])))
            .collect();
        let mut keys = [field, map, sorted];
        for ks in keys.iter_mut() {
            ks.sort_by_key(|k| SpreadPrefixKeyMapper::to_db_sort_key(k));
            let set: BTreeSet<_> = ks.iter().map(|k| SpreadPrefixKeyMapper::to_db_sort_key(k)).collect();
            assert_eq!(set.len(), ks.len());
        }
        Alphabet { keys }
    }
    pub fn key(&self, p: usize, rank: usize) -> SubstateKey {
        self.keys[p % 3][rank].clone()
    }
    pub fn rank(&self, p: usize, k: &SubstateKey) -> usize {
        self.keys[p % 3].iter().position(|x| x == k).expect("key outside the alphabet")
    }
}

pub fn make_value(id: u32, pad: usize) -> IndexedScryptoValue {
    IndexedScryptoValue::from_typed(&(id, vec![0xabu8; pad]))
}
pub fn val_of(v: &IndexedScryptoValue) -> Val {
    let (id, _pad): (u32, Vec<u8>) = v.as_typed().expect("value shape");
    (id, v.len())
}
pub fn val_of_raw(raw: &[u8]) -> Val {
    let (id, _pad): (u32, Vec<u8>) = scrypto_decode(raw).expect("value shape");
    (id, raw.len())
}

#[derive(Clone, Debug)]
pub enum Op {
    CreateNode(usize, Vec<(usize, Vec<(usize, u32, usize)>)>), // node, [(partition, [(rank, id, pad)])]
    Get(K3),
    Set(K3, u32, usize),
    Remove(K3),
    ForceWrite(K3),
    Info(K3),
    ScanKeys(usize, usize, u32),
    Drain(usize, usize, u32),
    ScanSorted(usize, usize, u32),
    DeletePartition(usize, usize),
    Revert,
}

#[derive(Clone, Debug, PartialEq)]
pub enum Res {
    Unit,
    Opt(Option<Val>),
    Info(u8),
    Keys(Vec<usize>),
    KVs(Vec<(usize, Val)>),
    Panic,
}

#[derive(Clone, Debug, PartialEq)]
pub enum Ev {
    ReadDb(K3, usize),
    ReadDbNotFound(K3),
    TrackUpd(K3, Option<usize>, Option<usize>),
}

pub type BaseDb = BTreeMap<(usize, usize), BTreeMap<usize, (u32, usize)>>; // (node,part) -> rank -> (id,pad)

pub fn build_db(alpha: &Alphabet, base: &BaseDb) -> InMemorySubstateDatabase {
    let mut db = InMemorySubstateDatabase::standard();
    let mut updates = StateUpdates::empty();
    for ((n, p), m) in base {
        for (rank, (id, pad)) in m {
            updates
                .of_node(node_id(*n))
                .of_partition(PartitionNumber(*p as u8))
                .mut_update_substates([(alpha.key(*p, *rank), DatabaseUpdate::Set(make_value(*id, *pad).into()))]);
        }
    }
    db.commit(&updates.create_database_updates());
    db
}

/// Reads the whole universe back from a database: (node, partition, rank) -> value.
pub fn read_db(alpha: &Alphabet, db: &InMemorySubstateDatabase) -> BTreeMap<K3, Val> {
    let mut out = BTreeMap::new();
    for n in 0..NODES {
        for p in 0..PARTS {
            let pk = SpreadPrefixKeyMapper::to_db_partition_key(&node_id(n), PartitionNumber(p as u8));
            for rank in 0..KEYS[p % 3] {
                let sk = SpreadPrefixKeyMapper::to_db_sort_key(&alpha.key(p, rank));
                if let Some(raw) = db.get_raw_substate_by_db_key(&pk, &sk) {
                    out.insert((n, p, rank), val_of_raw(&raw));
                }
            }
        }
    }
    out
}

fn canon_ev(alpha: &Alphabet, io: &IOAccess) -> Ev {
    let k3 = |c: &radix_engine::track::interface::CanonicalSubstateKey| {
        let p = c.partition_number.0 as usize;
        (node_index(&c.node_id), p, alpha.rank(p, &c.substate_key))
    };
    match io {
        IOAccess::ReadFromDb(c, sz) => Ev::ReadDb(k3(c), *sz),
        IOAccess::ReadFromDbNotFound(c) => Ev::ReadDbNotFound(k3(c)),
        IOAccess::TrackSubstateUpdated { canonical_substate_key, old_size, new_size } => {
            Ev::TrackUpd(k3(canonical_substate_key), *old_size, *new_size)
        }
        IOAccess::HeapSubstateUpdated { .. } => panic!("heap event from track"),
    }
}

pub struct Final {
    pub commit: Vec<String>, // get_commit_info() just before finalize(), as Coq terms
    pub commit_raw: Vec<(char, K3, usize, usize)>, // kind I/U/D, key, size, old_size
    pub nodes: Vec<(usize, bool, Vec<(usize, u32, Vec<(usize, String)>)>)>, // node, is_new, [(part, range_read, [(rank, tsv coq)])]
    pub deleted: Vec<(usize, usize)>,
    pub new_nodes: Vec<usize>,
    pub updates: Vec<(usize, Vec<(usize, String)>)>, // node -> [(part, pupd coq)]
    pub state_updates: StateUpdates,
}

fn coq_val(v: Val) -> String {
    format!("({},{})", v.0, v.1)
}
fn coq_write(w: &Write) -> String {
    match w {
        Write::Update(s) => format!("(WUpdate {})", coq_val(val_of(&s.value))),
        Write::Delete => "WDelete".into(),
    }
}
fn coq_tsv(t: &TrackedSubstateValue) -> String {
    match t {
        TrackedSubstateValue::New(s) => format!("TNew {}", coq_val(val_of(&s.value))),
        TrackedSubstateValue::ReadOnly(ReadOnly::NonExistent) => "TRoNone".into(),
        TrackedSubstateValue::ReadOnly(ReadOnly::Existent(s)) => format!("TRoSome {}", coq_val(val_of(&s.value))),
        TrackedSubstateValue::ReadExistAndWrite(old, w) => format!("TRExW {} {}", coq_val(val_of(old)), coq_write(w)),
        TrackedSubstateValue::ReadNonExistAndWrite(s) => format!("TRNexW {}", coq_val(val_of(&s.value))),
        TrackedSubstateValue::WriteOnly(w) => format!("TWo {}", coq_write(w)),
        TrackedSubstateValue::Garbage => "TGarbage".into(),
    }
}

/// Runs the ops on the real Track. Stops after the first panic. Returns per-op (result, events) and
/// the final observation (None if the run panicked).
pub fn run_impl(alpha: &Alphabet, db: &InMemorySubstateDatabase, ops: &[Op]) -> (Vec<(Res, Vec<Ev>)>, Option<Final>) {
    let mut track: Track<InMemorySubstateDatabase> = Track::new(db);
    let mut outs = Vec::new();
    for op in ops {
        let mut evs: Vec<Ev> = Vec::new();
        let r = {
            let evs_ref = &mut evs;
            let track_ref = &mut track;
            catch(std::panic::AssertUnwindSafe(move || run_op(alpha, track_ref, op, evs_ref)))
        };
        match r {
            Ok(res) => outs.push((res, evs)),
            Err(_) => {
                outs.push((Res::Panic, Vec::new()));
                return (outs, None);
            }
        }
    }
    let fin = catch(std::panic::AssertUnwindSafe(move || finalize(alpha, track)));
    (outs, fin.ok())
}

fn run_op(alpha: &Alphabet, track: &mut Track<InMemorySubstateDatabase>, op: &Op, evs: &mut Vec<Ev>) -> Res {
    let mut cb = |io: IOAccess| -> Result<(), ()> {
        evs.push(canon_ev(alpha, &io));
        Ok(())
    };
    let pn = |p: usize| PartitionNumber(p as u8);
    match op {
        Op::CreateNode(n, parts) => {
            let mut ns: NodeSubstates = BTreeMap::new();
            for (p, subs) in parts {
                let mut m = BTreeMap::new();
                for (rank, id, pad) in subs {
                    m.insert(alpha.key(*p, *rank), make_value(*id, *pad));
                }
                ns.insert(pn(*p), m);
            }
            track.create_node(node_id(*n), ns, &mut cb).unwrap();
            Res::Unit
        }
        Op::Get((n, p, k)) => {
            let r = track.get_substate(&node_id(*n), pn(*p), &alpha.key(*p, *k), &mut cb).unwrap();
            Res::Opt(r.map(val_of))
        }
        Op::Set((n, p, k), id, pad) => {
            track
                .set_substate(node_id(*n), pn(*p), alpha.key(*p, *k), make_value(*id, *pad), &mut cb)
                .unwrap();
            Res::Unit
        }
        Op::Remove((n, p, k)) => {
            let r = track.remove_substate(&node_id(*n), pn(*p), &alpha.key(*p, *k), &mut cb).unwrap();
            Res::Opt(r.as_ref().map(val_of))
        }
        Op::ForceWrite((n, p, k)) => {
            track.force_write(&node_id(*n), &pn(*p), &alpha.key(*p, *k));
            Res::Unit
        }
        Op::Info((n, p, k)) => {
            let i = track.get_tracked_substate_info(&node_id(*n), pn(*p), &alpha.key(*p, *k));
            Res::Info(match i {
                TrackedSubstateInfo::New => 0,
                TrackedSubstateInfo::Updated => 1,
                TrackedSubstateInfo::Unmodified => 2,
            })
        }
        Op::ScanKeys(n, p, limit) => {
            let r = match p % 3 {
                0 => track.scan_keys::<FieldKey, _, _>(&node_id(*n), pn(*p), *limit, &mut cb),
                1 => track.scan_keys::<MapKey, _, _>(&node_id(*n), pn(*p), *limit, &mut cb),
                _ => track.scan_keys::<SortedKey, _, _>(&node_id(*n), pn(*p), *limit, &mut cb),
            }
            .unwrap();
            Res::Keys(r.iter().map(|k| alpha.rank(*p, k)).collect())
        }
        Op::Drain(n, p, limit) => {
            let r = match p % 3 {
                0 => track.drain_substates::<FieldKey, _, _>(&node_id(*n), pn(*p), *limit, &mut cb),
                1 => track.drain_substates::<MapKey, _, _>(&node_id(*n), pn(*p), *limit, &mut cb),
                _ => track.drain_substates::<SortedKey, _, _>(&node_id(*n), pn(*p), *limit, &mut cb),
            }
            .unwrap();
            Res::KVs(r.iter().map(|(k, v)| (alpha.rank(*p, k), val_of(v))).collect())
        }
        Op::ScanSorted(n, p, limit) => {
            let r = track.scan_sorted_substates(&node_id(*n), pn(*p), *limit, &mut cb).unwrap();
            Res::KVs(r.iter().map(|(k, v)| (alpha.rank(*p, &SubstateKey::Sorted(k.clone())), val_of(v))).collect())
        }
        Op::DeletePartition(n, p) => {
            track.delete_partition(&node_id(*n), pn(*p));
            Res::Unit
        }
        Op::Revert => {
            track.revert_non_force_write_changes();
            Res::Unit
        }
    }
}

fn finalize(alpha: &Alphabet, mut track: Track<InMemorySubstateDatabase>) -> Final {
    let k3c = |c: &radix_engine::track::interface::CanonicalSubstateKey| {
        let p = c.partition_number.0 as usize;
        format!("{} {} {}", node_index(&c.node_id), p, alpha.rank(p, &c.substate_key))
    };
    let commit: Vec<String> = track
        .get_commit_info()
        .iter()
        .map(|c| match c {
            StoreCommit::Insert { canonical_substate_key, size } => format!("CInsert {} {}", k3c(canonical_substate_key), size),
            StoreCommit::Update { canonical_substate_key, size, old_size } => format!("CUpdate {} {} {}", k3c(canonical_substate_key), size, old_size),
            StoreCommit::Delete { canonical_substate_key, old_size } => format!("CDelete {} {}", k3c(canonical_substate_key), old_size),
        })
        .collect();
    let k3r = |c: &radix_engine::track::interface::CanonicalSubstateKey| {
        let p = c.partition_number.0 as usize;
        (node_index(&c.node_id), p, alpha.rank(p, &c.substate_key))
    };
    let commit_raw: Vec<(char, K3, usize, usize)> = track
        .get_commit_info()
        .iter()
        .map(|c| match c {
            StoreCommit::Insert { canonical_substate_key, size } => ('I', k3r(canonical_substate_key), *size, 0),
            StoreCommit::Update { canonical_substate_key, size, old_size } => ('U', k3r(canonical_substate_key), *size, *old_size),
            StoreCommit::Delete { canonical_substate_key, old_size } => ('D', k3r(canonical_substate_key), 0, *old_size),
        })
        .collect();
    let (tracked, _db) = track.finalize().expect("finalize");
    let mut nodes = Vec::new();
    for (id, tn) in &tracked.tracked_nodes {
        let mut parts = Vec::new();
        for (pnum, tp) in &tn.tracked_partitions {
            let p = pnum.0 as usize;
            let mut subs = Vec::new();
            for (sk, ts) in &tp.substates {
                assert_eq!(&SpreadPrefixKeyMapper::to_db_sort_key(&ts.substate_key), sk);
                subs.push((alpha.rank(p, &ts.substate_key), coq_tsv(&ts.substate_value)));
            }
            parts.push((p, tp.range_read, subs));
        }
        nodes.push((node_index(id), tn.is_new, parts));
    }
    let deleted: Vec<(usize, usize)> = tracked.deleted_partitions.iter().map(|(id, p)| (node_index(id), p.0 as usize)).collect();
    let (new_nodes, su) = tracked.to_state_updates();
    let new_nodes: Vec<usize> = new_nodes.iter().map(node_index).collect();
    let mut updates = Vec::new();
    for (id, nu) in &su.by_node {
        let NodeStateUpdates::Delta { by_partition } = nu;
        let mut parts = Vec::new();
        for (pnum, pu) in by_partition {
            let p = pnum.0 as usize;
            let s = match pu {
                PartitionStateUpdates::Delta { by_substate } => format!(
                    "PDelta {}",
                    coq_list(by_substate.iter().map(|(k, u)| format!(
                        "({}, {})",
                        alpha.rank(p, k),
                        match u {
                            DatabaseUpdate::Set(raw) => format!("USet {}", coq_val(val_of_raw(raw))),
                            DatabaseUpdate::Delete => "UDelete".to_string(),
                        }
                    )))
                ),
                PartitionStateUpdates::Batch(BatchPartitionStateUpdate::Reset { new_substate_values }) => format!(
                    "PReset {}",
                    coq_list(new_substate_values.iter().map(|(k, raw)| format!("({}, {})", alpha.rank(p, k), coq_val(val_of_raw(raw)))))
                ),
            };
            parts.push((p, s));
        }
        updates.push((node_index(id), parts));
    }
    Final { commit, commit_raw, nodes, deleted, new_nodes, updates, state_updates: su }
}

// ------------------------------------------------------------------------------------------------
// Coq printing
// ------------------------------------------------------------------------------------------------
fn k3_coq(k: &K3) -> String {
    format!("{} {} {}", k.0, k.1, k.2)
}
pub fn op_coq(op: &Op, sizes: &dyn Fn(u32, usize) -> usize) -> String {
    let v = |id: u32, pad: usize| format!("({},{})", id, sizes(id, pad));
    match op {
        Op::CreateNode(n, parts) => format!(
            "OCreateNode {} {}",
            n,
            coq_list(parts.iter().map(|(p, subs)| format!(
                "({}, {})",
                p,
                coq_list(subs.iter().map(|(r, id, pad)| format!("({}, {})", r, v(*id, *pad))))
            )))
        ),
        Op::Get(k) => format!("OGet {}", k3_coq(k)),
        Op::Set(k, id, pad) => format!("OSet {} {}", k3_coq(k), v(*id, *pad)),
        Op::Remove(k) => format!("ORemove {}", k3_coq(k)),
        Op::ForceWrite(k) => format!("OForceWrite {}", k3_coq(k)),
        Op::Info(k) => format!("OInfo {}", k3_coq(k)),
        Op::ScanKeys(n, p, l) => format!("OScanKeys {} {} {}", n, p, l),
        Op::Drain(n, p, l) => format!("ODrain {} {} {}", n, p, l),
        Op::ScanSorted(n, p, l) => format!("OScanSorted {} {} {}", n, p, l),
        Op::DeletePartition(n, p) => format!("ODeletePartition {} {}", n, p),
        Op::Revert => "ORevert".into(),
    }
}
pub fn value_len(id: u32, pad: usize) -> usize {
    make_value(id, pad).len()
}
fn opt_n(o: &Option<usize>) -> String {
    match o {
        Some(x) => format!("(Some {})", x),
        None => "None".into(),
    }
}
pub fn res_coq(r: &Res) -> String {
    match r {
        Res::Unit => "RUnit".into(),
        Res::Opt(None) => "ROpt None".into(),
        Res::Opt(Some(v)) => format!("ROpt (Some {})", coq_val(*v)),
        Res::Info(i) => format!("RInfo {}", i),
        Res::Keys(l) => format!("RKeys {}", coq_list(l.iter().map(|k| k.to_string()))),
        Res::KVs(l) => format!("RKVs {}", coq_list(l.iter().map(|(k, v)| format!("({}, {})", k, coq_val(*v))))),
        Res::Panic => "RPanic".into(),
    }
}
pub fn ev_coq(e: &Ev) -> String {
    match e {
        Ev::ReadDb(k, s) => format!("EvReadDb {} {}", k3_coq(k), s),
        Ev::ReadDbNotFound(k) => format!("EvReadDbNotFound {}", k3_coq(k)),
        Ev::TrackUpd(k, o, n) => format!("EvTrackUpd {} {} {}", k3_coq(k), opt_n(o), opt_n(n)),
    }
}
pub fn final_coq(f: &Final) -> String {
    let nodes = coq_list(f.nodes.iter().map(|(n, is_new, parts)| {
        format!(
            "({}, ({}, {}))",
            n,
            coq_bool(*is_new),
            coq_list(parts.iter().map(|(p, rr, subs)| format!(
                "({}, ({}, {}))",
                p,
                rr,
                coq_list(subs.iter().map(|(k, t)| format!("({}, {})", k, t)))
            )))
        )
    }));
    let deleted = coq_list(f.deleted.iter().map(|(n, p)| format!("({}, {})", n, p)));
    let new_nodes = coq_list(f.new_nodes.iter().map(|n| n.to_string()));
    let su = coq_list(f.updates.iter().map(|(n, parts)| {
        format!("({}, {})", n, coq_list(parts.iter().map(|(p, s)| format!("({}, {})", p, s))))
    }));
    format!("({}, {}, {}, {}, {})", coq_list(f.commit.iter().cloned()), nodes, deleted, new_nodes, su)
}
pub fn case_coq(base: &BaseDb, ops: &[Op], outs: &[(Res, Vec<Ev>)], fin: &Option<Final>) -> String {
    let db = coq_list(base.iter().map(|((n, p), m)| {
        format!(
            "({}, {}, {})",
            n,
            p,
            coq_list(m.iter().map(|(r, (id, pad))| format!("({}, ({},{}))", r, id, value_len(*id, *pad))))
        )
    }));
    let ops_s = coq_list(ops.iter().map(|o| op_coq(o, &value_len)));
    let outs_s = coq_list(outs.iter().map(|(r, evs)| format!("({}, {})", res_coq(r), coq_list(evs.iter().map(ev_coq)))));
    let fin_s = match fin {
        Some(f) => format!("Some {}", final_coq(f)),
        None => "None".into(),
    };
    format!("({}, {}, {}, {})", db, ops_s, outs_s, fin_s)
}

// ------------------------------------------------------------------------------------------------
// Direct oracle: the property statement replayed on a plain BTreeMap
// ------------------------------------------------------------------------------------------------
pub struct OracleResult {
    pub failure: Option<(String, String)>, // (class, what)
    pub stopped_inadmissible: Option<String>,
    pub reads_checked: u64,
    pub scans_checked: u64,
    pub final_checked: bool,
}

/// `view` = database overlaid with the transaction's creations, writes and removals.
/// Admissibility (client obligations of the Track API, see Props/C12.v): create_node only on a node
/// id with no database content; force_write only on a tracked substate of a node that was not created
/// in this transaction, and no create_node over a force-written node. The replay stops checking at the
/// first inadmissible operation.
pub fn oracle(
    alpha: &Alphabet,
    base: &BaseDb,
    db: &InMemorySubstateDatabase,
    ops: &[Op],
    outs: &[(Res, Vec<Ev>)],
    fin: &Option<Final>,
) -> OracleResult {
    let mut res = OracleResult { failure: None, stopped_inadmissible: None, reads_checked: 0, scans_checked: 0, final_checked: false };
    let base_view: BTreeMap<K3, Val> = read_db(alpha, db);
    // sanity: the database holds what the case says
    let mut expect_base = BTreeMap::new();
    for ((n, p), m) in base {
        for (r, (id, pad)) in m {
            expect_base.insert((*n, *p, *r), (*id, value_len(*id, *pad)));
        }
    }
    assert_eq!(base_view, expect_base);
    let mut view = base_view.clone();
    let mut touched: BTreeSet<K3> = BTreeSet::new(); // keys with a tracked entry (read or written)
    let mut blind: BTreeSet<K3> = BTreeSet::new(); // keys whose tracked entry started as a blind write over nothing read
    let mut new_nodes: BTreeSet<usize> = BTreeSet::new();
    let mut fw: BTreeMap<K3, Option<Val>> = BTreeMap::new();
    let mut deleted: BTreeSet<(usize, usize)> = BTreeSet::new();
    let mut garbage: BTreeSet<K3> = BTreeSet::new(); // known class: blind write reverted over an existing db value
    let part_view = |view: &BTreeMap<K3, Val>, n: usize, p: usize| -> Vec<(usize, Val)> {
        view.range((n, p, 0)..(n, p, usize::MAX)).map(|(k, v)| (k.2, *v)).collect()
    };
    macro_rules! fail {
        ($class:expr, $($arg:tt)*) => {{ res.failure = Some(($class.to_string(), format!($($arg)*))); return res; }};
    }
    for (i, op) in ops.iter().enumerate() {
        let Some((out, _evs)) = outs.get(i) else { break };
        match (op, out) {
            (Op::CreateNode(n, parts), Res::Unit) => {
                if base_view.keys().any(|k| k.0 == *n) || fw.keys().any(|k| k.0 == *n) {
                    res.stopped_inadmissible = Some(format!("step {}: create_node over existing / force-written node", i));
                    return res;
                }
                let old: Vec<K3> = view.keys().filter(|k| k.0 == *n).cloned().collect();
                for k in old {
                    view.remove(&k);
                }
                touched.retain(|k| k.0 != *n);
                blind.retain(|k| k.0 != *n);
                new_nodes.insert(*n);
                for (p, subs) in parts {
                    for (r, id, pad) in subs {
                        view.insert((*n, *p, *r), (*id, value_len(*id, *pad)));
                        touched.insert((*n, *p, *r));
                    }
                }
            }
            (Op::Get(k), Res::Opt(got)) => {
                let class = if garbage.contains(k) { "garbage-after-revert" } else { "" };
                if view.get(k) != got.as_ref() {
                    fail!(class, "step {}: get {:?} returned {:?}, view holds {:?}", i, k, got, view.get(k));
                }
                touched.insert(*k);
                res.reads_checked += 1;
            }
            (Op::Set(k, id, pad), Res::Unit) => {
                if !touched.contains(k) {
                    blind.insert(*k);
                }
                garbage.remove(k);
                touched.insert(*k);
                view.insert(*k, (*id, value_len(*id, *pad)));
            }
            (Op::Remove(k), Res::Opt(got)) => {
                let class = if garbage.contains(k) { "garbage-after-revert" } else { "" };
                if view.get(k) != got.as_ref() {
                    fail!(class, "step {}: remove {:?} returned {:?}, view holds {:?}", i, k, got, view.get(k));
                }
                touched.insert(*k);
                view.remove(k);
                res.reads_checked += 1;
            }
            (Op::ForceWrite(k), Res::Unit) => {
                if new_nodes.contains(&k.0) {
                    res.stopped_inadmissible = Some(format!("step {}: force_write on a node created in this transaction", i));
                    return res;
                }
                if !touched.contains(k) {
                    fail!("", "step {}: force_write on untracked {:?} did not panic", i, k);
                }
                fw.insert(*k, view.get(k).cloned());
            }
            (Op::ForceWrite(k), Res::Panic) => {
                if touched.contains(k) {
                    fail!("", "step {}: force_write on tracked {:?} panicked", i, k);
                }
                return res; // documented panic (substate not loaded), run ends
            }
            (Op::Info(_), Res::Info(_)) => {}
            (Op::ScanKeys(n, p, limit), Res::Keys(ks)) => {
                let pv = part_view(&view, *n, *p);
                let gclass = if garbage.iter().any(|k| k.0 == *n && k.1 == *p) { "garbage-after-revert" } else { "" };
                let want = (*limit as usize).min(pv.len());
                let set: BTreeSet<usize> = ks.iter().cloned().collect();
                if set.len() != ks.len() {
                    fail!(gclass, "step {}: scan_keys returned duplicates {:?}", i, ks);
                }
                if ks.iter().any(|k| !pv.iter().any(|(r, _)| r == k)) {
                    fail!(gclass, "step {}: scan_keys returned an absent key {:?} (present {:?})", i, ks, pv);
                }
                if ks.len() != want {
                    fail!(gclass, "step {}: scan_keys returned {} keys, expected min(limit {}, present {})", i, ks.len(), limit, pv.len());
                }
                res.scans_checked += 1;
            }
            (Op::Drain(n, p, limit), Res::KVs(kvs)) => {
                let pv = part_view(&view, *n, *p);
                let gclass = if garbage.iter().any(|k| k.0 == *n && k.1 == *p) { "garbage-after-revert" } else { "" };
                let want = (*limit as usize).min(pv.len());
                let set: BTreeSet<usize> = kvs.iter().map(|x| x.0).collect();
                if set.len() != kvs.len() {
                    fail!(gclass, "step {}: drain returned duplicates", i);
                }
                for (k, v) in kvs {
                    if view.get(&(*n, *p, *k)) != Some(v) {
                        fail!(gclass, "step {}: drain returned ({},{:?}) but view holds {:?}", i, k, v, view.get(&(*n, *p, *k)));
                    }
                }
                if kvs.len() != want {
                    fail!(gclass, "step {}: drain returned {} entries, expected min(limit {}, present {})", i, kvs.len(), limit, pv.len());
                }
                for (k, _) in kvs {
                    view.remove(&(*n, *p, *k));
                    touched.insert((*n, *p, *k));
                }
                // every tracked entry visited by drain stays tracked; entries pulled from the db become tracked
                res.scans_checked += 1;
            }
            (Op::ScanSorted(n, p, limit), Res::KVs(kvs)) => {
                let pv = part_view(&view, *n, *p);
                let gclass = if garbage.iter().any(|k| k.0 == *n && k.1 == *p) { "garbage-after-revert" } else { "" };
                let want: Vec<(usize, Val)> = pv.iter().take(*limit as usize).cloned().collect();
                if &want != kvs {
                    fail!(gclass, "step {}: scan_sorted returned {:?}, expected {:?}", i, kvs, want);
                }
                res.scans_checked += 1;
            }
            (Op::DeletePartition(n, p), Res::Unit) => {
                deleted.insert((*n, *p));
            }
            (Op::Revert, Res::Unit) => {
                // what survives: the database overlaid with the force-written snapshots
                // known class: a key that was only ever blind-written (WriteOnly) becomes Garbage
                for k in blind.iter() {
                    if base_view.contains_key(k) && !fw.contains_key(k) {
                        garbage.insert(*k);
                    }
                }
                view = base_view.clone();
                for (k, v) in &fw {
                    match v {
                        Some(v) => {
                            view.insert(*k, *v);
                        }
                        None => {
                            view.remove(k);
                        }
                    }
                }
                touched.retain(|k| !new_nodes.contains(&k.0));
                new_nodes.clear();
                fw.clear();
                // a reverted blind write stays blind (its entry is Garbage, the db was never read)
            }
            (Op::Revert, Res::Panic) => {
                fail!("", "step {}: revert panicked on an admissible history", i);
            }
            (o, r) => fail!("", "step {}: unexpected output {:?} for {:?}", i, r, o),
        }
    }
    // final: base + state updates == view (outside deleted partitions)
    if let Some(f) = fin {
        let mut db2 = db.clone();
        db2.commit(&f.state_updates.create_database_updates());
        let after = read_db(alpha, &db2);
        for n in 0..NODES {
            for p in 0..PARTS {
                for r in 0..KEYS[p % 3] {
                    let k = (n, p, r);
                    if deleted.contains(&(n, p)) {
                        if let Some(v) = after.get(&k) {
                            if view.get(&k) != Some(v) {
                                fail!("", "final: deleted partition holds {:?}={:?} but view holds {:?}", k, v, view.get(&k));
                            }
                        }
                    } else if after.get(&k) != view.get(&k) {
                        fail!("", "final: db+updates holds {:?} at {:?}, view holds {:?}", after.get(&k), k, view.get(&k));
                    }
                }
            }
        }
        let nn: BTreeSet<usize> = f.new_nodes.iter().cloned().collect();
        if nn != new_nodes {
            fail!("", "final: new node set {:?}, expected {:?}", nn, new_nodes);
        }
        // get_commit_info: one entry per key whose final value differs from the database, of the right kind and sizes
        let hazard = |k: &K3| garbage.contains(k);
        let mut seen: BTreeSet<K3> = BTreeSet::new();
        for (kind, k, size, old) in &f.commit_raw {
            if !seen.insert(*k) {
                fail!("", "commit info lists {:?} twice", k);
            }
            if hazard(k) {
                continue;
            }
            let b = base_view.get(k);
            let v = view.get(k);
            let ok = match kind {
                'I' => b.is_none() && v.map(|x| x.1) == Some(*size),
                'U' => b.map(|x| x.1) == Some(*old) && v.map(|x| x.1) == Some(*size),
                _ => b.map(|x| x.1) == Some(*old) && v.is_none(),
            };
            if !ok {
                fail!("", "commit info {}{:?} size {} old {} but database holds {:?} and view holds {:?}", kind, k, size, old, b, v);
            }
        }
        for n in 0..NODES {
            for p in 0..PARTS {
                for r in 0..KEYS[p % 3] {
                    let k = (n, p, r);
                    if !hazard(&k) && base_view.get(&k) != view.get(&k) && !seen.contains(&k) {
                        fail!("", "commit info misses {:?}: database {:?}, view {:?}", k, base_view.get(&k), view.get(&k));
                    }
                }
            }
        }
        res.final_checked = true;
    }
    res
}

// ------------------------------------------------------------------------------------------------
// Generator
// ------------------------------------------------------------------------------------------------
#[derive(Clone, Debug)]
pub struct GenCfg {
    pub max_len: usize,
    pub w_get: u64,
    pub w_set: u64,
    pub w_remove: u64,
    pub w_scan_keys: u64,
    pub w_drain: u64,
    pub w_scan_sorted: u64,
    pub w_info: u64,
    pub w_create: u64,
    pub w_force: u64,
    pub w_delete_part: u64,
    pub w_revert: u64,
    pub wild_den: u64, // 1/wild_den of the cases ignore the admissibility rules
    pub revert_near_end: bool,
}

pub fn gen_base(rng: &mut Rng, next_id: &mut u32) -> BaseDb {
    let mut base = BaseDb::new();
    let populated_nodes = if rng.chance(1, 2) { 3 } else { 2 };
    for n in 0..populated_nodes {
        for p in 0..PARTS {
            if rng.chance(2, 3) {
                let mut m = BTreeMap::new();
                let dens = rng.range(1, 4);
                for r in 0..KEYS[p % 3] {
                    if rng.chance(dens, 4) {
                        *next_id += 1;
                        m.insert(r, (*next_id, rng.usize_below(6)));
                    }
                }
                if !m.is_empty() {
                    base.insert((n, p), m);
                }
            }
        }
    }
    base
}

pub fn gen_ops(rng: &mut Rng, cfg: &GenCfg, base: &BaseDb, next_id: &mut u32) -> (Vec<Op>, bool) {
    let wild = rng.chance(1, cfg.wild_den);
    let len = if rng.chance(1, 8) { rng.range(1, 8) } else { rng.range(8, cfg.max_len as u64) } as usize;
    let hot_n = rng.usize_below(NODES);
    let hot_p = rng.usize_below(PARTS);
    let mut touched: BTreeSet<K3> = BTreeSet::new();
    let mut new_nodes: BTreeSet<usize> = BTreeSet::new();
    let mut fw_nodes: BTreeSet<usize> = BTreeSet::new();
    let base_nodes: BTreeSet<usize> = base.keys().map(|k| k.0).collect();
    let total = cfg.w_get + cfg.w_set + cfg.w_remove + cfg.w_scan_keys + cfg.w_drain + cfg.w_scan_sorted + cfg.w_info
        + cfg.w_create + cfg.w_force + cfg.w_delete_part + cfg.w_revert;
    let mut ops = Vec::new();
    let revert_at = if cfg.revert_near_end { Some(len.saturating_sub(rng.range(1, 8) as usize)) } else { None };
    for i in 0..len {
        let (n, p) = if rng.chance(3, 5) { (hot_n, hot_p) } else { (rng.usize_below(NODES), rng.usize_below(PARTS)) };
        let k = (n, p, rng.usize_below(KEYS[p % 3]));
        let limit: u32 = match rng.below(12) {
            0 => 0,
            1 => 1,
            2..=8 => rng.range(1, 7) as u32,
            9 => 100,
            10 => rng.range(5, 9) as u32,
            _ => u32::MAX,
        };
        if Some(i) == revert_at {
            ops.push(Op::Revert);
            touched.retain(|k| !new_nodes.contains(&k.0));
            new_nodes.clear();
            fw_nodes.clear();
            continue;
        }
        let mut r = rng.below(total);
        macro_rules! pick {
            ($w:expr) => {{
                if r < $w {
                    true
                } else {
                    r -= $w;
                    false
                }
            }};
        }
        let op = if pick!(cfg.w_get) {
            touched.insert(k);
            Op::Get(k)
        } else if pick!(cfg.w_set) {
            touched.insert(k);
            *next_id += 1;
            Op::Set(k, *next_id, rng.usize_below(6))
        } else if pick!(cfg.w_remove) {
            touched.insert(k);
            Op::Remove(k)
        } else if pick!(cfg.w_scan_keys) {
            Op::ScanKeys(n, p, limit)
        } else if pick!(cfg.w_drain) {
            // drained db entries become tracked: approximate by marking every key of the partition
            if limit >= 6 {
                for r in 0..KEYS[p % 3] {
                    if base.get(&(n, p)).map(|m| m.contains_key(&r)).unwrap_or(false) {
                        touched.insert((n, p, r));
                    }
                }
            }
            Op::Drain(n, p, limit)
        } else if pick!(cfg.w_scan_sorted) {
            Op::ScanSorted(n, 2, limit)
        } else if pick!(cfg.w_info) {
            Op::Info(k)
        } else if pick!(cfg.w_create) {
            let cands: Vec<usize> = (0..NODES)
                .filter(|n| wild || (!base_nodes.contains(n) && !fw_nodes.contains(n)))
                .collect();
            if cands.is_empty() {
                Op::Get(k)
            } else {
                let n = *rng.pick(&cands);
                let mut parts = Vec::new();
                for p in 0..PARTS {
                    if rng.chance(2, 3) {
                        let mut subs = Vec::new();
                        // BTreeMap<SubstateKey,_> iteration order = SubstateKey order, computed by the caller
                        for r in 0..KEYS[p % 3] {
                            if rng.chance(1, 2) {
                                *next_id += 1;
                                subs.push((r, *next_id, rng.usize_below(6)));
                                touched.insert((n, p, r));
                            }
                        }
                        parts.push((p, subs));
                    }
                }
                new_nodes.insert(n);
                Op::CreateNode(n, parts)
            }
        } else if pick!(cfg.w_force) {
            let cands: Vec<K3> = touched.iter().filter(|k| wild || !new_nodes.contains(&k.0)).cloned().collect();
            if rng.chance(1, 40) || (wild && rng.chance(1, 6)) {
                Op::ForceWrite(k) // possibly untracked: documented panic
            } else if cands.is_empty() {
                touched.insert(k);
                Op::Get(k)
            } else {
                let k = *rng.pick(&cands);
                fw_nodes.insert(k.0);
                Op::ForceWrite(k)
            }
        } else if pick!(cfg.w_delete_part) {
            Op::DeletePartition(n, p)
        } else {
            touched.retain(|k| !new_nodes.contains(&k.0));
            new_nodes.clear();
            fw_nodes.clear();
            Op::Revert
        };
        ops.push(op);
    }
    (ops, wild)
}

/// create_node receives a BTreeMap<SubstateKey,_>: reorder the (rank, ..) entries of every
/// partition into SubstateKey order, which is the order the implementation iterates in.
pub fn normalise_create(alpha: &Alphabet, ops: &mut [Op]) {
    for op in ops.iter_mut() {
        if let Op::CreateNode(_, parts) = op {
            parts.sort_by_key(|x| x.0);
            for (p, subs) in parts.iter_mut() {
                let p = *p;
                subs.sort_by_key(|(r, _, _)| alpha.key(p, *r));
            }
        }
    }
}

// ------------------------------------------------------------------------------------------------
// Deterministic boundary family (identical for every seed; generated before the random stream)
// ------------------------------------------------------------------------------------------------
pub struct BCase {
    pub class: &'static str,
    pub name: String,
    pub base: BaseDb,
    pub ops: Vec<Op>,
}

fn std_base() -> BaseDb {
    // node 0: field partition {0,2}, map partition {1,4}, sorted partition {1,3,5}; node 1: field {1};
    // nodes 2 and 3 hold nothing (fresh ids for create_node)
    let mut b = BaseDb::new();
    let mut id = 0u32;
    let mut part = |n: usize, p: usize, ranks: &[usize]| {
        let mut m = BTreeMap::new();
        for r in ranks {
            id += 1;
            m.insert(*r, (id, (*r % 4) + 1));
        }
        b.insert((n, p), m);
    };
    part(0, 0, &[0, 2]);
    part(0, 1, &[1, 4]);
    part(0, 2, &[1, 3, 5]);
    part(1, 0, &[1]);
    b
}

pub fn boundary_cases() -> Vec<BCase> {
    let mut out: Vec<BCase> = Vec::new();
    let base = std_base();
    let mut vid = 1000u32;
    let mut set = |k: K3| -> Op {
        vid += 1;
        Op::Set(k, vid, (vid % 5) as usize)
    };
    const MAX: u32 = u32::MAX;
    let kdb: K3 = (0, 2, 3);
    let kab: K3 = (0, 2, 2);
    let knew: K3 = (3, 2, 2);
    let create3 = |keys: &[usize]| Op::CreateNode(3, vec![(2, keys.iter().map(|r| (*r, 500 + *r as u32, *r % 3)).collect())]);

    // A. every tracked-substate state x every follow-up operation
    let states: Vec<(&str, Vec<Op>, K3)> = vec![
        ("untracked_db", vec![], kdb),
        ("untracked_absent", vec![], kab),
        ("ro_some", vec![Op::Get(kdb)], kdb),
        ("ro_none", vec![Op::Get(kab)], kab),
        ("rexw_upd", vec![Op::Get(kdb), set(kdb)], kdb),
        ("rexw_del", vec![Op::Remove(kdb)], kdb),
        ("rexw_del_then_set", vec![Op::Remove(kdb), set(kdb)], kdb),
        ("rnexw", vec![Op::Get(kab), set(kab)], kab),
        ("rnexw_removed", vec![Op::Get(kab), set(kab), Op::Remove(kab)], kab),
        ("wo_upd_over_db", vec![set(kdb)], kdb),
        ("wo_upd_absent", vec![set(kab)], kab),
        ("wo_del_over_db", vec![set(kdb), Op::Remove(kdb)], kdb),
        ("wo_del_absent", vec![set(kab), Op::Remove(kab)], kab),
        ("new", vec![create3(&[2, 4])], knew),
        ("garbage_from_new", vec![create3(&[2, 4]), Op::Remove(knew)], knew),
        ("garbage_from_new_then_set", vec![create3(&[2, 4]), Op::Remove(knew), set(knew)], knew),
        ("garbage_after_revert", vec![set(kab), Op::Revert], kab),
    ];
    for (sname, pre, k) in &states {
        let k = *k;
        let follow: Vec<(&str, Vec<Op>)> = vec![
            ("none", vec![]),
            ("get", vec![Op::Get(k)]),
            ("set", vec![set(k), Op::Get(k)]),
            ("remove", vec![Op::Remove(k), Op::Get(k)]),
            ("remove_twice", vec![Op::Remove(k), Op::Remove(k)]),
            ("info", vec![Op::Info(k)]),
            ("scan_keys_max", vec![Op::ScanKeys(k.0, k.1, MAX)]),
            ("scan_keys_1", vec![Op::ScanKeys(k.0, k.1, 1)]),
            ("drain_max", vec![Op::Drain(k.0, k.1, MAX), Op::Get(k)]),
            ("drain_1", vec![Op::Drain(k.0, k.1, 1), Op::ScanKeys(k.0, k.1, MAX)]),
            ("scan_sorted_max", vec![Op::ScanSorted(k.0, k.1, MAX)]),
            ("scan_sorted_1", vec![Op::ScanSorted(k.0, k.1, 1)]),
            ("force_write_set_revert", vec![Op::ForceWrite(k), set(k), Op::Revert, Op::Get(k)]),
            ("force_write_remove_revert", vec![Op::ForceWrite(k), Op::Remove(k), Op::Revert, Op::Get(k), Op::ScanSorted(k.0, k.1, MAX)]),
            ("revert_get", vec![Op::Revert, Op::Get(k)]),
            ("revert_set", vec![Op::Revert, set(k), Op::Get(k)]),
            ("delete_partition", vec![Op::DeletePartition(k.0, k.1)]),
        ];
        for (fname, post) in follow {
            let mut ops = pre.clone();
            ops.extend(post);
            out.push(BCase { class: "bf_state_followup", name: format!("{}/{}", sname, fname), base: base.clone(), ops });
        }
    }

    // B. limits around every count, on partitions of every shape
    let mixed: Vec<Op> = vec![set((0, 2, 0)), set((0, 2, 3)), Op::Remove((0, 2, 5)), Op::Get((0, 2, 4)), set((0, 2, 2))];
    let shapes: Vec<(&str, Vec<Op>, usize, usize, Vec<u32>)> = vec![
        ("mixed_track_and_db", mixed.clone(), 0, 2, vec![0, 1, 2, 3, 4, 5, 6, MAX]),
        ("db_only", vec![], 0, 2, vec![0, 1, 2, 3, 4, MAX]),
        ("empty_partition", vec![], 1, 2, vec![0, 1, MAX]),
        ("untracked_node", vec![], 2, 2, vec![0, 1, MAX]),
        ("new_node", vec![create3(&[0, 2, 4]), Op::Remove((3, 2, 2))], 3, 2, vec![0, 1, 2, 3, 4, MAX]),
        ("all_db_entries_deleted", vec![Op::Remove((0, 2, 1)), Op::Remove((0, 2, 3)), Op::Remove((0, 2, 5))], 0, 2, vec![0, 1, MAX]),
        ("only_absent_reads_tracked", vec![Op::Get((0, 2, 0)), Op::Get((0, 2, 2)), Op::Get((0, 2, 4))], 0, 2, vec![0, 1, 2, 3, 4, MAX]),
        ("track_after_all_db", vec![Op::Get((0, 2, 1)), set((0, 2, 4))], 0, 2, vec![0, 1, 2, 3, 4, 5, MAX]),
        ("deletes_at_both_ends", vec![Op::Remove((0, 2, 1)), Op::Remove((0, 2, 5)), Op::Get((0, 2, 0))], 0, 2, vec![0, 1, 2, MAX]),
        ("map_kind", vec![set((0, 1, 0)), Op::Remove((0, 1, 4))], 0, 1, vec![0, 1, 2, 3, MAX]),
        ("field_kind", vec![set((0, 0, 1)), Op::Remove((0, 0, 0))], 0, 0, vec![0, 1, 2, 3, MAX]),
    ];
    for (sname, pre, n, p, limits) in &shapes {
        for l in limits {
            let mut kinds: Vec<(&str, Vec<Op>)> = vec![
                ("scan_keys", vec![Op::ScanKeys(*n, *p, *l)]),
                ("drain", vec![Op::Drain(*n, *p, *l), Op::ScanKeys(*n, *p, MAX), Op::Drain(*n, *p, MAX)]),
            ];
            if *p % 3 == 2 {
                kinds.push(("scan_sorted", vec![Op::ScanSorted(*n, *p, *l)]));
            }
            for (kname, post) in kinds {
                let mut ops = pre.clone();
                ops.extend(post);
                out.push(BCase { class: "bf_limits", name: format!("{}/{}/{}", sname, kname, l), base: base.clone(), ops });
            }
        }
    }

    // C. range_read keeps the maximum; look-ahead of the merge iterator
    out.push(BCase {
        class: "bf_range_read",
        name: "small_large_small".into(),
        base: base.clone(),
        ops: vec![Op::ScanKeys(0, 2, 1), Op::ScanKeys(0, 2, MAX), Op::ScanKeys(0, 2, 1), Op::ScanSorted(0, 2, 2), Op::ScanSorted(0, 2, 0), Op::Drain(0, 2, 1), Op::Drain(0, 2, 0)],
    });
    out.push(BCase {
        class: "bf_range_read",
        name: "sorted_lookahead".into(),
        base: base.clone(),
        ops: vec![set((0, 2, 4)), Op::ScanSorted(0, 2, 1), Op::ScanSorted(0, 2, 2), Op::ScanSorted(0, 2, 3), Op::ScanSorted(0, 2, 4)],
    });

    // D. create_node shapes
    let creates: Vec<(&str, Vec<Op>)> = vec![
        ("empty_node", vec![Op::CreateNode(3, vec![]), Op::Get(knew), Op::ScanKeys(3, 2, MAX)]),
        ("empty_partition", vec![Op::CreateNode(3, vec![(2, vec![])]), Op::ScanSorted(3, 2, MAX), set(knew), Op::ScanSorted(3, 2, MAX)]),
        ("three_partitions", vec![Op::CreateNode(3, vec![(0, vec![(1, 601, 0)]), (1, vec![(0, 602, 1), (5, 603, 2)]), (2, vec![(4, 604, 3)])]), Op::Drain(3, 1, 1), Op::ScanKeys(3, 0, MAX)]),
        ("over_node_read_as_absent", vec![Op::Get(knew), Op::Get((3, 0, 0)), create3(&[2]), Op::Get(knew), Op::Get((3, 0, 0))]),
        ("two_nodes_order", vec![Op::CreateNode(2, vec![(2, vec![(1, 611, 0)])]), create3(&[2]), set((2, 2, 3)), Op::Remove((3, 2, 2))]),
        ("created_then_reverted", vec![create3(&[2, 4]), set((3, 2, 5)), Op::Revert, Op::Get(knew), create3(&[0]), Op::ScanKeys(3, 2, MAX)]),
        ("over_existing_db_node_inadmissible", vec![Op::CreateNode(0, vec![(2, vec![(2, 621, 0)])]), Op::Get(kdb), Op::ScanSorted(0, 2, MAX)]),
    ];
    for (name, ops) in creates {
        out.push(BCase { class: "bf_create", name: name.into(), base: base.clone(), ops });
    }

    // E. force_write / revert sequences
    let forces: Vec<(&str, Vec<Op>)> = vec![
        ("untracked_panics", vec![Op::ForceWrite(kdb)]),
        ("untracked_partition_exists_panics", vec![Op::Get((0, 2, 1)), Op::ForceWrite(kdb)]),
        ("twice_same_key_last_wins", vec![Op::Get(kdb), set(kdb), Op::ForceWrite(kdb), set(kdb), Op::ForceWrite(kdb), set(kdb), Op::Revert, Op::Get(kdb)]),
        ("two_keys_two_partitions_two_nodes", vec![Op::Get(kdb), Op::Get((0, 0, 0)), Op::Get((1, 0, 1)), set(kdb), set((0, 0, 0)), set((1, 0, 1)),
            Op::ForceWrite((1, 0, 1)), Op::ForceWrite((0, 0, 0)), Op::ForceWrite(kdb), set(kdb), Op::Revert, Op::Get(kdb), Op::Get((0, 0, 0)), Op::Get((1, 0, 1))]),
        ("revert_without_force_write", vec![Op::Get(kdb), set(kdb), Op::Remove((0, 2, 1)), Op::Revert, Op::ScanSorted(0, 2, MAX)]),
        ("double_revert", vec![Op::Get(kdb), set(kdb), Op::ForceWrite(kdb), Op::Revert, Op::Revert, Op::Get(kdb)]),
        ("revert_force_revert", vec![Op::Get(kdb), set(kdb), Op::Revert, set(kdb), Op::ForceWrite(kdb), set(kdb), Op::Revert, Op::Get(kdb)]),
        ("force_write_of_absent_read", vec![Op::Get(kab), Op::ForceWrite(kab), set(kab), Op::Revert, Op::Get(kab)]),
        ("force_write_of_delete", vec![Op::Remove(kdb), Op::ForceWrite(kdb), set(kdb), Op::Revert, Op::Get(kdb)]),
        ("force_write_on_new_node_revert_panics", vec![create3(&[2]), Op::ForceWrite(knew), Op::Revert]),
        ("create_over_force_written_node_revert_panics", vec![Op::Get(knew), Op::ForceWrite(knew), create3(&[2]), Op::Revert]),
        ("finalisation_after_revert", vec![Op::Get((0, 0, 0)), set((0, 0, 0)), Op::ForceWrite((0, 0, 0)), set((0, 2, 0)), Op::Revert,
            Op::Get((0, 0, 0)), set((0, 0, 0)), Op::Get((1, 0, 1)), set((1, 0, 1)), set((0, 1, 2)), Op::DeletePartition(0, 1)]),
    ];
    for (name, ops) in forces {
        out.push(BCase { class: "bf_force_revert", name: name.into(), base: base.clone(), ops });
    }

    // F. delete_partition: reset then delta, duplicates, untracked nodes, order
    let dels: Vec<(&str, Vec<Op>)> = vec![
        ("reset_only", vec![Op::DeletePartition(0, 2)]),
        ("reset_then_sets_and_deletes", vec![Op::DeletePartition(0, 2), set((0, 2, 0)), Op::Remove(kdb), set((0, 2, 5)), Op::Get((0, 2, 1))]),
        ("writes_then_reset", vec![set((0, 2, 0)), Op::Remove(kdb), Op::DeletePartition(0, 2), set((0, 2, 4))]),
        ("same_partition_twice", vec![Op::DeletePartition(0, 2), Op::DeletePartition(0, 1), Op::DeletePartition(0, 2)]),
        ("untracked_node_first_in_updates", vec![set((0, 0, 0)), Op::DeletePartition(2, 1), set((2, 0, 0))]),
        ("reset_and_delta_partitions_of_one_node", vec![set((0, 0, 1)), set((0, 1, 0)), Op::DeletePartition(0, 1), set((0, 2, 0))]),
        ("reset_of_new_node_partition", vec![create3(&[2, 4]), Op::DeletePartition(3, 2), Op::Remove(knew)]),
        ("reset_survives_revert", vec![Op::DeletePartition(0, 2), set((0, 2, 0)), Op::Revert]),
    ];
    for (name, ops) in dels {
        out.push(BCase { class: "bf_delete_partition", name: name.into(), base: base.clone(), ops });
    }

    // G. order of nodes / partitions / substates in the final updates
    let orders: Vec<(&str, Vec<Op>)> = vec![
        ("nodes_by_first_touch", vec![Op::Get((1, 0, 1)), set((0, 2, 4)), set((1, 0, 0)), set((0, 0, 1))]),
        ("partitions_by_first_touch", vec![set((0, 2, 0)), set((0, 0, 1)), set((0, 1, 2)), set((0, 2, 5)), set((0, 2, 2))]),
        ("read_only_node_between_written_nodes", vec![set((1, 0, 0)), Op::Get((2, 0, 0)), set((0, 0, 1))]),
    ];
    for (name, ops) in orders {
        out.push(BCase { class: "bf_order", name: name.into(), base: base.clone(), ops });
    }
    out
}

/// Runs the boundary family: correspondence cases + oracle + per-class and per-feature counters with floors.
pub fn run_boundary(alpha: &Alphabet, report: &mut Report, cw: &mut CaseWriter) {
    let cases = boundary_cases();
    let mut per_class: BTreeMap<&'static str, u64> = BTreeMap::new();
    for (i, bc) in cases.iter().enumerate() {
        let mut ops = bc.ops.clone();
        normalise_create(alpha, &mut ops);
        let db = build_db(alpha, &bc.base);
        let (outs, fin) = run_impl(alpha, &db, &ops);
        let used = &ops[..outs.len()];
        *per_class.entry(bc.class).or_insert(0) += 1;
        report.count(bc.class);
        report.case(&format!("{}:{}", bc.class, bc.name), true);
        // feature counters measured on the implementation's behaviour
        for (op, (r, evs)) in used.iter().zip(outs.iter()) {
            match (op, r) {
                (Op::ForceWrite(_), Res::Panic) => report.count("bf_seen_force_write_panic"),
                (Op::Revert, Res::Panic) => report.count("bf_seen_revert_panic"),
                (Op::ScanKeys(_, _, l), Res::Keys(ks)) => {
                    if ks.len() as u64 == *l as u64 { report.count("bf_seen_scan_keys_limit_reached_exactly"); }
                    if ks.is_empty() && *l > 0 { report.count("bf_seen_scan_keys_empty"); }
                    if *l == 0 { report.count("bf_seen_limit_zero"); }
                }
                (Op::Drain(_, _, l), Res::KVs(kvs)) => {
                    if kvs.len() as u64 == *l as u64 && *l > 0 { report.count("bf_seen_drain_limit_reached_exactly"); }
                    if evs.iter().any(|e| matches!(e, Ev::ReadDb(..))) && evs.iter().any(|e| matches!(e, Ev::TrackUpd(..))) {
                        report.count("bf_seen_drain_from_track_and_db");
                    }
                }
                (Op::ScanSorted(_, _, l), Res::KVs(kvs)) => {
                    if kvs.len() as u64 == *l as u64 && *l > 0 { report.count("bf_seen_scan_sorted_limit_reached_exactly"); }
                    if evs.len() > kvs.len() { report.count("bf_seen_scan_sorted_lookahead_or_shadowed_read"); }
                }
                (Op::Info(_), Res::Info(x)) => report.count(&format!("bf_seen_info_{}", x)),
                _ => {}
            }
        }
        if let Some(f) = &fin {
            for (_, _, parts) in &f.nodes {
                for (_, rr, subs) in parts {
                    if *rr > 0 { report.count("bf_seen_range_read_nonzero"); }
                    for (_, t) in subs {
                        let tag = if t.starts_with("TRExW") {
                            if t.ends_with("WDelete") { "TRExW_Delete" } else { "TRExW_Update" }
                        } else if t.starts_with("TWo") {
                            if t.ends_with("WDelete") { "TWo_Delete" } else { "TWo_Update" }
                        } else {
                            t.split(' ').next().unwrap()
                        };
                        report.count(&format!("bf_final_{}", tag));
                    }
                }
            }
            for (_, parts) in &f.updates {
                for (_, s) in parts {
                    if s.starts_with("PReset []") { report.count("bf_upd_reset_empty"); }
                    else if s.starts_with("PReset") { report.count("bf_upd_reset_with_values"); }
                    if s.contains("UDelete") { report.count("bf_upd_delete"); }
                    if s.contains("USet") { report.count("bf_upd_set"); }
                }
            }
            if !f.new_nodes.is_empty() { report.count("bf_new_nodes_reported"); }
            for (kind, k, _, _) in &f.commit_raw {
                report.count(&format!("bf_commit_{}", kind));
                let blind = f.nodes.iter().any(|(n, _, parts)| *n == k.0 && parts.iter().any(|(p, _, subs)| *p == k.1 && subs.iter().any(|(r, t)| *r == k.2 && t.starts_with("TWo"))));
                if blind { report.count(&format!("bf_commit_blind_{}", kind)); }
            }
        }
        let o = oracle(alpha, &bc.base, &db, used, &outs, &fin);
        if o.stopped_inadmissible.is_some() { report.count("bf_oracle_stopped_inadmissible"); }
        if let Some((class, what)) = o.failure {
            report.oracle_failure(1_000_000 + i, &class, &format!("boundary {}:{}: {}", bc.class, bc.name, what),
                serde_json::json!({"case": case_coq(&bc.base, used, &outs, &fin)}));
        }
        cw.push(case_coq(&bc.base, used, &outs, &fin));
    }
    // every class and every feature must keep appearing (deterministic family: exact minimums)
    for (c, n) in &per_class {
        report.floor(c, *n);
    }
    report.floor("bf_state_followup", 17 * 17);
    report.floor("bf_limits", 100);
    report.floor("bf_range_read", 2);
    report.floor("bf_create", 7);
    report.floor("bf_force_revert", 12);
    report.floor("bf_delete_partition", 8);
    report.floor("bf_order", 3);
    for k in [
        "bf_seen_force_write_panic", "bf_seen_revert_panic", "bf_seen_scan_keys_limit_reached_exactly", "bf_seen_scan_keys_empty",
        "bf_seen_limit_zero", "bf_seen_drain_limit_reached_exactly", "bf_seen_drain_from_track_and_db",
        "bf_seen_scan_sorted_limit_reached_exactly", "bf_seen_scan_sorted_lookahead_or_shadowed_read",
        "bf_seen_info_0", "bf_seen_info_1", "bf_seen_info_2", "bf_seen_range_read_nonzero",
        "bf_final_TNew", "bf_final_TRoNone", "bf_final_TRoSome", "bf_final_TRExW_Update", "bf_final_TRExW_Delete", "bf_final_TRNexW",
        "bf_final_TWo_Update", "bf_final_TWo_Delete", "bf_final_TGarbage",
        "bf_upd_reset_empty", "bf_upd_reset_with_values", "bf_upd_delete", "bf_upd_set", "bf_new_nodes_reported", "bf_oracle_stopped_inadmissible",
        "bf_commit_I", "bf_commit_U", "bf_commit_D", "bf_commit_blind_I", "bf_commit_blind_U", "bf_commit_blind_D",
    ] {
        report.floor(k, 1);
    }
}
