//! Shared helpers for the correspondence harness binaries.
//!
//! Every harness binary has the same command line (parsed by `Args::parse`):
//!   <bin> --seed <u64> --cases <n> --out <dir> [--shards <k>] [--tier quick|thorough]
//!         [--replay <file>] [--oracle-only]
//! and writes into <dir>:
//!   cases_<k>.v   shards of Coq case files (inputs + canonicalised implementation outputs)
//!   impl.json     the run report: counts, distribution, samples, oracle failures
//!
//! One PRNG state (xoshiro256**, seeded by splitmix64 from --seed) feeds every random choice.

use serde_json::{json, Map, Value};
use std::collections::BTreeMap;
use std::collections::BTreeSet;
use std::fmt::Write as _;
use std::path::{Path, PathBuf};

// ------------------------------------------------------------------------------------------------
// PRNG
// ------------------------------------------------------------------------------------------------

#[derive(Clone, Debug)]
pub struct Rng {
    s: [u64; 4],
}

fn splitmix64(x: &mut u64) -> u64 {
    *x = x.wrapping_add(0x9E3779B97F4A7C15);
    let mut z = *x;
    z = (z ^ (z >> 30)).wrapping_mul(0xBF58476D1CE4E5B9);
    z = (z ^ (z >> 27)).wrapping_mul(0x94D049BB133111EB);
    z ^ (z >> 31)
}

impl Rng {
    pub fn new(seed: u64) -> Self {
        let mut x = seed;
        let s = [
            splitmix64(&mut x),
            splitmix64(&mut x),
            splitmix64(&mut x),
            splitmix64(&mut x),
        ];
        Rng { s }
    }
    /// A child generator for case `i` (so that case i replays independently of the others).
    pub fn fork(&self, i: u64) -> Rng {
        let mut x = self.s[0] ^ i.wrapping_mul(0xD6E8FEB86659FD93) ^ self.s[2].rotate_left(17);
        let s = [
            splitmix64(&mut x),
            splitmix64(&mut x),
            splitmix64(&mut x),
            splitmix64(&mut x),
        ];
        Rng { s }
    }
    pub fn next_u64(&mut self) -> u64 {
        let result = self.s[1].wrapping_mul(5).rotate_left(7).wrapping_mul(9);
        let t = self.s[1] << 17;
        self.s[2] ^= self.s[0];
        self.s[3] ^= self.s[1];
        self.s[1] ^= self.s[2];
        self.s[0] ^= self.s[3];
        self.s[2] ^= t;
        self.s[3] = self.s[3].rotate_left(45);
        result
    }
    pub fn next_u32(&mut self) -> u32 {
        (self.next_u64() >> 32) as u32
    }
    /// uniform in [0, n)  (n > 0)
    pub fn below(&mut self, n: u64) -> u64 {
        assert!(n > 0);
        // rejection-free multiply-shift is fine for test generation
        ((self.next_u64() as u128 * n as u128) >> 64) as u64
    }
    /// uniform in [lo, hi] inclusive
    pub fn range(&mut self, lo: u64, hi: u64) -> u64 {
        lo + self.below(hi - lo + 1)
    }
    pub fn usize_below(&mut self, n: usize) -> usize {
        self.below(n as u64) as usize
    }
    pub fn bool(&mut self) -> bool {
        self.next_u64() & 1 == 1
    }
    /// true with probability num/den
    pub fn chance(&mut self, num: u64, den: u64) -> bool {
        self.below(den) < num
    }
    pub fn pick<'a, T>(&mut self, xs: &'a [T]) -> &'a T {
        &xs[self.usize_below(xs.len())]
    }
    pub fn bytes(&mut self, n: usize) -> Vec<u8> {
        (0..n).map(|_| self.next_u64() as u8).collect()
    }
    pub fn shuffle<T>(&mut self, xs: &mut [T]) {
        for i in (1..xs.len()).rev() {
            let j = self.usize_below(i + 1);
            xs.swap(i, j);
        }
    }
}

// ------------------------------------------------------------------------------------------------
// Coq literal printing
// ------------------------------------------------------------------------------------------------

/// Coq `N` literal
pub fn coq_n<T: std::fmt::Display>(x: T) -> String {
    format!("{}%N", x)
}
/// Coq `Z` literal
pub fn coq_z<T: std::fmt::Display>(x: T) -> String {
    let s = format!("{}", x);
    if s.starts_with('-') {
        format!("({})%Z", s)
    } else {
        format!("{}%Z", s)
    }
}
pub fn coq_bool(b: bool) -> &'static str {
    if b {
        "true"
    } else {
        "false"
    }
}
pub fn coq_list<I: IntoIterator<Item = String>>(xs: I) -> String {
    let mut s = String::from("[");
    let mut first = true;
    for x in xs {
        if !first {
            s.push_str("; ");
        }
        first = false;
        s.push_str(&x);
    }
    s.push(']');
    s
}
/// byte string as `list N` (bytes are `N` in the development; case files open N_scope)
pub fn coq_bytes(bs: &[u8]) -> String {
    let mut s = String::with_capacity(bs.len() * 4 + 8);
    s.push('[');
    for (i, b) in bs.iter().enumerate() {
        if i > 0 {
            s.push(';');
        }
        let _ = write!(s, "{}", b);
    }
    s.push(']');
    s
}
pub fn coq_option(x: Option<String>) -> String {
    match x {
        Some(v) => format!("(Some {})", v),
        None => "None".to_string(),
    }
}
pub fn coq_pair(a: &str, b: &str) -> String {
    format!("({}, {})", a, b)
}
/// A Coq string literal (ASCII only; used for tags, not for data under test)
pub fn coq_string(s: &str) -> String {
    let mut out = String::from("\"");
    for c in s.chars() {
        assert!(c.is_ascii() && c != '\n');
        if c == '"' {
            out.push_str("\"\"");
        } else {
            out.push(c);
        }
    }
    out.push('"');
    out
}

// ------------------------------------------------------------------------------------------------
// Command line
// ------------------------------------------------------------------------------------------------

#[derive(Clone, Debug)]
pub struct Args {
    pub seed: u64,
    pub cases: usize,
    pub out: PathBuf,
    pub shards: usize,
    pub tier: String,
    pub replay: Option<PathBuf>,
    pub oracle_only: bool,
    pub extra: BTreeMap<String, String>,
}

impl Args {
    pub fn parse() -> Args {
        let mut a = Args {
            seed: 1,
            cases: 100,
            out: PathBuf::from("."),
            shards: 16,
            tier: "quick".into(),
            replay: None,
            oracle_only: false,
            extra: BTreeMap::new(),
        };
        let v: Vec<String> = std::env::args().skip(1).collect();
        let mut i = 0;
        while i < v.len() {
            let k = v[i].as_str();
            let mut val = || {
                i += 1;
                v.get(i).cloned().unwrap_or_else(|| panic!("missing value for {}", k))
            };
            match k {
                "--seed" => a.seed = val().parse().expect("seed"),
                "--cases" => a.cases = val().parse().expect("cases"),
                "--out" => a.out = PathBuf::from(val()),
                "--shards" => a.shards = val().parse().expect("shards"),
                "--tier" => a.tier = val(),
                "--replay" => a.replay = Some(PathBuf::from(val())),
                "--oracle-only" => a.oracle_only = true,
                other if other.starts_with("--") => {
                    let key = other[2..].to_string();
                    let value = val();
                    a.extra.insert(key, value);
                }
                other => panic!("unexpected argument {}", other),
            }
            i += 1;
        }
        std::fs::create_dir_all(&a.out).expect("create out dir");
        a
    }
}

// ------------------------------------------------------------------------------------------------
// Case files
// ------------------------------------------------------------------------------------------------

/// Collects cases (each one Coq term of the property's `case` type) and writes them in shards.
/// Shard k gets the cases with index ≡ k (mod shards); every case carries its global index.
pub struct CaseWriter {
    pub header: String,
    pub check_fn: String,
    cases: Vec<String>,
}

impl CaseWriter {
    /// `import` is e.g. "RV.Corr.C13_run"; `check_fn` the Coq function `case -> bool`
    /// (true = model and implementation agree on that case).
    pub fn new(import: &str, check_fn: &str) -> Self {
        CaseWriter {
            header: format!(
                "From Coq Require Import List NArith ZArith String.\nImport ListNotations.\nRequire Import {}.\nOpen Scope N_scope.\n",
                import
            ),
            check_fn: check_fn.to_string(),
            cases: Vec::new(),
        }
    }
    pub fn push(&mut self, case_term: String) -> usize {
        self.cases.push(case_term);
        self.cases.len() - 1
    }
    pub fn len(&self) -> usize {
        self.cases.len()
    }
    pub fn write(&self, dir: &Path, shards: usize) -> std::io::Result<usize> {
        let shards = shards.max(1).min(self.cases.len().max(1));
        for k in 0..shards {
            let mut s = String::new();
            s.push_str(&self.header);
            let _ = writeln!(s, "Definition cases := [");
            let mut first = true;
            for (i, c) in self.cases.iter().enumerate() {
                if i % shards != k {
                    continue;
                }
                if !first {
                    s.push_str(";\n");
                }
                first = false;
                let _ = write!(s, "  ({}%N, {})", i, c);
            }
            s.push_str("\n].\n");
            let _ = writeln!(
                s,
                "Definition failing := Eval vm_compute in (map fst (filter (fun c => negb ({} (snd c))) cases)).",
                self.check_fn
            );
            let _ = writeln!(s, "Print failing.");
            std::fs::write(dir.join(format!("cases_{}.v", k)), s)?;
        }
        Ok(shards)
    }
}

// ------------------------------------------------------------------------------------------------
// Report
// ------------------------------------------------------------------------------------------------

/// The implementation-side run report, written to impl.json and folded into the evidence file by
/// the driver.
pub struct Report {
    pub property: String,
    pub seed: u64,
    pub evaluations: u64,
    distinct: BTreeSet<u64>,
    pub rule: String,
    pub samples: Vec<Value>,
    pub distribution: BTreeMap<String, u64>,
    pub oracle_failures: Vec<Value>,
    pub notes: Vec<String>,
    pub floors: Vec<(String, u64)>,
    pub extra: Map<String, Value>,
}

pub fn fnv1a(bytes: &[u8]) -> u64 {
    let mut h: u64 = 0xcbf29ce484222325;
    for b in bytes {
        h ^= *b as u64;
        h = h.wrapping_mul(0x100000001b3);
    }
    h
}

impl Report {
    pub fn new(property: &str, seed: u64, rule: &str) -> Self {
        Report {
            property: property.to_string(),
            seed,
            evaluations: 0,
            distinct: BTreeSet::new(),
            rule: rule.to_string(),
            samples: Vec::new(),
            distribution: BTreeMap::new(),
            oracle_failures: Vec::new(),
            notes: Vec::new(),
            floors: Vec::new(),
            extra: Map::new(),
        }
    }
    /// Count one explored case. `canon` is the canonical text of the case; `nontrivial` is the
    /// property-specific rule result. Distinct non-trivial cases are counted by hash of `canon`.
    pub fn case(&mut self, canon: &str, nontrivial: bool) {
        self.evaluations += 1;
        if nontrivial {
            self.distinct.insert(fnv1a(canon.as_bytes()));
        }
    }
    pub fn count(&mut self, key: &str) {
        *self.distribution.entry(key.to_string()).or_insert(0) += 1;
    }
    pub fn count_n(&mut self, key: &str, n: u64) {
        *self.distribution.entry(key.to_string()).or_insert(0) += n;
    }
    pub fn sample(&mut self, v: Value) {
        if self.samples.len() < 5 {
            self.samples.push(v);
        }
    }
    /// Require that distribution[key] >= min at the end (generator informativeness floor).
    pub fn floor(&mut self, key: &str, min: u64) {
        self.floors.push((key.to_string(), min));
    }
    /// A failure of the property's own statement on the implementation.
    /// `class` names the known-finding class the input belongs to ("" if none).
    pub fn oracle_failure(&mut self, case_index: usize, class: &str, what: &str, input: Value) {
        if self.oracle_failures.len() < 200 {
            self.oracle_failures.push(json!({
                "case": case_index, "class": class, "what": what, "input": input
            }));
        } else {
            self.count("oracle_failures_not_listed");
        }
    }
    pub fn write(&self, dir: &Path) -> std::io::Result<()> {
        let mut floor_fail = Vec::new();
        for (k, m) in &self.floors {
            let got = self.distribution.get(k).cloned().unwrap_or(0);
            if got < *m {
                floor_fail.push(json!({"key": k, "min": m, "got": got}));
            }
        }
        let v = json!({
            "property": self.property,
            "seed": self.seed,
            "evaluations": self.evaluations,
            "distinct_nontrivial": self.distinct.len(),
            "rule": self.rule,
            "samples": self.samples,
            "distribution": self.distribution,
            "oracle_failures": self.oracle_failures,
            "floor_failures": floor_fail,
            "notes": self.notes,
            "extra": self.extra,
        });
        std::fs::write(dir.join("impl.json"), serde_json::to_string_pretty(&v).unwrap())
    }
}

/// Run `f` catching panics; `Err(message)` on panic. The default panic hook is silenced while
/// `f` runs so that expected panics do not flood stderr.
pub fn catch<T>(f: impl FnOnce() -> T + std::panic::UnwindSafe) -> Result<T, String> {
    let prev = std::panic::take_hook();
    std::panic::set_hook(Box::new(|_| {}));
    let r = std::panic::catch_unwind(f);
    std::panic::set_hook(prev);
    r.map_err(|e| {
        if let Some(s) = e.downcast_ref::<&str>() {
            s.to_string()
        } else if let Some(s) = e.downcast_ref::<String>() {
            s.clone()
        } else {
            "panic".to_string()
        }
    })
}

pub fn hex(bs: &[u8]) -> String {
    let mut s = String::with_capacity(bs.len() * 2);
    for b in bs {
        let _ = write!(s, "{:02x}", b);
    }
    s
}
