//! Shared by the C24–C27 harness binaries: exact big-integer views of Decimal / PreciseDecimal,
//! value generators (uniform in bit length + boundaries), Coq printers.
//!
//! Values are moved in and out of the implementation through the raw 64-bit digits of the stored
//! integer (`from_digits` / `to_digits`, two's complement), never through the conversions or the
//! text functions that are under test.
use num_bigint::{BigInt, Sign};
use num_traits::{One, Signed, Zero};
use radix_common::math::*;
use vh_common::Rng;

#[derive(Clone, Copy, Debug, PartialEq, Eq)]
pub enum Fmt {
    Dec,
    PDec,
}
pub const FMTS: [Fmt; 2] = [Fmt::Dec, Fmt::PDec];

impl Fmt {
    pub fn bits(self) -> u32 {
        match self {
            Fmt::Dec => 192,
            Fmt::PDec => 256,
        }
    }
    pub fn scale(self) -> u32 {
        match self {
            Fmt::Dec => 18,
            Fmt::PDec => 36,
        }
    }
    pub fn one(self) -> BigInt {
        pow10(self.scale())
    }
    pub fn min(self) -> BigInt {
        -(BigInt::one() << (self.bits() - 1))
    }
    pub fn max(self) -> BigInt {
        (BigInt::one() << (self.bits() - 1)) - 1
    }
    pub fn fits(self, z: &BigInt) -> bool {
        *z >= self.min() && *z <= self.max()
    }
    pub fn coq(self) -> &'static str {
        match self {
            Fmt::Dec => "true",
            Fmt::PDec => "false",
        }
    }
    pub fn name(self) -> &'static str {
        match self {
            Fmt::Dec => "dec",
            Fmt::PDec => "pdec",
        }
    }
}

pub fn pow10(n: u32) -> BigInt {
    num_traits::pow(BigInt::from(10), n as usize)
}
pub fn pow2(n: u32) -> BigInt {
    BigInt::one() << n
}

/// two's complement little-endian u64 digits of `z` (which must fit in 64*n bits, signed or unsigned)
pub fn to_digits(z: &BigInt, n: usize) -> Vec<u64> {
    let m = BigInt::one() << (64 * n);
    let mut u = ((z % &m) + &m) % &m;
    let mask = BigInt::from(u64::MAX);
    let mut out = Vec::with_capacity(n);
    for _ in 0..n {
        let d = &u & &mask;
        let (_, ds) = d.to_u64_digits();
        out.push(ds.first().cloned().unwrap_or(0));
        u >>= 64;
    }
    out
}
pub fn from_digits(ds: &[u64], signed: bool) -> BigInt {
    let mut z = BigInt::zero();
    for d in ds.iter().rev() {
        z = (z << 64) + BigInt::from(*d);
    }
    if signed && ds.last().map(|d| d >> 63 == 1).unwrap_or(false) {
        z -= BigInt::one() << (64 * ds.len());
    }
    z
}

macro_rules! bnum_conv {
    ($to:ident, $from:ident, $t:ident, $n:expr, $signed:expr) => {
        pub fn $to(z: &BigInt) -> $t {
            let d = to_digits(z, $n);
            let mut a = [0u64; $n];
            a.copy_from_slice(&d);
            $t::from_digits(a)
        }
        pub fn $from(x: $t) -> BigInt {
            from_digits(&x.to_digits(), $signed)
        }
    };
}
bnum_conv!(to_i192, from_i192, I192, 3, true);
bnum_conv!(to_i256, from_i256, I256, 4, true);
bnum_conv!(to_i320, from_i320, I320, 5, true);
bnum_conv!(to_i384, from_i384, I384, 6, true);
bnum_conv!(to_i448, from_i448, I448, 7, true);
bnum_conv!(to_i512, from_i512, I512, 8, true);
bnum_conv!(to_u192, from_u192, U192, 3, false);
bnum_conv!(to_u256, from_u256, U256, 4, false);
bnum_conv!(to_u320, from_u320, U320, 5, false);
bnum_conv!(to_u384, from_u384, U384, 6, false);
bnum_conv!(to_u448, from_u448, U448, 7, false);
bnum_conv!(to_u512, from_u512, U512, 8, false);

pub fn dec(z: &BigInt) -> Decimal {
    Decimal::from_attos(to_i192(z))
}
pub fn pdec(z: &BigInt) -> PreciseDecimal {
    PreciseDecimal::from_precise_subunits(to_i256(z))
}
pub fn dec_big(d: Decimal) -> BigInt {
    from_i192(d.attos())
}
pub fn pdec_big(d: PreciseDecimal) -> BigInt {
    from_i256(d.precise_subunits())
}

/// Division truncating toward zero, checked against its defining inequalities.
pub fn trunc_div(num: &BigInt, den: &BigInt) -> BigInt {
    assert!(!den.is_zero());
    let q = num / den; // num-bigint truncates toward zero
    let r = num - &q * den;
    assert!(r.abs() < den.abs());
    assert!(r.is_zero() || (r.sign() == num.sign()));
    q
}
/// floor division
pub fn floor_div(num: &BigInt, den: &BigInt) -> BigInt {
    let q = trunc_div(num, den);
    let r = num - &q * den;
    if !r.is_zero() && ((r.sign() == Sign::Minus) != (den.sign() == Sign::Minus)) {
        q - 1
    } else {
        q
    }
}

pub fn cz(z: &BigInt) -> String {
    vh_common::coq_z(z)
}

// ------------------------------------------------------------------------------------------------
// generators
// ------------------------------------------------------------------------------------------------

/// a non-negative integer with exactly `bits` significant bits (0 for bits == 0)
pub fn rand_bits(rng: &mut Rng, bits: u32) -> BigInt {
    if bits == 0 {
        return BigInt::zero();
    }
    let mut z = BigInt::zero();
    let mut left = bits;
    while left > 0 {
        let k = left.min(64);
        let mut w = rng.next_u64();
        if k < 64 {
            w &= (1u64 << k) - 1;
        }
        z = (z << k) + BigInt::from(w);
        left -= k;
    }
    // force the top bit
    z | (BigInt::one() << (bits - 1))
}

/// signed value, bit length uniform in 0..=maxbits
pub fn rand_signed(rng: &mut Rng, maxbits: u32) -> BigInt {
    let bits = rng.range(0, maxbits as u64) as u32;
    let z = rand_bits(rng, bits);
    if rng.bool() {
        -z
    } else {
        z
    }
}

/// the boundary values of a format (all inside the range)
pub fn boundaries(f: Fmt) -> Vec<BigInt> {
    let mut v = vec![
        f.min(),
        f.min() + 1,
        f.min() + 2,
        f.max(),
        f.max() - 1,
        BigInt::zero(),
        BigInt::one(),
        -BigInt::one(),
        BigInt::from(2),
        BigInt::from(-2),
        f.one(),
        -f.one(),
        f.one() + 1,
        f.one() - 1,
        -f.one() + 1,
        -f.one() - 1,
        f.one() / 2,
        -f.one() / 2,
        f.one() * 3 / 2,
        -f.one() * 3 / 2,
        f.one() * 5 / 2,
        -f.one() * 5 / 2,
    ];
    let mut k = 1;
    loop {
        let p = pow10(k);
        if !f.fits(&(&p + 1)) {
            break;
        }
        for s in [1, -1] {
            v.push(&p * s);
            v.push((&p + 1) * s);
            v.push((&p - 1) * s);
        }
        k += 1;
    }
    for b in [31u32, 32, 63, 64, 127, 128, f.bits() / 2, f.bits() - 2] {
        for s in [1, -1] {
            v.push(pow2(b) * s);
            v.push((pow2(b) + 1) * s);
            v.push((pow2(b) - 1) * s);
        }
    }
    v.retain(|z| f.fits(z));
    v
}

/// a value of format f: 1/4 boundary, 1/8 whole number, 1/8 few decimal places, rest uniform in bit length
pub fn gen_value(rng: &mut Rng, f: Fmt, bnd: &[BigInt]) -> BigInt {
    let r = rng.below(8);
    let z = if r < 2 {
        rng.pick(bnd).clone()
    } else if r == 2 {
        rand_signed(rng, f.bits() - 1 - 60 * (f.scale() / 18)) * f.one()
    } else if r == 3 {
        let places = rng.range(0, f.scale() as u64) as u32;
        rand_signed(rng, 80) * pow10(f.scale() - places)
    } else {
        rand_signed(rng, f.bits() - 1)
    };
    if f.fits(&z) {
        z
    } else {
        rng.pick(bnd).clone()
    }
}

/// result of an implementation call, canonicalised
#[derive(Clone, Debug, PartialEq, Eq)]
pub enum Out {
    Ok(BigInt),
    Err(&'static str), // Coq constructor name of `err`
    Panic,
}
impl Out {
    pub fn coq(&self) -> String {
        match self {
            Out::Ok(z) => format!("(Ok {})", cz(z)),
            Out::Err(e) => format!("(Err {})", e),
            Out::Panic => "Panic".to_string(),
        }
    }
    pub fn from_opt(r: Result<Option<BigInt>, String>) -> Out {
        match r {
            Ok(Some(z)) => Out::Ok(z),
            Ok(None) => Out::Err("ENone"),
            Err(_) => Out::Panic,
        }
    }
    pub fn short(&self) -> String {
        match self {
            Out::Ok(z) => format!("Ok({})", z),
            Out::Err(e) => format!("Err({})", e),
            Out::Panic => "Panic".to_string(),
        }
    }
}

pub const MODES: [(RoundingMode, &str); 7] = [
    (RoundingMode::ToPositiveInfinity, "ToPositiveInfinity"),
    (RoundingMode::ToNegativeInfinity, "ToNegativeInfinity"),
    (RoundingMode::ToZero, "ToZero"),
    (RoundingMode::AwayFromZero, "AwayFromZero"),
    (RoundingMode::ToNearestMidpointTowardZero, "ToNearestMidpointTowardZero"),
    (RoundingMode::ToNearestMidpointAwayFromZero, "ToNearestMidpointAwayFromZero"),
    (RoundingMode::ToNearestMidpointToEven, "ToNearestMidpointToEven"),
];
