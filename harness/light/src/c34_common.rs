//! Shared by gen_c34 and c34: prints a real `TransactionValidationConfig` as a Coq `config` record
//! (coq/Model/C34_Validate.v, constructor mkConfig, fields in declaration order).
use radix_transactions::validation::*;

pub fn config_coq(c: &TransactionValidationConfig) -> String {
    let m = &c.message_validation;
    let p = &c.preparation_settings;
    format!(
        "(mkConfig {} {} {} {} {} {} {} {} {} {} {} {} {} {} {} {} {} {} {} {} {})",
        c.max_signer_signatures_per_intent,
        c.max_references_per_intent,
        c.min_tip_percentage,
        c.max_tip_percentage,
        c.max_epoch_range,
        c.max_instructions,
        m.max_plaintext_message_length,
        m.max_encrypted_message_length,
        m.max_mime_type_length,
        m.max_decryptors,
        c.v2_transactions_allowed,
        c.min_tip_basis_points,
        c.max_tip_basis_points,
        c.max_subintent_depth,
        c.max_total_signature_validations,
        c.max_total_references,
        p.v2_transactions_permitted,
        p.max_user_payload_length,
        p.max_child_subintents_per_intent,
        p.max_subintents_per_transaction,
        p.max_blobs
    )
}
