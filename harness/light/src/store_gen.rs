//! Shared by the c14 / c15 harness binaries (included with #[path]): key universes, random
//! DatabaseUpdates, Coq printers for the update types, and a plain BTreeMap replay (the oracle).
#![allow(dead_code)]
use radix_common::prelude::*;
use radix_substate_store_interface::interface::*;
use std::collections::BTreeMap;
use vh_common::*;

pub struct Universe {
    pub node_keys: Vec<Vec<u8>>,
    pub parts: Vec<u8>,
    pub sort_keys: Vec<Vec<u8>>,
}

impl Universe {
    /// small universe with prefix-related node keys and sort keys, boundary partition numbers
    pub fn small(rng: &mut Rng) -> Universe {
        let all_nodes: Vec<Vec<u8>> = vec![vec![1], vec![1, 0], vec![1, 255], vec![2], vec![], vec![0, 0, 0, 1], vec![255, 255]];
        let all_parts: Vec<u8> = vec![0, 1, 2, 64, 254, 255];
        let all_sorts: Vec<Vec<u8>> = vec![
            vec![], vec![0], vec![0, 0], vec![0, 1], vec![1], vec![1, 0], vec![1, 255], vec![2], vec![127, 3],
            vec![255], vec![255, 0], vec![255, 255], vec![255, 255, 255],
        ];
        let pick = |rng: &mut Rng, xs: &Vec<Vec<u8>>, n: usize| -> Vec<Vec<u8>> {
            let mut v = xs.clone();
            rng.shuffle(&mut v);
            v.truncate(n);
            v.sort();
            v
        };
        let nn = rng.range(1, 3) as usize;
        let ns = rng.range(3, 8) as usize;
        let node_keys = pick(rng, &all_nodes, nn);
        let sort_keys = pick(rng, &all_sorts, ns);
        let mut parts = all_parts.clone();
        rng.shuffle(&mut parts);
        parts.truncate(rng.range(1, 3) as usize);
        parts.sort();
        Universe { node_keys, parts, sort_keys }
    }
    pub fn partition_keys(&self) -> Vec<DbPartitionKey> {
        let mut v = Vec::new();
        for n in &self.node_keys {
            for p in &self.parts {
                v.push(DbPartitionKey { node_key: n.clone(), partition_num: *p });
            }
        }
        v
    }
    /// cursors: every key of the universe plus neighbours (key ++ [0], a key between, beyond all)
    pub fn cursors(&self) -> Vec<Option<Vec<u8>>> {
        let mut v: Vec<Option<Vec<u8>>> = vec![None];
        let mut set = std::collections::BTreeSet::new();
        for k in &self.sort_keys {
            set.insert(k.clone());
            let mut a = k.clone();
            a.push(0);
            set.insert(a);
            if let Some(last) = k.last() {
                if *last > 0 {
                    let mut b = k.clone();
                    *b.last_mut().unwrap() -= 1;
                    b.push(255);
                    set.insert(b);
                }
            }
        }
        set.insert(vec![255, 255, 255, 255]);
        for k in set {
            v.push(Some(k));
        }
        v
    }
}

pub fn gen_value(rng: &mut Rng) -> Vec<u8> {
    let n = rng.range(0, 3) as usize;
    rng.bytes(n)
}

pub fn gen_partition_updates(rng: &mut Rng, u: &Universe, reset_pct: u64) -> PartitionDatabaseUpdates {
    if rng.below(100) < reset_pct {
        let n = match rng.below(4) { 0 => 0, _ => rng.range(0, 3) };
        let mut m = IndexMap::new();
        for _ in 0..n {
            m.insert(DbSortKey(rng.pick(&u.sort_keys).clone()), gen_value(rng));
        }
        PartitionDatabaseUpdates::Reset { new_substate_values: m }
    } else {
        let n = match rng.below(6) { 0 => 0, _ => rng.range(1, 4) };
        let mut m = IndexMap::new();
        for _ in 0..n {
            let k = DbSortKey(rng.pick(&u.sort_keys).clone());
            let upd = if rng.chance(2, 5) { DatabaseUpdate::Delete } else { DatabaseUpdate::Set(gen_value(rng)) };
            m.insert(k, upd);
        }
        PartitionDatabaseUpdates::Delta { substate_updates: m }
    }
}

pub fn gen_commit(rng: &mut Rng, u: &Universe, reset_pct: u64) -> DatabaseUpdates {
    let mut du = DatabaseUpdates::default();
    let nn = rng.range(1, u.node_keys.len().min(3) as u64);
    for _ in 0..nn {
        let nk = rng.pick(&u.node_keys).clone();
        let np = rng.range(1, u.parts.len().min(3) as u64);
        let entry = du.node_updates.entry(nk).or_default();
        for _ in 0..np {
            let pn = *rng.pick(&u.parts);
            entry.partition_updates.insert(pn, gen_partition_updates(rng, u, reset_pct));
        }
    }
    du
}

// ---- Coq printers -------------------------------------------------------------------------------

/// byte string as `list N`, long runs of one byte printed as `repeat b n` (keeps case files small
/// when keys of 2047 x 0xFF are used)
pub fn cb(bs: &[u8]) -> String {
    if bs.len() <= 24 {
        return coq_bytes(bs);
    }
    let mut parts: Vec<String> = Vec::new();
    let mut lit: Vec<u8> = Vec::new();
    let mut i = 0;
    while i < bs.len() {
        let mut j = i;
        while j < bs.len() && bs[j] == bs[i] {
            j += 1;
        }
        if j - i >= 16 {
            if !lit.is_empty() {
                parts.push(coq_bytes(&lit));
                lit.clear();
            }
            parts.push(format!("repeat {} {}", bs[i], j - i));
        } else {
            lit.extend_from_slice(&bs[i..j]);
        }
        i = j;
    }
    if !lit.is_empty() {
        parts.push(coq_bytes(&lit));
    }
    format!("({})", parts.join(" ++ "))
}

pub fn pk_coq(pk: &DbPartitionKey) -> String {
    format!("({}, {})", cb(&pk.node_key), pk.partition_num)
}
pub fn entries_coq(es: &[(Vec<u8>, Vec<u8>)]) -> String {
    coq_list(es.iter().map(|(k, v)| format!("({}, {})", cb(k), cb(v))))
}
pub fn part_updates_coq(pu: &PartitionDatabaseUpdates) -> String {
    match pu {
        PartitionDatabaseUpdates::Delta { substate_updates } => format!(
            "PDelta {}",
            coq_list(substate_updates.iter().map(|(k, u)| match u {
                DatabaseUpdate::Set(v) => format!("({}, USet {})", cb(&k.0), cb(v)),
                DatabaseUpdate::Delete => format!("({}, UDelete)", cb(&k.0)),
            }))
        ),
        PartitionDatabaseUpdates::Reset { new_substate_values } => format!(
            "PReset {}",
            coq_list(new_substate_values.iter().map(|(k, v)| format!("({}, {})", cb(&k.0), cb(v))))
        ),
    }
}
pub fn updates_coq(du: &DatabaseUpdates) -> String {
    coq_list(du.node_updates.iter().map(|(nk, nu)| {
        format!(
            "({}, {})",
            cb(nk),
            coq_list(nu.partition_updates.iter().map(|(pn, pu)| format!("({}, {})", pn, part_updates_coq(pu))))
        )
    }))
}
pub fn cursor_coq(c: &Option<Vec<u8>>) -> String {
    coq_option(c.as_ref().map(|k| cb(k)))
}

// ---- statistics ---------------------------------------------------------------------------------

pub struct UpdStats {
    pub deltas: u64,
    pub resets: u64,
    pub empty_resets: u64,
    pub sets: u64,
    pub deletes: u64,
}
pub fn stats(du: &DatabaseUpdates) -> UpdStats {
    let mut s = UpdStats { deltas: 0, resets: 0, empty_resets: 0, sets: 0, deletes: 0 };
    for nu in du.node_updates.values() {
        for pu in nu.partition_updates.values() {
            match pu {
                PartitionDatabaseUpdates::Delta { substate_updates } => {
                    s.deltas += 1;
                    for u in substate_updates.values() {
                        match u {
                            DatabaseUpdate::Set(_) => s.sets += 1,
                            DatabaseUpdate::Delete => s.deletes += 1,
                        }
                    }
                }
                PartitionDatabaseUpdates::Reset { new_substate_values } => {
                    s.resets += 1;
                    if new_substate_values.is_empty() {
                        s.empty_resets += 1;
                    }
                }
            }
        }
    }
    s
}

// ---- the oracle: a plain BTreeMap replay of the commit semantics --------------------------------

#[derive(Default, Clone, PartialEq, Eq, Debug)]
pub struct Replay {
    pub parts: BTreeMap<(Vec<u8>, u8), BTreeMap<Vec<u8>, Vec<u8>>>,
}
impl Replay {
    pub fn commit(&mut self, du: &DatabaseUpdates) {
        for (nk, nu) in &du.node_updates {
            for (pn, pu) in &nu.partition_updates {
                let key = (nk.clone(), *pn);
                match pu {
                    PartitionDatabaseUpdates::Delta { substate_updates } => {
                        for (sk, u) in substate_updates {
                            match u {
                                DatabaseUpdate::Set(v) => {
                                    self.parts.entry(key.clone()).or_default().insert(sk.0.clone(), v.clone());
                                }
                                DatabaseUpdate::Delete => {
                                    if let Some(p) = self.parts.get_mut(&key) {
                                        p.remove(&sk.0);
                                    }
                                }
                            }
                        }
                    }
                    PartitionDatabaseUpdates::Reset { new_substate_values } => {
                        self.parts.remove(&key);
                        for (sk, v) in new_substate_values {
                            self.parts.entry(key.clone()).or_default().insert(sk.0.clone(), v.clone());
                        }
                    }
                }
                if self.parts.get(&key).map(|p| p.is_empty()).unwrap_or(false) {
                    self.parts.remove(&key);
                }
            }
        }
    }
    pub fn get(&self, pk: &DbPartitionKey, sk: &[u8]) -> Option<Vec<u8>> {
        self.parts.get(&(pk.node_key.clone(), pk.partition_num)).and_then(|p| p.get(sk).cloned())
    }
    pub fn list(&self, pk: &DbPartitionKey, from: &Option<Vec<u8>>) -> Vec<(Vec<u8>, Vec<u8>)> {
        match self.parts.get(&(pk.node_key.clone(), pk.partition_num)) {
            None => vec![],
            Some(p) => p
                .iter()
                .filter(|(k, _)| match from {
                    Some(f) => k.as_slice() >= f.as_slice(),
                    None => true,
                })
                .map(|(k, v)| (k.clone(), v.clone()))
                .collect(),
        }
    }
    pub fn partition_keys(&self) -> Vec<(Vec<u8>, u8)> {
        self.parts.keys().cloned().collect()
    }
}

pub fn collect_list<D: SubstateDatabase>(db: &D, pk: &DbPartitionKey, from: &Option<Vec<u8>>) -> Vec<(Vec<u8>, Vec<u8>)> {
    let from_key = from.as_ref().map(|k| DbSortKey(k.clone()));
    db.list_raw_values_from_db_key(pk, from_key.as_ref()).map(|(k, v)| (k.0, v)).collect()
}
