//! Shared by the c20 / c21 harness binaries (included with #[path]): a flavour-independent
//! intermediate representation of SBOR `Value` trees mirroring coq/Model/C20_Sbor.v, conversion
//! to / from the real `BasicValue` / `ScryptoValue` / `ManifestValue`, Coq printers, generators.
#![allow(dead_code)]
use radix_common::prelude::*;
use sbor::traversal::*;
use vh_common::*;

#[derive(Clone, Copy, PartialEq, Eq, Debug)]
pub enum Fl {
    Basic,
    Scrypto,
    Manifest,
}
impl Fl {
    pub fn coq(self) -> &'static str {
        match self {
            Fl::Basic => "Basic",
            Fl::Scrypto => "Scrypto",
            Fl::Manifest => "Manifest",
        }
    }
    pub fn prefix(self) -> u8 {
        match self {
            Fl::Basic => BASIC_SBOR_V1_PAYLOAD_PREFIX,
            Fl::Scrypto => SCRYPTO_SBOR_V1_PAYLOAD_PREFIX,
            Fl::Manifest => MANIFEST_SBOR_V1_PAYLOAD_PREFIX,
        }
    }
    pub fn custom_kinds(self) -> &'static [CK] {
        match self {
            Fl::Basic => &[],
            Fl::Scrypto => &[CK::SReference, CK::SOwn, CK::SDecimal, CK::SPreciseDecimal, CK::SNf],
            Fl::Manifest => &[
                CK::MAddress,
                CK::MBucket,
                CK::MProof,
                CK::MExpression,
                CK::MBlob,
                CK::MDecimal,
                CK::MPreciseDecimal,
                CK::MNf,
                CK::MAddressReservation,
            ],
        }
    }
}

#[derive(Clone, Copy, PartialEq, Eq, Debug)]
pub enum IK {
    I8,
    I16,
    I32,
    I64,
    I128,
    U8,
    U16,
    U32,
    U64,
    U128,
}
pub const IKS: [IK; 10] =
    [IK::I8, IK::I16, IK::I32, IK::I64, IK::I128, IK::U8, IK::U16, IK::U32, IK::U64, IK::U128];
impl IK {
    pub fn coq(self) -> &'static str {
        match self {
            IK::I8 => "I8",
            IK::I16 => "I16",
            IK::I32 => "I32",
            IK::I64 => "I64",
            IK::I128 => "I128",
            IK::U8 => "U8",
            IK::U16 => "U16",
            IK::U32 => "U32",
            IK::U64 => "U64",
            IK::U128 => "U128",
        }
    }
    pub fn bits(self) -> u32 {
        match self {
            IK::I8 | IK::U8 => 8,
            IK::I16 | IK::U16 => 16,
            IK::I32 | IK::U32 => 32,
            IK::I64 | IK::U64 => 64,
            IK::I128 | IK::U128 => 128,
        }
    }
    pub fn signed(self) -> bool {
        matches!(self, IK::I8 | IK::I16 | IK::I32 | IK::I64 | IK::I128)
    }
}

#[derive(Clone, Copy, PartialEq, Eq, Debug)]
pub enum CK {
    SReference,
    SOwn,
    SDecimal,
    SPreciseDecimal,
    SNf,
    MAddress,
    MBucket,
    MProof,
    MExpression,
    MBlob,
    MDecimal,
    MPreciseDecimal,
    MNf,
    MAddressReservation,
}
impl CK {
    pub fn coq(self) -> &'static str {
        match self {
            CK::SReference => "CSReference",
            CK::SOwn => "CSOwn",
            CK::SDecimal => "CSDecimal",
            CK::SPreciseDecimal => "CSPreciseDecimal",
            CK::SNf => "CSNonFungibleLocalId",
            CK::MAddress => "CMAddress",
            CK::MBucket => "CMBucket",
            CK::MProof => "CMProof",
            CK::MExpression => "CMExpression",
            CK::MBlob => "CMBlob",
            CK::MDecimal => "CMDecimal",
            CK::MPreciseDecimal => "CMPreciseDecimal",
            CK::MNf => "CMNonFungibleLocalId",
            CK::MAddressReservation => "CMAddressReservation",
        }
    }
}

#[derive(Clone, Copy, PartialEq, Eq, Debug)]
pub enum K {
    Bool,
    Int(IK),
    String,
    Enum,
    Array,
    Tuple,
    Map,
    Custom(CK),
}
impl K {
    pub fn coq(self) -> String {
        match self {
            K::Bool => "KBool".into(),
            K::Int(i) => format!("(KInt {})", i.coq()),
            K::String => "KString".into(),
            K::Enum => "KEnum".into(),
            K::Array => "KArray".into(),
            K::Tuple => "KTuple".into(),
            K::Map => "KMap".into(),
            K::Custom(c) => format!("(KCustom {})", c.coq()),
        }
    }
}

#[derive(Clone, PartialEq, Eq, Debug)]
pub enum Nf {
    Str(Vec<u8>), // always valid UTF-8
    Int(u64),
    Bytes(Vec<u8>),
    Ruid([u8; 32]),
}
impl Nf {
    pub fn coq(&self) -> String {
        match self {
            Nf::Str(s) => format!("(NfString {})", coq_bytes(s)),
            Nf::Int(n) => format!("(NfInteger {})", n),
            Nf::Bytes(b) => format!("(NfBytes {})", coq_bytes(b)),
            Nf::Ruid(b) => format!("(NfRuid {})", coq_bytes(b)),
        }
    }
    /// accepted by the validating constructors
    pub fn valid(&self) -> bool {
        match self {
            Nf::Str(s) => {
                !s.is_empty()
                    && s.len() <= 64
                    && s.iter().all(|b| b.is_ascii_alphanumeric() || *b == b'_')
            }
            Nf::Bytes(b) => !b.is_empty() && b.len() <= 64,
            _ => true,
        }
    }
}

#[derive(Clone, PartialEq, Eq, Debug)]
pub enum C {
    SReference([u8; 30]),
    SOwn([u8; 30]),
    SDecimal([u8; 24]),
    SPreciseDecimal([u8; 32]),
    SNf(Nf),
    MAddressStatic([u8; 30]),
    MAddressNamed(u32),
    MBucket(u32),
    MProof(u32),
    MExpression(bool),
    MBlob([u8; 32]),
    MDecimal([u8; 24]),
    MPreciseDecimal([u8; 32]),
    MNf(Nf),
    MAddressReservation(u32),
}
impl C {
    pub fn kind(&self) -> CK {
        match self {
            C::SReference(_) => CK::SReference,
            C::SOwn(_) => CK::SOwn,
            C::SDecimal(_) => CK::SDecimal,
            C::SPreciseDecimal(_) => CK::SPreciseDecimal,
            C::SNf(_) => CK::SNf,
            C::MAddressStatic(_) | C::MAddressNamed(_) => CK::MAddress,
            C::MBucket(_) => CK::MBucket,
            C::MProof(_) => CK::MProof,
            C::MExpression(_) => CK::MExpression,
            C::MBlob(_) => CK::MBlob,
            C::MDecimal(_) => CK::MDecimal,
            C::MPreciseDecimal(_) => CK::MPreciseDecimal,
            C::MNf(_) => CK::MNf,
            C::MAddressReservation(_) => CK::MAddressReservation,
        }
    }
    pub fn coq(&self) -> String {
        match self {
            C::SReference(b) => format!("(SReference {})", coq_bytes(b)),
            C::SOwn(b) => format!("(SOwn {})", coq_bytes(b)),
            C::SDecimal(b) => format!("(SDecimal {})", coq_bytes(b)),
            C::SPreciseDecimal(b) => format!("(SPreciseDecimal {})", coq_bytes(b)),
            C::SNf(n) => format!("(SNonFungibleLocalId {})", n.coq()),
            C::MAddressStatic(b) => format!("(MAddressStatic {})", coq_bytes(b)),
            C::MAddressNamed(n) => format!("(MAddressNamed {})", n),
            C::MBucket(n) => format!("(MBucket {})", n),
            C::MProof(n) => format!("(MProof {})", n),
            C::MExpression(b) => format!("(MExpression {})", coq_bool(*b)),
            C::MBlob(b) => format!("(MBlob {})", coq_bytes(b)),
            C::MDecimal(b) => format!("(MDecimal {})", coq_bytes(b)),
            C::MPreciseDecimal(b) => format!("(MPreciseDecimal {})", coq_bytes(b)),
            C::MNf(n) => format!("(MNonFungibleLocalId {})", n.coq()),
            C::MAddressReservation(n) => format!("(MAddressReservation {})", n),
        }
    }
    /// the known-finding class: a manifest custom value built through a public enum variant
    /// that the validating decoder rejects
    pub fn invalid_by_construction(&self) -> bool {
        match self {
            C::MAddressStatic(b) => EntityType::from_repr(b[0]).is_none(),
            C::MNf(n) => !n.valid(),
            _ => false,
        }
    }
}

#[derive(Clone, Copy, PartialEq, Eq, Debug)]
pub enum Z {
    S(i128),
    U(u128),
}
impl Z {
    pub fn coq(self) -> String {
        match self {
            Z::S(x) => coq_z(x),
            Z::U(x) => coq_z(x),
        }
    }
}

#[derive(Clone, PartialEq, Eq, Debug)]
pub enum V {
    Bool(bool),
    Int(IK, Z),
    Str(String),
    Enum(u8, Vec<V>),
    Array(K, Vec<V>),
    Tuple(Vec<V>),
    Map(K, K, Vec<(V, V)>),
    Custom(C),
}

impl V {
    pub fn kind(&self) -> K {
        match self {
            V::Bool(_) => K::Bool,
            V::Int(i, _) => K::Int(*i),
            V::Str(_) => K::String,
            V::Enum(..) => K::Enum,
            V::Array(..) => K::Array,
            V::Tuple(_) => K::Tuple,
            V::Map(..) => K::Map,
            V::Custom(c) => K::Custom(c.kind()),
        }
    }
    pub fn depth(&self) -> usize {
        match self {
            V::Enum(_, f) | V::Array(_, f) | V::Tuple(f) => {
                1 + f.iter().map(|x| x.depth()).max().unwrap_or(0)
            }
            V::Map(_, _, e) => {
                1 + e.iter().map(|(k, v)| k.depth().max(v.depth())).max().unwrap_or(0)
            }
            _ => 1,
        }
    }
    pub fn nodes(&self) -> usize {
        match self {
            V::Enum(_, f) | V::Array(_, f) | V::Tuple(f) => {
                1 + f.iter().map(|x| x.nodes()).sum::<usize>()
            }
            V::Map(_, _, e) => 1 + e.iter().map(|(k, v)| k.nodes() + v.nodes()).sum::<usize>(),
            _ => 1,
        }
    }
    pub fn any_custom(&self, p: &dyn Fn(&C) -> bool) -> bool {
        match self {
            V::Enum(_, f) | V::Array(_, f) | V::Tuple(f) => f.iter().any(|x| x.any_custom(p)),
            V::Map(_, _, e) => e.iter().any(|(k, v)| k.any_custom(p) || v.any_custom(p)),
            V::Custom(c) => p(c),
            _ => false,
        }
    }
    pub fn coq(&self) -> String {
        let mut s = String::new();
        self.coq_into(&mut s);
        s
    }
    fn coq_into(&self, s: &mut String) {
        use std::fmt::Write;
        match self {
            V::Bool(b) => {
                let _ = write!(s, "(VBool {})", coq_bool(*b));
            }
            V::Int(i, z) => {
                let _ = write!(s, "(VInt {} {})", i.coq(), z.coq());
            }
            V::Str(x) => {
                let _ = write!(s, "(VString {})", coq_bytes(x.as_bytes()));
            }
            V::Enum(d, f) => {
                let _ = write!(s, "(VEnum {} ", d);
                list_into(f, s);
                s.push(')');
            }
            V::Array(k, f) => {
                let _ = write!(s, "(VArray {} ", k.coq());
                list_into(f, s);
                s.push(')');
            }
            V::Tuple(f) => {
                s.push_str("(VTuple ");
                list_into(f, s);
                s.push(')');
            }
            V::Map(kk, vk, e) => {
                let _ = write!(s, "(VMap {} {} [", kk.coq(), vk.coq());
                for (i, (k, v)) in e.iter().enumerate() {
                    if i > 0 {
                        s.push(';');
                    }
                    s.push('(');
                    k.coq_into(s);
                    s.push(',');
                    v.coq_into(s);
                    s.push(')');
                }
                s.push_str("])");
            }
            V::Custom(c) => {
                let _ = write!(s, "(VCustom {})", c.coq());
            }
        }
    }
}
fn list_into(f: &[V], s: &mut String) {
    s.push('[');
    for (i, x) in f.iter().enumerate() {
        if i > 0 {
            s.push(';');
        }
        x.coq_into(s);
    }
    s.push(']');
}

// ------------------------------------------------------------------------------------------------
// errors -> Coq terms of the model's error types
// ------------------------------------------------------------------------------------------------
pub fn coq_dec_err(e: &DecodeError) -> String {
    match e {
        DecodeError::ExtraTrailingBytes(n) => format!("(ExtraTrailingBytes {})", n),
        DecodeError::BufferUnderflow { required, remaining } => {
            format!("(BufferUnderflow {} {})", required, remaining)
        }
        DecodeError::UnexpectedPayloadPrefix { expected, actual } => {
            format!("(UnexpectedPayloadPrefix {} {})", expected, actual)
        }
        DecodeError::UnexpectedValueKind { expected, actual } => {
            format!("(UnexpectedValueKind {} {})", expected, actual)
        }
        DecodeError::UnexpectedCustomValueKind { actual } => {
            format!("(UnexpectedCustomValueKind {})", actual)
        }
        DecodeError::UnexpectedSize { expected, actual } => {
            format!("(UnexpectedSize {} {})", expected, actual)
        }
        DecodeError::UnexpectedDiscriminator { expected, actual } => {
            format!("(UnexpectedDiscriminator {} {})", expected, actual)
        }
        DecodeError::UnknownValueKind(b) => format!("(UnknownValueKind {})", b),
        DecodeError::UnknownDiscriminator(b) => format!("(UnknownDiscriminator {})", b),
        DecodeError::InvalidBool(b) => format!("(InvalidBool {})", b),
        DecodeError::InvalidUtf8 => "InvalidUtf8".into(),
        DecodeError::InvalidSize => "InvalidSize".into(),
        DecodeError::MaxDepthExceeded(n) => format!("(MaxDepthExceeded {})", n),
        DecodeError::DuplicateKey => "DuplicateKey".into(),
        DecodeError::InvalidCustomValue => "InvalidCustomValue".into(),
    }
}
pub fn dec_err_class(e: &DecodeError) -> &'static str {
    match e {
        DecodeError::ExtraTrailingBytes(_) => "ExtraTrailingBytes",
        DecodeError::BufferUnderflow { .. } => "BufferUnderflow",
        DecodeError::UnexpectedPayloadPrefix { .. } => "UnexpectedPayloadPrefix",
        DecodeError::UnexpectedValueKind { .. } => "UnexpectedValueKind",
        DecodeError::UnexpectedCustomValueKind { .. } => "UnexpectedCustomValueKind",
        DecodeError::UnexpectedSize { .. } => "UnexpectedSize",
        DecodeError::UnexpectedDiscriminator { .. } => "UnexpectedDiscriminator",
        DecodeError::UnknownValueKind(_) => "UnknownValueKind",
        DecodeError::UnknownDiscriminator(_) => "UnknownDiscriminator",
        DecodeError::InvalidBool(_) => "InvalidBool",
        DecodeError::InvalidUtf8 => "InvalidUtf8",
        DecodeError::InvalidSize => "InvalidSize",
        DecodeError::MaxDepthExceeded(_) => "MaxDepthExceeded",
        DecodeError::DuplicateKey => "DuplicateKey",
        DecodeError::InvalidCustomValue => "InvalidCustomValue",
    }
}
pub fn coq_enc_err(e: &EncodeError) -> String {
    match e {
        EncodeError::MaxDepthExceeded(n) => format!("(EMaxDepthExceeded {})", n),
        EncodeError::SizeTooLarge { actual, max_allowed } => {
            format!("(ESizeTooLarge {} {})", actual, max_allowed)
        }
        EncodeError::MismatchingArrayElementValueKind { element_value_kind, actual_value_kind } => {
            format!("(EMismatchingArrayElementValueKind {} {})", element_value_kind, actual_value_kind)
        }
        EncodeError::MismatchingMapKeyValueKind { key_value_kind, actual_value_kind } => {
            format!("(EMismatchingMapKeyValueKind {} {})", key_value_kind, actual_value_kind)
        }
        EncodeError::MismatchingMapValueValueKind { value_value_kind, actual_value_kind } => {
            format!("(EMismatchingMapValueValueKind {} {})", value_value_kind, actual_value_kind)
        }
    }
}
pub fn enc_err_class(e: &EncodeError) -> &'static str {
    match e {
        EncodeError::MaxDepthExceeded(_) => "MaxDepthExceeded",
        EncodeError::SizeTooLarge { .. } => "SizeTooLarge",
        EncodeError::MismatchingArrayElementValueKind { .. } => "MismatchingArrayElementValueKind",
        EncodeError::MismatchingMapKeyValueKind { .. } => "MismatchingMapKeyValueKind",
        EncodeError::MismatchingMapValueValueKind { .. } => "MismatchingMapValueValueKind",
    }
}
/// outcome of a call on the implementation: Ok / Err / Panic, as a Coq `result` term
pub fn coq_result<T, E>(
    r: &Result<Result<T, E>, String>,
    ok: impl Fn(&T) -> String,
    err: impl Fn(&E) -> String,
) -> String {
    match r {
        Ok(Ok(x)) => format!("(Ok {})", ok(x)),
        Ok(Err(e)) => format!("(Err {})", err(e)),
        Err(_) => "Panic".into(),
    }
}

// ------------------------------------------------------------------------------------------------
// IR <-> implementation values, per flavour
// ------------------------------------------------------------------------------------------------
pub trait Flavour {
    const FL: Fl;
    type X: CustomValueKind;
    type Y: CustomValue<Self::X> + Clone + PartialEq + Eq + core::fmt::Debug;
    type T: CustomTraversal<CustomValueKind = Self::X>;
    fn ck_to(c: CK) -> Self::X;
    fn ck_from(x: Self::X) -> CK;
    fn c_to(c: &C) -> Self::Y;
    fn c_from(y: &Self::Y) -> C;
    fn encode(v: &Value<Self::X, Self::Y>, limit: usize) -> Result<Vec<u8>, EncodeError>;
    fn decode(b: &[u8], limit: usize) -> Result<Value<Self::X, Self::Y>, DecodeError>;
    fn custom_ref_to_c(r: &<Self::T as CustomTraversal>::CustomTerminalValueRef<'_>) -> C;
}

pub struct FBasic;
pub struct FScrypto;
pub struct FManifest;

impl Flavour for FBasic {
    const FL: Fl = Fl::Basic;
    type X = NoCustomValueKind;
    type Y = NoCustomValue;
    type T = NoCustomTraversal;
    fn ck_to(_: CK) -> Self::X {
        panic!("harness: custom kind in basic flavour")
    }
    fn ck_from(x: Self::X) -> CK {
        match x {}
    }
    fn c_to(_: &C) -> Self::Y {
        panic!("harness: custom value in basic flavour")
    }
    fn c_from(y: &Self::Y) -> C {
        match *y {}
    }
    fn encode(v: &BasicValue, limit: usize) -> Result<Vec<u8>, EncodeError> {
        basic_encode_with_depth_limit(v, limit)
    }
    fn decode(b: &[u8], limit: usize) -> Result<BasicValue, DecodeError> {
        basic_decode_with_depth_limit(b, limit)
    }
    fn custom_ref_to_c(r: &NoCustomTerminalValueRef) -> C {
        match *r {}
    }
}

fn nf_to_scrypto(n: &Nf) -> NonFungibleLocalId {
    match n {
        Nf::Str(s) => NonFungibleLocalId::string(std::str::from_utf8(s).unwrap())
            .expect("harness: scrypto ids are generated valid"),
        Nf::Int(i) => NonFungibleLocalId::integer(*i),
        Nf::Bytes(b) => NonFungibleLocalId::bytes(b.clone())
            .expect("harness: scrypto ids are generated valid"),
        Nf::Ruid(b) => NonFungibleLocalId::ruid(*b),
    }
}
fn nf_from_scrypto(n: &NonFungibleLocalId) -> Nf {
    match n {
        NonFungibleLocalId::String(s) => Nf::Str(s.value().as_bytes().to_vec()),
        NonFungibleLocalId::Integer(i) => Nf::Int(i.value()),
        NonFungibleLocalId::Bytes(b) => Nf::Bytes(b.value().to_vec()),
        NonFungibleLocalId::RUID(b) => Nf::Ruid(*b.value()),
    }
}
fn arr<const N: usize>(v: Vec<u8>) -> [u8; N] {
    v.try_into().expect("harness: fixed-size body")
}

impl Flavour for FScrypto {
    const FL: Fl = Fl::Scrypto;
    type X = ScryptoCustomValueKind;
    type Y = ScryptoCustomValue;
    type T = ScryptoCustomTraversal;
    fn ck_to(c: CK) -> Self::X {
        match c {
            CK::SReference => ScryptoCustomValueKind::Reference,
            CK::SOwn => ScryptoCustomValueKind::Own,
            CK::SDecimal => ScryptoCustomValueKind::Decimal,
            CK::SPreciseDecimal => ScryptoCustomValueKind::PreciseDecimal,
            CK::SNf => ScryptoCustomValueKind::NonFungibleLocalId,
            _ => panic!("harness: manifest kind in scrypto flavour"),
        }
    }
    fn ck_from(x: Self::X) -> CK {
        match x {
            ScryptoCustomValueKind::Reference => CK::SReference,
            ScryptoCustomValueKind::Own => CK::SOwn,
            ScryptoCustomValueKind::Decimal => CK::SDecimal,
            ScryptoCustomValueKind::PreciseDecimal => CK::SPreciseDecimal,
            ScryptoCustomValueKind::NonFungibleLocalId => CK::SNf,
        }
    }
    fn c_to(c: &C) -> Self::Y {
        match c {
            C::SReference(b) => ScryptoCustomValue::Reference(Reference(NodeId(*b))),
            C::SOwn(b) => ScryptoCustomValue::Own(Own(NodeId(*b))),
            C::SDecimal(b) => ScryptoCustomValue::Decimal(Decimal::try_from(&b[..]).unwrap()),
            C::SPreciseDecimal(b) => {
                ScryptoCustomValue::PreciseDecimal(PreciseDecimal::try_from(&b[..]).unwrap())
            }
            C::SNf(n) => ScryptoCustomValue::NonFungibleLocalId(nf_to_scrypto(n)),
            _ => panic!("harness: manifest value in scrypto flavour"),
        }
    }
    fn c_from(y: &Self::Y) -> C {
        match y {
            ScryptoCustomValue::Reference(r) => C::SReference(r.0 .0),
            ScryptoCustomValue::Own(r) => C::SOwn(r.0 .0),
            ScryptoCustomValue::Decimal(d) => C::SDecimal(arr(d.to_vec())),
            ScryptoCustomValue::PreciseDecimal(d) => C::SPreciseDecimal(arr(d.to_vec())),
            ScryptoCustomValue::NonFungibleLocalId(n) => C::SNf(nf_from_scrypto(n)),
        }
    }
    fn encode(v: &ScryptoValue, limit: usize) -> Result<Vec<u8>, EncodeError> {
        scrypto_encode_with_depth_limit(v, limit)
    }
    fn decode(b: &[u8], limit: usize) -> Result<ScryptoValue, DecodeError> {
        scrypto_decode_with_depth_limit(b, limit)
    }
    fn custom_ref_to_c(r: &ScryptoCustomTerminalValueRef) -> C {
        Self::c_from(&r.0)
    }
}

impl Flavour for FManifest {
    const FL: Fl = Fl::Manifest;
    type X = ManifestCustomValueKind;
    type Y = ManifestCustomValue;
    type T = ManifestCustomTraversal;
    fn ck_to(c: CK) -> Self::X {
        use ManifestCustomValueKind as M;
        match c {
            CK::MAddress => M::Address,
            CK::MBucket => M::Bucket,
            CK::MProof => M::Proof,
            CK::MExpression => M::Expression,
            CK::MBlob => M::Blob,
            CK::MDecimal => M::Decimal,
            CK::MPreciseDecimal => M::PreciseDecimal,
            CK::MNf => M::NonFungibleLocalId,
            CK::MAddressReservation => M::AddressReservation,
            _ => panic!("harness: scrypto kind in manifest flavour"),
        }
    }
    fn ck_from(x: Self::X) -> CK {
        use ManifestCustomValueKind as M;
        match x {
            M::Address => CK::MAddress,
            M::Bucket => CK::MBucket,
            M::Proof => CK::MProof,
            M::Expression => CK::MExpression,
            M::Blob => CK::MBlob,
            M::Decimal => CK::MDecimal,
            M::PreciseDecimal => CK::MPreciseDecimal,
            M::NonFungibleLocalId => CK::MNf,
            M::AddressReservation => CK::MAddressReservation,
        }
    }
    fn c_to(c: &C) -> Self::Y {
        use ManifestCustomValue as M;
        match c {
            // public enum variants: no validation on this path (the known finding)
            C::MAddressStatic(b) => M::Address(ManifestAddress::Static(NodeId(*b))),
            C::MAddressNamed(n) => M::Address(ManifestAddress::Named(ManifestNamedAddress(*n))),
            C::MBucket(n) => M::Bucket(ManifestBucket(*n)),
            C::MProof(n) => M::Proof(ManifestProof(*n)),
            C::MExpression(az) => M::Expression(if *az {
                ManifestExpression::EntireAuthZone
            } else {
                ManifestExpression::EntireWorktop
            }),
            C::MBlob(b) => M::Blob(ManifestBlobRef(*b)),
            C::MDecimal(b) => M::Decimal(ManifestDecimal(*b)),
            C::MPreciseDecimal(b) => M::PreciseDecimal(ManifestPreciseDecimal(*b)),
            C::MNf(n) => M::NonFungibleLocalId(match n {
                Nf::Str(s) => {
                    ManifestNonFungibleLocalId::String(String::from_utf8(s.clone()).unwrap())
                }
                Nf::Int(i) => ManifestNonFungibleLocalId::Integer(*i),
                Nf::Bytes(b) => ManifestNonFungibleLocalId::Bytes(b.clone()),
                Nf::Ruid(b) => ManifestNonFungibleLocalId::RUID(*b),
            }),
            C::MAddressReservation(n) => M::AddressReservation(ManifestAddressReservation(*n)),
            _ => panic!("harness: scrypto value in manifest flavour"),
        }
    }
    fn c_from(y: &Self::Y) -> C {
        use ManifestCustomValue as M;
        match y {
            M::Address(ManifestAddress::Static(n)) => C::MAddressStatic(n.0),
            M::Address(ManifestAddress::Named(n)) => C::MAddressNamed(n.0),
            M::Bucket(b) => C::MBucket(b.0),
            M::Proof(b) => C::MProof(b.0),
            M::Expression(e) => C::MExpression(matches!(e, ManifestExpression::EntireAuthZone)),
            M::Blob(b) => C::MBlob(b.0),
            M::Decimal(b) => C::MDecimal(b.0),
            M::PreciseDecimal(b) => C::MPreciseDecimal(b.0),
            M::NonFungibleLocalId(n) => C::MNf(match n {
                ManifestNonFungibleLocalId::String(s) => Nf::Str(s.as_bytes().to_vec()),
                ManifestNonFungibleLocalId::Integer(i) => Nf::Int(*i),
                ManifestNonFungibleLocalId::Bytes(b) => Nf::Bytes(b.clone()),
                ManifestNonFungibleLocalId::RUID(b) => Nf::Ruid(*b),
            }),
            M::AddressReservation(b) => C::MAddressReservation(b.0),
        }
    }
    fn encode(v: &ManifestValue, limit: usize) -> Result<Vec<u8>, EncodeError> {
        manifest_encode_with_depth_limit(v, limit)
    }
    fn decode(b: &[u8], limit: usize) -> Result<ManifestValue, DecodeError> {
        manifest_decode_with_depth_limit(b, limit)
    }
    fn custom_ref_to_c(r: &ManifestCustomTerminalValueRef) -> C {
        Self::c_from(&r.0)
    }
}

pub fn k_to<F: Flavour>(k: K) -> ValueKind<F::X> {
    match k {
        K::Bool => ValueKind::Bool,
        K::Int(IK::I8) => ValueKind::I8,
        K::Int(IK::I16) => ValueKind::I16,
        K::Int(IK::I32) => ValueKind::I32,
        K::Int(IK::I64) => ValueKind::I64,
        K::Int(IK::I128) => ValueKind::I128,
        K::Int(IK::U8) => ValueKind::U8,
        K::Int(IK::U16) => ValueKind::U16,
        K::Int(IK::U32) => ValueKind::U32,
        K::Int(IK::U64) => ValueKind::U64,
        K::Int(IK::U128) => ValueKind::U128,
        K::String => ValueKind::String,
        K::Enum => ValueKind::Enum,
        K::Array => ValueKind::Array,
        K::Tuple => ValueKind::Tuple,
        K::Map => ValueKind::Map,
        K::Custom(c) => ValueKind::Custom(F::ck_to(c)),
    }
}
pub fn k_from<F: Flavour>(k: ValueKind<F::X>) -> K {
    match k {
        ValueKind::Bool => K::Bool,
        ValueKind::I8 => K::Int(IK::I8),
        ValueKind::I16 => K::Int(IK::I16),
        ValueKind::I32 => K::Int(IK::I32),
        ValueKind::I64 => K::Int(IK::I64),
        ValueKind::I128 => K::Int(IK::I128),
        ValueKind::U8 => K::Int(IK::U8),
        ValueKind::U16 => K::Int(IK::U16),
        ValueKind::U32 => K::Int(IK::U32),
        ValueKind::U64 => K::Int(IK::U64),
        ValueKind::U128 => K::Int(IK::U128),
        ValueKind::String => K::String,
        ValueKind::Enum => K::Enum,
        ValueKind::Array => K::Array,
        ValueKind::Tuple => K::Tuple,
        ValueKind::Map => K::Map,
        ValueKind::Custom(x) => K::Custom(F::ck_from(x)),
    }
}

pub fn v_to<F: Flavour>(v: &V) -> Value<F::X, F::Y> {
    match v {
        V::Bool(b) => Value::Bool { value: *b },
        V::Int(i, z) => {
            let s = match z {
                Z::S(x) => *x,
                Z::U(x) => *x as i128,
            };
            let u = match z {
                Z::S(x) => *x as u128,
                Z::U(x) => *x,
            };
            match i {
                IK::I8 => Value::I8 { value: s as i8 },
                IK::I16 => Value::I16 { value: s as i16 },
                IK::I32 => Value::I32 { value: s as i32 },
                IK::I64 => Value::I64 { value: s as i64 },
                IK::I128 => Value::I128 { value: s },
                IK::U8 => Value::U8 { value: u as u8 },
                IK::U16 => Value::U16 { value: u as u16 },
                IK::U32 => Value::U32 { value: u as u32 },
                IK::U64 => Value::U64 { value: u as u64 },
                IK::U128 => Value::U128 { value: u },
            }
        }
        V::Str(s) => Value::String { value: s.clone() },
        V::Enum(d, f) => Value::Enum {
            discriminator: *d,
            fields: f.iter().map(v_to::<F>).collect(),
        },
        V::Array(k, f) => Value::Array {
            element_value_kind: k_to::<F>(*k),
            elements: f.iter().map(v_to::<F>).collect(),
        },
        V::Tuple(f) => Value::Tuple { fields: f.iter().map(v_to::<F>).collect() },
        V::Map(kk, vk, e) => Value::Map {
            key_value_kind: k_to::<F>(*kk),
            value_value_kind: k_to::<F>(*vk),
            entries: e.iter().map(|(k, v)| (v_to::<F>(k), v_to::<F>(v))).collect(),
        },
        V::Custom(c) => Value::Custom { value: F::c_to(c) },
    }
}
pub fn v_from<F: Flavour>(v: &Value<F::X, F::Y>) -> V {
    match v {
        Value::Bool { value } => V::Bool(*value),
        Value::I8 { value } => V::Int(IK::I8, Z::S(*value as i128)),
        Value::I16 { value } => V::Int(IK::I16, Z::S(*value as i128)),
        Value::I32 { value } => V::Int(IK::I32, Z::S(*value as i128)),
        Value::I64 { value } => V::Int(IK::I64, Z::S(*value as i128)),
        Value::I128 { value } => V::Int(IK::I128, Z::S(*value)),
        Value::U8 { value } => V::Int(IK::U8, Z::U(*value as u128)),
        Value::U16 { value } => V::Int(IK::U16, Z::U(*value as u128)),
        Value::U32 { value } => V::Int(IK::U32, Z::U(*value as u128)),
        Value::U64 { value } => V::Int(IK::U64, Z::U(*value as u128)),
        Value::U128 { value } => V::Int(IK::U128, Z::U(*value)),
        Value::String { value } => V::Str(value.clone()),
        Value::Enum { discriminator, fields } => {
            V::Enum(*discriminator, fields.iter().map(v_from::<F>).collect())
        }
        Value::Array { element_value_kind, elements } => {
            V::Array(k_from::<F>(*element_value_kind), elements.iter().map(v_from::<F>).collect())
        }
        Value::Tuple { fields } => V::Tuple(fields.iter().map(v_from::<F>).collect()),
        Value::Map { key_value_kind, value_value_kind, entries } => V::Map(
            k_from::<F>(*key_value_kind),
            k_from::<F>(*value_value_kind),
            entries.iter().map(|(k, v)| (v_from::<F>(k), v_from::<F>(v))).collect(),
        ),
        Value::Custom { value } => V::Custom(F::c_from(value)),
    }
}

// ------------------------------------------------------------------------------------------------
// generators
// ------------------------------------------------------------------------------------------------
pub fn gen_string(rng: &mut Rng) -> String {
    let n = match rng.below(10) {
        0 => 0,
        1..=6 => rng.range(1, 8),
        7..=8 => rng.range(9, 40),
        _ => rng.range(100, 300),
    } as usize;
    let mut s = String::new();
    for _ in 0..n {
        let c = match rng.below(8) {
            0..=3 => rng.range(0x20, 0x7e) as u32,
            4 => *rng.pick(&[0u32, 0x7f, 0x80, 0x7ff, 0x800, 0xffff, 0x10000, 0x10ffff, 0xd7ff, 0xe000]),
            5 => rng.range(0x80, 0x7ff) as u32,
            6 => rng.range(0x800, 0xffff) as u32,
            _ => rng.range(0x10000, 0x10ffff) as u32,
        };
        if let Some(ch) = char::from_u32(c) {
            s.push(ch);
        }
    }
    s
}
pub fn gen_int(rng: &mut Rng, i: IK) -> V {
    let bits = i.bits();
    let raw: u128 = match rng.below(6) {
        0 => 0,
        1 => u128::MAX,                     // -1 / MAX
        2 => 1u128 << (bits - 1),           // MIN of the signed kind
        3 => (1u128 << (bits - 1)) - 1,     // MAX of the signed kind
        4 => rng.below(300) as u128,
        _ => ((rng.next_u64() as u128) << 64) | rng.next_u64() as u128,
    };
    let mask = if bits == 128 { u128::MAX } else { (1u128 << bits) - 1 };
    let raw = raw & mask;
    if i.signed() {
        // sign-extend from `bits`
        let shift = 128 - bits;
        V::Int(i, Z::S(((raw << shift) as i128) >> shift))
    } else {
        V::Int(i, Z::U(raw))
    }
}
fn gen_nf(rng: &mut Rng, allow_invalid: bool) -> Nf {
    const CH: &[u8] = b"abcdefghijklmnopqrstuvwxyzABCDEFGHIJKLMNOPQRSTUVWXYZ0123456789_";
    let invalid = allow_invalid && rng.chance(1, 6);
    match rng.below(4) {
        0 => {
            if invalid {
                match rng.below(4) {
                    0 => Nf::Str(vec![]),
                    1 => Nf::Str((0..65 + rng.below(5)).map(|_| *rng.pick(CH)).collect()),
                    2 => Nf::Str("a-b".as_bytes().to_vec()),
                    _ => Nf::Str("é_1".as_bytes().to_vec()),
                }
            } else {
                let n = *rng.pick(&[1u64, 2, 5, 17, 63, 64]);
                Nf::Str((0..n).map(|_| *rng.pick(CH)).collect())
            }
        }
        1 => { let r = rng.next_u64(); Nf::Int(*rng.pick(&[0u64, 1, 255, 256, u64::MAX, r])) }
        2 => {
            if invalid {
                if rng.bool() {
                    Nf::Bytes(vec![])
                } else {
                    { let n = 65 + rng.usize_below(70); Nf::Bytes(rng.bytes(n)) }
                }
            } else {
                let n = *rng.pick(&[1usize, 2, 31, 64]);
                Nf::Bytes(rng.bytes(n))
            }
        }
        _ => Nf::Ruid(arr(rng.bytes(32))),
    }
}
fn entity_bytes() -> Vec<u8> {
    (0u16..=255).filter(|b| EntityType::from_repr(*b as u8).is_some()).map(|b| b as u8).collect()
}
pub fn gen_custom(rng: &mut Rng, ck: CK, allow_invalid: bool) -> C {
    match ck {
        CK::SReference => C::SReference(arr(rng.bytes(30))),
        CK::SOwn => C::SOwn(arr(rng.bytes(30))),
        CK::SDecimal => C::SDecimal(arr(rng.bytes(24))),
        CK::SPreciseDecimal => C::SPreciseDecimal(arr(rng.bytes(32))),
        CK::SNf => C::SNf(gen_nf(rng, false)),
        CK::MAddress => {
            if rng.chance(1, 3) {
                { let r = rng.next_u32(); C::MAddressNamed(*rng.pick(&[0u32, 1, 255, 65536, u32::MAX, r])) }
            } else {
                let mut b: [u8; 30] = arr(rng.bytes(30));
                if !(allow_invalid && rng.chance(1, 5)) {
                    b[0] = *rng.pick(&entity_bytes());
                }
                C::MAddressStatic(b)
            }
        }
        CK::MBucket => { let r = rng.next_u32(); C::MBucket(*rng.pick(&[0u32, 1, 256, u32::MAX, r])) }
        CK::MProof => { let r = rng.next_u32(); C::MProof(*rng.pick(&[0u32, 7, u32::MAX, r])) }
        CK::MExpression => C::MExpression(rng.bool()),
        CK::MBlob => C::MBlob(arr(rng.bytes(32))),
        CK::MDecimal => C::MDecimal(arr(rng.bytes(24))),
        CK::MPreciseDecimal => C::MPreciseDecimal(arr(rng.bytes(32))),
        CK::MNf => C::MNf(gen_nf(rng, allow_invalid)),
        CK::MAddressReservation => { let r = rng.next_u32(); C::MAddressReservation(*rng.pick(&[0u32, 3, u32::MAX, r])) }
    }
}

pub struct GenCfg {
    pub fl: Fl,
    pub max_depth: usize,       // value depth bound
    pub budget: usize,          // remaining node budget (shared)
    pub allow_invalid_custom: bool,
    pub allow_kind_mismatch: bool,
}

pub fn gen_kind(rng: &mut Rng, fl: Fl, leaf_only: bool) -> K {
    let customs = fl.custom_kinds();
    let r = rng.below(if leaf_only { 14 } else { 20 });
    match r {
        0 => K::Bool,
        1..=5 => K::Int(*rng.pick(&IKS)),
        6 => K::Int(IK::U8),
        7..=8 => K::String,
        9..=13 => {
            if customs.is_empty() {
                K::Int(*rng.pick(&IKS))
            } else {
                K::Custom(*rng.pick(customs))
            }
        }
        14..=15 => K::Tuple,
        16 => K::Enum,
        17..=18 => K::Array,
        _ => K::Map,
    }
}
fn gen_len(rng: &mut Rng, cfg: &GenCfg) -> usize {
    let n = match rng.below(12) {
        0 => 0,
        1..=6 => rng.range(1, 3),
        7..=9 => rng.range(4, 9),
        10 => rng.range(10, 40),
        _ => rng.range(100, 300),
    } as usize;
    n.min(cfg.budget)
}
/// a value of kind `k` with depth <= d (d >= 1)
pub fn gen_of_kind(rng: &mut Rng, cfg: &mut GenCfg, k: K, d: usize) -> V {
    cfg.budget = cfg.budget.saturating_sub(1);
    let leaf = d <= 1;
    match k {
        K::Bool => V::Bool(rng.bool()),
        K::Int(i) => gen_int(rng, i),
        K::String => V::Str(gen_string(rng)),
        K::Custom(c) => V::Custom(gen_custom(rng, c, cfg.allow_invalid_custom)),
        K::Tuple | K::Enum => {
            let n = if leaf { 0 } else { gen_len(rng, cfg).min(12) };
            let mut f = Vec::new();
            for _ in 0..n {
                let ck = gen_kind(rng, cfg.fl, d <= 2 || cfg.budget < 4);
                f.push(gen_of_kind(rng, cfg, ck, d - 1));
            }
            if k == K::Tuple {
                V::Tuple(f)
            } else {
                { let r = rng.next_u64() as u8; V::Enum(*rng.pick(&[0u8, 1, 2, 255, r]), f) }
            }
        }
        K::Array => {
            let ek = gen_kind(rng, cfg.fl, d <= 2 || cfg.budget < 4);
            let mut n = if leaf { 0 } else { gen_len(rng, cfg) };
            if ek == K::Int(IK::U8) && !leaf && rng.chance(1, 4) {
                n = *rng.pick(&[127usize, 128, 129, 300, 1023, 1024, 1025, 2000]); // LEB128 / capacity edges
            }
            let mut f = Vec::new();
            for _ in 0..n {
                let k2 = if cfg.allow_kind_mismatch && rng.chance(1, 40) {
                    gen_kind(rng, cfg.fl, true)
                } else {
                    ek
                };
                f.push(gen_of_kind(rng, cfg, k2, d - 1));
            }
            V::Array(ek, f)
        }
        K::Map => {
            let leafk = rng.chance(3, 4);
            let kk = gen_kind(rng, cfg.fl, d <= 2 || cfg.budget < 4 || leafk);
            let vk = gen_kind(rng, cfg.fl, d <= 2 || cfg.budget < 4);
            let n = if leaf { 0 } else { gen_len(rng, cfg).min(20) };
            let mut e = Vec::new();
            for _ in 0..n {
                let k1 = if cfg.allow_kind_mismatch && rng.chance(1, 40) { gen_kind(rng, cfg.fl, true) } else { kk };
                let k2 = if cfg.allow_kind_mismatch && rng.chance(1, 40) { gen_kind(rng, cfg.fl, true) } else { vk };
                let a = gen_of_kind(rng, cfg, k1, d - 1);
                let b = gen_of_kind(rng, cfg, k2, d - 1);
                e.push((a, b));
            }
            V::Map(kk, vk, e)
        }
    }
}
/// a deep chain (exact depth d) of nested containers ending in a leaf: exercises depth limits
pub fn gen_chain(rng: &mut Rng, cfg: &mut GenCfg, d: usize) -> V {
    if d <= 1 {
        let k = gen_kind(rng, cfg.fl, true);
        return gen_of_kind(rng, cfg, k, 1);
    }
    let inner = gen_chain(rng, cfg, d - 1);
    match rng.below(5) {
        0 => V::Tuple(vec![inner]),
        1 => V::Enum(rng.next_u64() as u8, vec![inner]),
        2 => V::Array(inner.kind(), vec![inner]),
        3 => {
            let k = gen_of_kind(rng, cfg, K::Int(IK::U8), 1);
            V::Map(K::Int(IK::U8), inner.kind(), vec![(k, inner)])
        }
        _ => {
            let x = gen_of_kind(rng, cfg, K::Bool, 1);
            V::Tuple(vec![x, inner])
        }
    }
}
pub fn gen_value(rng: &mut Rng, cfg: &mut GenCfg) -> V {
    if rng.chance(1, 5) {
        let d = rng.range(1, cfg.max_depth as u64) as usize;
        return gen_chain(rng, cfg, d);
    }
    let d = rng.range(1, cfg.max_depth as u64) as usize;
    let k = gen_kind(rng, cfg.fl, d <= 1);
    gen_of_kind(rng, cfg, k, d)
}

// malformed inputs ---------------------------------------------------------------------------
pub fn leb(n: usize) -> Vec<u8> {
    let mut out = vec![];
    let mut n = n;
    loop {
        let b = (n & 0x7f) as u8;
        n >>= 7;
        if n == 0 {
            out.push(b);
            break;
        }
        out.push(b | 0x80);
    }
    out
}
pub fn kind_bytes(fl: Fl) -> Vec<u8> {
    let mut v: Vec<u8> = vec![1, 2, 3, 4, 5, 6, 7, 8, 9, 10, 11, 12, 32, 33, 34, 35];
    match fl {
        Fl::Basic => {}
        Fl::Scrypto => v.extend([0x80, 0x90, 0xa0, 0xb0, 0xc0]),
        Fl::Manifest => v.extend(0x80..=0x88u8),
    }
    v
}
/// random bytes biased towards SBOR structure
pub fn gen_random_bytes(rng: &mut Rng, fl: Fl) -> Vec<u8> {
    let n = match rng.below(6) {
        0 => rng.range(0, 2),
        1..=3 => rng.range(3, 12),
        _ => rng.range(13, 80),
    } as usize;
    let kb = kind_bytes(fl);
    let mut out = Vec::new();
    if !rng.chance(1, 20) {
        out.push(fl.prefix());
    }
    while out.len() < n {
        match rng.below(8) {
            0..=3 => out.push(*rng.pick(&kb)),
            4..=5 => out.push(rng.below(4) as u8),
            6 => out.push(rng.next_u64() as u8),
            _ => { let n = rng.usize_below(6); out.extend(rng.bytes(n)) }
        }
    }
    out
}
/// one mutation of a valid payload
pub fn mutate(rng: &mut Rng, fl: Fl, p: &[u8]) -> (Vec<u8>, &'static str) {
    let mut b = p.to_vec();
    let kb = kind_bytes(fl);
    match rng.below(11) {
        0 if b.len() > 1 => {
            let n = rng.usize_below(b.len());
            b.truncate(n);
            (b, "truncate")
        }
        1 => {
            let n = 1 + rng.usize_below(3);
            b.extend(rng.bytes(n));
            (b, "trailing")
        }
        2 | 3 if !b.is_empty() => {
            let i = rng.usize_below(b.len());
            b[i] = rng.next_u64() as u8;
            (b, "flip_byte")
        }
        4 if b.len() > 1 => {
            // replace a byte by a kind byte (wrong element kinds, unknown kinds)
            let i = 1 + rng.usize_below(b.len() - 1);
            b[i] = if rng.chance(1, 4) { *rng.pick(&[0u8, 13, 31, 36, 0x7f, 0x89, 0xff]) } else { *rng.pick(&kb) };
            (b, "kind_byte")
        }
        5 if b.len() > 2 => {
            // non-minimal LEB128: turn a small byte x (<0x80) into x|0x80, 0x00
            let i = 2 + rng.usize_below(b.len() - 2);
            if b[i] < 0x80 {
                b[i] |= 0x80;
                b.insert(i + 1, 0);
            }
            (b, "nonminimal_leb")
        }
        6 if b.len() > 2 => {
            // oversize LEB128
            let i = 2 + rng.usize_below(b.len() - 2);
            let ins: &[u8] = *rng.pick(&[&[0xffu8, 0xff, 0xff, 0x7f][..], &[0xff, 0xff, 0xff, 0xff, 0x00][..], &[0x80, 0x80, 0x80, 0x80][..], &[0x81, 0x01][..]]);
            b.splice(i..i + 1, ins.iter().cloned());
            (b, "leb_edge")
        }
        7 if b.len() > 2 => {
            let i = 1 + rng.usize_below(b.len() - 1);
            b.remove(i);
            (b, "delete_byte")
        }
        8 if b.len() > 2 => {
            let i = 1 + rng.usize_below(b.len() - 1);
            b.insert(i, *rng.pick(&[0u8, 1, 2, 0x80, 0xc0, 0xff, 0xed, 0xf4]));
            (b, "insert_byte")
        }
        9 if b.len() > 3 => {
            // set a byte >= 0x80 somewhere (bad UTF-8 if inside a string, bad bool, ...)
            let i = 2 + rng.usize_below(b.len() - 2);
            b[i] = *rng.pick(&[0x80u8, 0xbf, 0xc0, 0xc1, 0xe0, 0xed, 0xf4, 0xf5, 0xff, 2]);
            (b, "high_byte")
        }
        _ => {
            if !b.is_empty() {
                b[0] = *rng.pick(&[0x5bu8, 0x5c, 0x4d, 0x00]);
            }
            (b, "prefix")
        }
    }
}
/// hand-made string payload with invalid UTF-8 / edge encodings, for flavour fl
pub fn gen_bad_string_payload(rng: &mut Rng, fl: Fl) -> Vec<u8> {
    let bodies: [&[u8]; 14] = [
        &[0xc0, 0x80],
        &[0xc1, 0xbf],
        &[0xc2, 0x80],
        &[0xe0, 0x80, 0x80],
        &[0xe0, 0xa0, 0x80],
        &[0xed, 0xa0, 0x80],
        &[0xed, 0x9f, 0xbf],
        &[0xf0, 0x80, 0x80, 0x80],
        &[0xf0, 0x90, 0x80, 0x80],
        &[0xf4, 0x8f, 0xbf, 0xbf],
        &[0xf4, 0x90, 0x80, 0x80],
        &[0xf5, 0x80, 0x80, 0x80],
        &[0xe2, 0x82],
        &[0x80],
    ];
    let body = *rng.pick(&bodies);
    let mut s = vec![];
    if rng.bool() {
        s.extend(b"ab");
    }
    s.extend(body);
    if rng.bool() {
        s.push(b'z');
    }
    let mut out = vec![fl.prefix(), 12];
    out.extend(leb(s.len()));
    out.extend(s);
    out
}

// ------------------------------------------------------------------------------------------------
// deterministic boundary stream (same for every seed): every class below is hit on every run and
// carries a floor, so that no boundary class fires "by luck"
// ------------------------------------------------------------------------------------------------
pub fn k_u8(k: K) -> u8 {
    match k {
        K::Bool => 1,
        K::Int(i) => match i {
            IK::I8 => 2,
            IK::I16 => 3,
            IK::I32 => 4,
            IK::I64 => 5,
            IK::I128 => 6,
            IK::U8 => 7,
            IK::U16 => 8,
            IK::U32 => 9,
            IK::U64 => 10,
            IK::U128 => 11,
        },
        K::String => 12,
        K::Array => 32,
        K::Tuple => 33,
        K::Enum => 34,
        K::Map => 35,
        K::Custom(c) => match c {
            CK::SReference => 0x80,
            CK::SOwn => 0x90,
            CK::SDecimal => 0xa0,
            CK::SPreciseDecimal => 0xb0,
            CK::SNf => 0xc0,
            CK::MAddress => 0x80,
            CK::MBucket => 0x81,
            CK::MProof => 0x82,
            CK::MExpression => 0x83,
            CK::MBlob => 0x84,
            CK::MDecimal => 0x85,
            CK::MPreciseDecimal => 0x86,
            CK::MNf => 0x87,
            CK::MAddressReservation => 0x88,
        },
    }
}

/// a position of interest inside an encoded payload
#[derive(Clone, Debug)]
pub struct Mark {
    pub off: usize,
    pub len: usize,
    pub what: &'static str,
    pub value: usize,
}
pub const SIZE_KINDS: [&str; 7] = [
    "size.string", "size.tuple", "size.enum", "size.array", "size.map", "size.nf_string", "size.nf_bytes",
];

fn put_size(out: &mut Vec<u8>, marks: &mut Vec<Mark>, what: &'static str, n: usize) {
    let l = leb(n);
    marks.push(Mark { off: out.len(), len: l.len(), what, value: n });
    out.extend(l);
}
fn enc_nf_ir(n: &Nf, out: &mut Vec<u8>, marks: &mut Vec<Mark>) {
    marks.push(Mark { off: out.len(), len: 1, what: "disc.custom", value: 0 });
    match n {
        Nf::Str(s) => {
            out.push(0);
            put_size(out, marks, "size.nf_string", s.len());
            marks.push(Mark { off: out.len(), len: s.len(), what: "body.nf_string", value: 0 });
            out.extend(s);
        }
        Nf::Int(i) => {
            out.push(1);
            out.extend(i.to_be_bytes());
        }
        Nf::Bytes(b) => {
            out.push(2);
            put_size(out, marks, "size.nf_bytes", b.len());
            out.extend(b);
        }
        Nf::Ruid(b) => {
            out.push(3);
            out.extend(b);
        }
    }
}
fn enc_custom_ir(c: &C, out: &mut Vec<u8>, marks: &mut Vec<Mark>) {
    match c {
        C::SReference(b) | C::SOwn(b) => out.extend(b),
        C::SDecimal(b) | C::MDecimal(b) => out.extend(b),
        C::SPreciseDecimal(b) | C::MPreciseDecimal(b) | C::MBlob(b) => out.extend(b),
        C::SNf(n) | C::MNf(n) => enc_nf_ir(n, out, marks),
        C::MAddressStatic(b) => {
            marks.push(Mark { off: out.len(), len: 1, what: "disc.custom", value: 0 });
            out.push(0);
            marks.push(Mark { off: out.len(), len: 1, what: "entity", value: 0 });
            out.extend(b);
        }
        C::MAddressNamed(n) => {
            marks.push(Mark { off: out.len(), len: 1, what: "disc.custom", value: 0 });
            out.push(1);
            out.extend(n.to_le_bytes());
        }
        C::MBucket(n) | C::MProof(n) | C::MAddressReservation(n) => out.extend(n.to_le_bytes()),
        C::MExpression(b) => {
            marks.push(Mark { off: out.len(), len: 1, what: "expr", value: 0 });
            out.push(*b as u8);
        }
    }
}
/// harness-side encoder of the IR that records where the size prefixes, kind bytes, bools etc. are
/// (used only to place mutations; asserted equal to the implementation's encoding by the callers)
pub fn enc_ir(v: &V, with_kind: bool, out: &mut Vec<u8>, marks: &mut Vec<Mark>) {
    if with_kind {
        marks.push(Mark { off: out.len(), len: 1, what: "kind.value", value: 0 });
        out.push(k_u8(v.kind()));
    }
    match v {
        V::Bool(b) => {
            marks.push(Mark { off: out.len(), len: 1, what: "bool", value: 0 });
            out.push(*b as u8);
        }
        V::Int(i, z) => {
            let raw: u128 = match z {
                Z::S(x) => *x as u128,
                Z::U(x) => *x,
            };
            out.extend(&raw.to_le_bytes()[..(i.bits() / 8) as usize]);
        }
        V::Str(s) => {
            put_size(out, marks, "size.string", s.len());
            marks.push(Mark { off: out.len(), len: s.len(), what: "body.string", value: 0 });
            out.extend(s.as_bytes());
        }
        V::Enum(d, f) => {
            out.push(*d);
            put_size(out, marks, "size.enum", f.len());
            for x in f {
                enc_ir(x, true, out, marks);
            }
        }
        V::Tuple(f) => {
            put_size(out, marks, "size.tuple", f.len());
            for x in f {
                enc_ir(x, true, out, marks);
            }
        }
        V::Array(k, f) => {
            marks.push(Mark { off: out.len(), len: 1, what: "kind.elem", value: 0 });
            out.push(k_u8(*k));
            put_size(out, marks, "size.array", f.len());
            for x in f {
                enc_ir(x, false, out, marks);
            }
        }
        V::Map(kk, vk, e) => {
            marks.push(Mark { off: out.len(), len: 1, what: "kind.elem", value: 0 });
            out.push(k_u8(*kk));
            marks.push(Mark { off: out.len(), len: 1, what: "kind.elem", value: 0 });
            out.push(k_u8(*vk));
            put_size(out, marks, "size.map", e.len());
            for (a, b) in e {
                enc_ir(a, false, out, marks);
                enc_ir(b, false, out, marks);
            }
        }
        V::Custom(c) => enc_custom_ir(c, out, marks),
    }
}
pub fn payload_with_marks(fl: Fl, v: &V) -> (Vec<u8>, Vec<Mark>) {
    let mut out = vec![fl.prefix()];
    let mut marks = vec![];
    enc_ir(v, true, &mut out, &mut marks);
    (out, marks)
}

pub const LEB_VARIANTS: [&str; 3] = ["zero", "cont", "one"];
/// n written on exactly `width` LEB128 bytes (padded with 0x80 continuation bytes).
/// variant "zero": natural last byte (0x00 when padded) - a non-minimal encoding of the same size;
/// "cont": last byte additionally carries the continuation bit; "one": padded last byte is 0x01
/// (high bits set: a different, larger size on the same width)
pub fn leb_padded(n: usize, width: usize, variant: &str) -> Option<Vec<u8>> {
    let minimal = leb(n).len();
    if width < minimal || width > 10 {
        return None;
    }
    let mut out = Vec::new();
    for i in 0..width {
        let digit = ((n >> (7 * i)) & 0x7f) as u8;
        out.push(if i + 1 < width { digit | 0x80 } else { digit });
    }
    let last = width - 1;
    match variant {
        "zero" => {
            if width == minimal {
                return None; // the canonical encoding itself
            }
        }
        "cont" => out[last] |= 0x80,
        "one" => {
            if width == minimal {
                return None;
            }
            out[last] = 0x01;
        }
        _ => return None,
    }
    Some(out)
}
pub const BOUNDARY_SIZES: [usize; 9] =
    [127, 128, 16383, 16384, 2097151, 2097152, 0x0FFFFFFF, 0x10000000, 0x7FFFFFFF];

fn splice(p: &[u8], m: &Mark, with: &[u8]) -> Vec<u8> {
    let mut b = p[..m.off].to_vec();
    b.extend(with);
    b.extend(&p[m.off + m.len..]);
    b
}

/// the value whose payload contains every kind of size prefix / kind byte / bool / custom body once
pub fn boundary_value(fl: Fl) -> V {
    let mut f = vec![
        V::Str("h\u{e9}".to_string()),
        V::Enum(1, vec![V::Bool(true)]),
        V::Array(K::Int(IK::U8), vec![V::Int(IK::U8, Z::U(1)), V::Int(IK::U8, Z::U(2))]),
        V::Array(K::String, vec![V::Str("a".to_string())]),
        V::Map(K::Int(IK::U8), K::Bool, vec![(V::Int(IK::U8, Z::U(1)), V::Bool(false))]),
    ];
    match fl {
        Fl::Basic => {}
        Fl::Scrypto => {
            f.push(V::Custom(C::SNf(Nf::Str(b"a_1".to_vec()))));
            f.push(V::Custom(C::SNf(Nf::Bytes(vec![1, 2]))));
            f.push(V::Custom(C::SNf(Nf::Int(7))));
            f.push(V::Custom(C::SReference([3; 30])));
        }
        Fl::Manifest => {
            f.push(V::Custom(C::MNf(Nf::Str(b"a_1".to_vec()))));
            f.push(V::Custom(C::MNf(Nf::Bytes(vec![1, 2]))));
            let mut node = [3u8; 30];
            node[0] = entity_bytes()[0];
            f.push(V::Custom(C::MAddressStatic(node)));
            f.push(V::Custom(C::MAddressNamed(5)));
            f.push(V::Custom(C::MExpression(true)));
            f.push(V::Custom(C::MBucket(9)));
        }
    }
    V::Tuple(f)
}
pub fn size_kinds(fl: Fl) -> Vec<&'static str> {
    match fl {
        Fl::Basic => SIZE_KINDS[..5].to_vec(),
        _ => SIZE_KINDS.to_vec(),
    }
}

/// class names the deterministic stream must produce for flavour fl (static, independent of the
/// payload walk: used for the floors)
pub fn expected_boundary_classes(fl: Fl) -> Vec<String> {
    let mut v = vec![];
    for what in size_kinds(fl) {
        for w in 2..=5 {
            for var in LEB_VARIANTS {
                v.push(format!("leb.{}.w{}.{}", what, w, var));
            }
        }
        v.push(format!("leb.{}.w1.cont", what));
        for n in BOUNDARY_SIZES {
            v.push(format!("lebsize.{}.{}", what, n));
        }
    }
    for (len, widths) in [(128usize, [3usize, 4, 5]), (16384, [4, 5, 6])] {
        for w in widths {
            for var in LEB_VARIANTS {
                v.push(format!("leb.long{}.w{}.{}", len, w, var));
            }
        }
        v.push(format!("leb.long{}.valid", len));
        v.push(format!("leb.long{}.valid", len - 1));
    }
    for c in [
        "bool.invalid", "truncate.each", "trailing", "kind.unknown", "kind.elem_wrong", "prefix.wrong",
        "utf8.invalid", "utf8.valid_edge", "depth.each_limit", "valid",
    ] {
        v.push(c.to_string());
    }
    match fl {
        Fl::Basic => {}
        Fl::Scrypto => {
            v.push("custom.nf_invalid".to_string());
            v.push("disc.custom_invalid".to_string());
        }
        Fl::Manifest => {
            v.push("custom.nf_invalid".to_string());
            v.push("disc.custom_invalid".to_string());
            v.push("custom.entity_invalid".to_string());
            v.push("custom.expr_invalid".to_string());
        }
    }
    v
}

/// (input bytes, depth limit, class)
pub fn boundary_cases(fl: Fl) -> Vec<(Vec<u8>, usize, String)> {
    let mut out: Vec<(Vec<u8>, usize, String)> = vec![];
    let v = boundary_value(fl);
    let (p, marks) = payload_with_marks(fl, &v);
    out.push((p.clone(), 64, "valid".into()));
    // --- size prefixes: every position kind x width x variant, and boundary sizes
    let mut seen: Vec<&'static str> = vec![];
    for m in marks.iter().filter(|m| m.what.starts_with("size.")) {
        if seen.contains(&m.what) {
            continue;
        }
        seen.push(m.what);
        for w in 1..=5usize {
            for var in LEB_VARIANTS {
                if let Some(enc) = leb_padded(m.value, w, var) {
                    out.push((splice(&p, m, &enc), 64, format!("leb.{}.w{}.{}", m.what, w, var)));
                }
            }
        }
        for n in BOUNDARY_SIZES {
            out.push((splice(&p, m, &leb(n)), 64, format!("lebsize.{}.{}", m.what, n)));
        }
    }
    // --- long strings: 2- and 3-byte minimal prefixes padded to the wider widths
    for len in [128usize, 16384] {
        for l in [len - 1, len] {
            let v = V::Str("a".repeat(l));
            let (lp, _) = payload_with_marks(fl, &v);
            out.push((lp, 64, format!("leb.long{}.valid", l)));
        }
        let v = V::Str("a".repeat(len));
        let (lp, lm) = payload_with_marks(fl, &v);
        let m = lm.iter().find(|m| m.what == "size.string").unwrap();
        let minimal = m.len;
        for w in (minimal + 1)..=(minimal + 3) {
            for var in LEB_VARIANTS {
                if let Some(enc) = leb_padded(len, w, var) {
                    out.push((splice(&lp, m, &enc), 64, format!("leb.long{}.w{}.{}", len, w, var)));
                }
            }
        }
    }
    // --- bools
    for m in marks.iter().filter(|m| m.what == "bool") {
        for b in [2u8, 0x80, 0xff] {
            out.push((splice(&p, m, &[b]), 64, "bool.invalid".into()));
        }
    }
    // --- every truncation, trailing bytes
    for n in 0..p.len() {
        out.push((p[..n].to_vec(), 64, "truncate.each".into()));
    }
    for t in [vec![0u8], vec![0x21, 0x00]] {
        let mut b = p.clone();
        b.extend(t);
        out.push((b, 64, "trailing".into()));
    }
    // --- kind bytes
    let kb = kind_bytes(fl);
    for m in marks.iter().filter(|m| m.what.starts_with("kind.")) {
        for b in [0u8, 13, 31, 36, 0x7f, 0x89, 0xc1, 0xff] {
            if !kb.contains(&b) {
                out.push((splice(&p, m, &[b]), 64, "kind.unknown".into()));
            }
        }
    }
    for m in marks.iter().filter(|m| m.what == "kind.elem") {
        for b in &kb {
            if *b != p[m.off] {
                out.push((splice(&p, m, &[*b]), 64, "kind.elem_wrong".into()));
            }
        }
    }
    for b in [0u8, 0x5b, 0x5c, 0x4d, 0xff] {
        if b != fl.prefix() {
            let mut q = p.clone();
            q[0] = b;
            out.push((q, 64, "prefix.wrong".into()));
        }
    }
    // --- UTF-8: every malformed / edge body in a string value
    let bodies: [(&[u8], bool); 16] = [
        (&[0xc0, 0x80], false),
        (&[0xc1, 0xbf], false),
        (&[0xc2, 0x80], true),
        (&[0xdf, 0xbf], true),
        (&[0xe0, 0x80, 0x80], false),
        (&[0xe0, 0xa0, 0x80], true),
        (&[0xed, 0xa0, 0x80], false),
        (&[0xed, 0x9f, 0xbf], true),
        (&[0xef, 0xbf, 0xbf], true),
        (&[0xf0, 0x80, 0x80, 0x80], false),
        (&[0xf0, 0x90, 0x80, 0x80], true),
        (&[0xf4, 0x8f, 0xbf, 0xbf], true),
        (&[0xf4, 0x90, 0x80, 0x80], false),
        (&[0xf5, 0x80, 0x80, 0x80], false),
        (&[0xe2, 0x82], false),
        (&[0x80], false),
    ];
    for (body, ok) in bodies {
        for (pre, post) in [(&b""[..], &b""[..]), (&b"ab"[..], &b"z"[..])] {
            let mut s = pre.to_vec();
            s.extend(body);
            s.extend(post);
            let mut q = vec![fl.prefix(), 12];
            q.extend(leb(s.len()));
            q.extend(s);
            out.push((q, 64, if ok { "utf8.valid_edge".into() } else { "utf8.invalid".into() }));
        }
    }
    // --- custom values
    for m in marks.iter().filter(|m| m.what == "disc.custom") {
        for b in [4u8, 5, 0xff] {
            out.push((splice(&p, m, &[b]), 64, "disc.custom_invalid".into()));
        }
    }
    if fl != Fl::Basic {
        let nfk = if fl == Fl::Scrypto { 0xc0u8 } else { 0x87 };
        let long = vec![b'a'; 65];
        let strs: [&[u8]; 6] = [b"", b"a-b", b"a b", "\u{e9}".as_bytes(), &long[..], &[0xff]];
        for s in strs {
            let mut q = vec![fl.prefix(), nfk, 0];
            q.extend(leb(s.len()));
            q.extend(s);
            out.push((q, 64, "custom.nf_invalid".into()));
        }
        for n in [0usize, 65, 200] {
            let mut q = vec![fl.prefix(), nfk, 2];
            q.extend(leb(n));
            q.extend(vec![7u8; n]);
            out.push((q, 64, "custom.nf_invalid".into()));
        }
    }
    if fl == Fl::Manifest {
        for m in marks.iter().filter(|m| m.what == "entity") {
            for b in [0u8, 1, 0xff] {
                if EntityType::from_repr(b).is_none() {
                    out.push((splice(&p, m, &[b]), 64, "custom.entity_invalid".into()));
                }
            }
        }
        for m in marks.iter().filter(|m| m.what == "expr") {
            for b in [2u8, 0xff] {
                out.push((splice(&p, m, &[b]), 64, "custom.expr_invalid".into()));
            }
        }
    }
    // --- every depth limit around the value's depth
    for md in 0..=(v.depth() + 1) {
        out.push((p.clone(), md, "depth.each_limit".into()));
    }
    out
}

/// size codec unit cases: (bytes fed to read_size, class) for every boundary size, width and variant
pub fn read_size_inputs() -> Vec<(Vec<u8>, String)> {
    let mut out = vec![];
    let sizes: Vec<usize> = [0usize, 1, 2, 126]
        .into_iter()
        .chain(BOUNDARY_SIZES.into_iter())
        .chain([129, 300, 16385, 2097153, 0x0FFFFFFE, 0x0FFFFFFF + 2])
        .collect();
    for n in sizes {
        out.push((leb(n), format!("readsize.canonical.w{}", leb(n).len())));
        for w in 1..=6usize {
            for var in LEB_VARIANTS {
                if let Some(mut e) = leb_padded(n, w, var) {
                    if var == "cont" {
                        e.push(0x01); // something for the continuation to continue into
                    }
                    out.push((e, format!("readsize.w{}.{}", w, var)));
                }
            }
        }
    }
    for t in [vec![], vec![0x80u8], vec![0x80, 0x80], vec![0xff, 0xff, 0xff], vec![0x80, 0x80, 0x80, 0x80]] {
        out.push((t, "readsize.truncated".into()));
    }
    out
}
pub fn expected_read_size_classes() -> Vec<String> {
    let mut v = vec!["readsize.truncated".to_string()];
    for w in 1..=5 {
        v.push(format!("readsize.canonical.w{}", w));
    }
    for w in 2..=6 {
        for var in LEB_VARIANTS {
            v.push(format!("readsize.w{}.{}", w, var));
        }
    }
    v.push("readsize.w1.cont".to_string());
    v
}
