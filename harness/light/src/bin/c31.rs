//! C31 harness: the manifest compiler never crashes.
//! Stream A (oracle only): arbitrary strings and token-level mutations of valid manifests with LF /
//! CRLF / CR line endings and non-ASCII characters -> compile as every manifest kind (twice: same
//! answer) and render the error diagnostics in both styles, everything under catch_unwind.
//! Stream B (correspondence with coq/Model/C30_Text.v): string-literal texts (valid / invalid escapes,
//! surrogate pairs, truncation) -> real `lexer::tokenize` vs the model's `lex_string`.
use radix_common::prelude::*;
use radix_transactions::manifest::compiler::*;
use radix_transactions::manifest::lexer::{tokenize, ExpectedChar, LexerError, LexerErrorKind};
use radix_transactions::manifest::token::Token;
use radix_transactions::manifest::parser::{Parser, ParserErrorKind, PARSER_MAX_DEPTH};
use radix_transactions::manifest::token::Span;
use radix_transactions::manifest::*;
use radix_transactions::validation::{BasicManifestValidator, ProofKind};
use serde_json::json;
use vh_common::*;

fn templates() -> Vec<String> {
    let net = NetworkDefinition::simulator();
    let enc = AddressBech32Encoder::new(&net);
    let xrd = enc.encode(XRD.as_bytes()).unwrap();
    let faucet = enc.encode(FAUCET.as_bytes()).unwrap();
    let pkg = enc.encode(FAUCET_PACKAGE.as_bytes()).unwrap();
    vec![
        format!("CALL_METHOD\n    Address(\"{faucet}\")\n    \"lock_fee\"\n    Decimal(\"5000\")\n;\nCALL_METHOD\n    Address(\"{faucet}\")\n    \"free\"\n;\nTAKE_ALL_FROM_WORKTOP\n    Address(\"{xrd}\")\n    Bucket(\"bucket1\")\n;\nCREATE_PROOF_FROM_BUCKET_OF_ALL\n    Bucket(\"bucket1\")\n    Proof(\"proof1\")\n;\nDROP_ALL_PROOFS;\nRETURN_TO_WORKTOP\n    Bucket(\"bucket1\")\n;\n"),
        format!("# a comment\nTAKE_FROM_WORKTOP Address(\"{xrd}\") Decimal(\"1.5\") Bucket(\"b\");\nCALL_FUNCTION Address(\"{pkg}\") \"Faucet\" \"new\" Tuple(1u8, -2i16, 3u32, -4i64, 5u128, \"s\\n\\u00e9\\ud83d\\ude00\", true) Enum<1u8>(Bucket(\"b\")) Array<U8>(1u8, 2u8) Map<String, U32>(\"a\" => 1u32) Bytes(\"deadbeef\") Some(None) Ok(Err(1u8)) NonFungibleLocalId(\"#12#\") NonFungibleLocalId(\"<abc>\") PreciseDecimal(\"-1.1\") Expression(\"ENTIRE_WORKTOP\");\n"),
        format!("ALLOCATE_GLOBAL_ADDRESS Address(\"{pkg}\") \"Faucet\" AddressReservation(\"r\") NamedAddress(\"a\");\nCALL_METHOD NamedAddress(\"a\") \"m\" AddressReservation(\"r\");\nASSERT_WORKTOP_CONTAINS Address(\"{xrd}\") Decimal(\"1\");\nASSERT_WORKTOP_CONTAINS_ANY Address(\"{xrd}\");\nPOP_FROM_AUTH_ZONE Proof(\"p\");\nCLONE_PROOF Proof(\"p\") Proof(\"q\");\nDROP_PROOF Proof(\"p\");\nPUSH_TO_AUTH_ZONE Proof(\"q\");\nDROP_AUTH_ZONE_PROOFS;\n"),
        format!("USE_CHILD NamedIntent(\"c\") Intent(\"subtxid_sim1qqqqqqqqqqqqqqqqqqqqqqqqqqqqqqqqqqqqqqqqqqqqqqqqqqqsxvmeh0\");\nYIELD_TO_CHILD NamedIntent(\"c\") Tuple();\nVERIFY_PARENT Enum<0u8>();\nYIELD_TO_PARENT;\nASSERT_NEXT_CALL_RETURNS_ONLY Map<Address, Enum>(Address(\"{xrd}\") => Enum<1u8>(Decimal(\"1\")));\nCALL_METHOD Address(\"{faucet}\") \"free\";\nASSERT_BUCKET_CONTENTS Bucket(\"x\") Enum<0u8>();\n"),
        format!("USE_PREALLOCATED_ADDRESS Address(\"{pkg}\") \"Faucet\" AddressReservation(\"r\") Address(\"{faucet}\");\nCALL_METHOD Address(\"{faucet}\") \"m\" Blob(\"a710f0959d8e139b3c1ca74ac4fcb9a95ada2c82e7f563304c5487e0117095c0\") AddressReservation(\"r\");\n"),
    ]
}
const ODD: &[&str] = &["é", "漢", "😀", "\u{301}", "\u{202e}", "\u{0}", "\u{7f}", "\u{a0}", "\u{2028}", "\u{feff}", "\u{10ffff}", "\t", "\r", "\n", "\r\n", "\"", "\\", "\\u", "\\ud800", "#", "=", "=>", "(", ")", "<", ">", ",", ";", "&", "{", "}", "-", "0", "00", "1u7", "256u8", "-1u8", "-0i8", "340282366920938463463374607431768211456u128", "Tuple(", "Enum<", "Array<", "Map<", "Some(", "Bytes(\"", "Decimal(\"", "Address(\"", "Bucket(\"", "NonFungibleLocalId(\"", "true", "false", "x:", "_"];

fn mutate(rng: &mut Rng, base: &str) -> (String, Vec<&'static str>) {
    let mut s: Vec<char> = base.chars().collect();
    let mut tags = vec![];
    let n = rng.range(0, 4);
    for _ in 0..n {
        if s.is_empty() { break; }
        match rng.below(8) {
            0 => { let i = rng.usize_below(s.len()); s.truncate(i); tags.push("truncate"); }
            1 => { let i = rng.usize_below(s.len()); let ins: Vec<char> = rng.pick(ODD).chars().collect(); for (k, c) in ins.into_iter().enumerate() { s.insert(i + k, c); } tags.push("insert_odd"); }
            2 => { let i = rng.usize_below(s.len()); s.remove(i); tags.push("delete_char"); }
            3 => { let i = rng.usize_below(s.len()); let j = rng.usize_below(s.len()); s.swap(i, j); tags.push("swap_chars"); }
            4 => { // delete a whole "word"
                let i = rng.usize_below(s.len()); let mut j = i; while j < s.len() && !s[j].is_whitespace() { j += 1; } s.drain(i..j); tags.push("delete_word"); }
            5 => { // duplicate a line
                let text: String = s.iter().collect(); let lines: Vec<&str> = text.split('\n').collect(); let k = rng.usize_below(lines.len());
                let mut out: Vec<&str> = lines.clone(); out.insert(k, lines[k]); s = out.join("\n").chars().collect(); tags.push("dup_line"); }
            6 => { // deep nesting
                let d = *rng.pick(&[5usize, 18, 19, 20, 21, 22, 40, 200]); let i = rng.usize_below(s.len());
                let ins: String = "Tuple(".repeat(d) + &")".repeat(d); for (k, c) in ins.chars().enumerate() { s.insert(i + k, c); } tags.push("deep_nesting"); }
            _ => { let i = rng.usize_below(s.len()); s[i] = *rng.pick(&['"', '(', ')', ';', 'é', '\r', '\n', '0', '-', '😀']); tags.push("replace_char"); }
        }
    }
    let mut text: String = s.into_iter().collect();
    match rng.below(5) {
        0 => { text = text.replace('\n', "\r\n"); tags.push("crlf"); }
        1 => { text = text.replace('\n', "\r"); tags.push("cr"); }
        2 => { // mixed
            let mut out = String::new(); for c in text.chars() { if c == '\n' { out.push_str(*rng.pick(&["\n", "\r\n", "\r", "\n\r"])); } else { out.push(c); } } text = out; tags.push("mixed_eol"); }
        _ => {}
    }
    (text, tags)
}

fn kind_name(k: &ManifestKind) -> &'static str { match k { ManifestKind::V1 => "V1", ManifestKind::SystemV1 => "SystemV1", ManifestKind::V2 => "V2", ManifestKind::SubintentV2 => "SubintentV2" } }
fn chars_coq(s: &str) -> String { coq_list(s.chars().map(|c| format!("{}", c as u32))) }
fn expected_coq(e: &ExpectedChar) -> String {
    match e { ExpectedChar::Exact(c) => format!("(XExact {})", *c as u32), ExpectedChar::OneOf(_) => "XOneOf".into(), ExpectedChar::HexDigit => "XHexDigit".into(), ExpectedChar::DigitLetterQuotePunctuation => "XDLQP".into() }
}
fn lex_err_coq(e: &LexerError) -> String {
    let k = match &e.error_kind {
        LexerErrorKind::UnexpectedEof => "LUnexpectedEof".to_string(),
        LexerErrorKind::UnexpectedChar(c, x) => format!("(LUnexpectedChar {} {})", *c as u32, expected_coq(x)),
        LexerErrorKind::InvalidIntegerLiteral(_) => "LInvalidIntegerLiteral".into(),
        LexerErrorKind::InvalidIntegerType(_) => "LInvalidIntegerType".into(),
        LexerErrorKind::InvalidInteger(_) => "LInvalidInteger".into(),
        LexerErrorKind::InvalidUnicode(v) => format!("(LInvalidUnicode {})", v),
        LexerErrorKind::MissingUnicodeSurrogate(v) => format!("(LMissingSurrogate {})", v),
    };
    format!("(SErr {} {} {})", k, e.span.start.full_index, e.span.end.full_index)
}


fn tok_coq(t: &radix_transactions::manifest::token::TokenWithSpan) -> String {
    let k = match &t.token {
        Token::BoolLiteral(b) => format!("(TBool {})", coq_bool(*b)),
        Token::I8Literal(v) => format!("(TInt true 8 {})", coq_z(v)), Token::I16Literal(v) => format!("(TInt true 16 {})", coq_z(v)),
        Token::I32Literal(v) => format!("(TInt true 32 {})", coq_z(v)), Token::I64Literal(v) => format!("(TInt true 64 {})", coq_z(v)),
        Token::I128Literal(v) => format!("(TInt true 128 {})", coq_z(v)),
        Token::U8Literal(v) => format!("(TInt false 8 {})", coq_z(v)), Token::U16Literal(v) => format!("(TInt false 16 {})", coq_z(v)),
        Token::U32Literal(v) => format!("(TInt false 32 {})", coq_z(v)), Token::U64Literal(v) => format!("(TInt false 64 {})", coq_z(v)),
        Token::U128Literal(v) => format!("(TInt false 128 {})", coq_z(v)),
        Token::StringLiteral(x) => format!("(TString {})", chars_coq(x)), Token::Ident(x) => format!("(TIdent {})", chars_coq(x)),
        Token::OpenParenthesis => "TOpenP".into(), Token::CloseParenthesis => "TCloseP".into(), Token::LessThan => "TLt".into(),
        Token::GreaterThan => "TGt".into(), Token::Comma => "TComma".into(), Token::Semicolon => "TSemi".into(), Token::FatArrow => "TFatArrow".into(),
    };
    format!("({}, {}, {})", k, t.span.start.full_index, t.span.end.full_index)
}
const FRAGS: &[&str] = &["0u8", "-0i8", "-0u8", "255u8", "256u8", "-128i8", "-129i8", "65535u16", "65536u16", "-32769i16", "4294967295u32", "4294967296u32", "2147483648i32",
    "18446744073709551615u64", "18446744073709551616u64", "-9223372036854775808i64", "-9223372036854775809i64",
    "170141183460469231731687303715884105727i128", "170141183460469231731687303715884105728i128", "-170141183460469231731687303715884105728i128",
    "340282366920938463463374607431768211455u128", "340282366920938463463374607431768211456u128", "1i12", "1i127", "1i1", "1i3", "1i6", "1i65", "1u3", "1u6", "1u", "1i", "1", "12", "01u8", "00", "-", "--1u8", "-a", "12a", "7i64x", "7i8u8",
    "true", "false", "truex", "True", "a:b_c", "A9", "_a", ":a", "=>", "=", "= >", "=\n>", "(", ")", "<", ">", ",", ";", "{", "}", "&", "é", "#c\n", "# é \r\n", "\"s\"", "\"\\n\\u00e9\"", "\"open", " ", "\t", "\r\n", "\n"];

fn gen_string_literal(rng: &mut Rng) -> String {
    let mut s = String::from("\"");
    let n = rng.below(10);
    for _ in 0..n {
        match rng.below(14) {
            0 => s.push_str(*rng.pick(&["\\\"", "\\\\", "\\/", "\\b", "\\f", "\\n", "\\r", "\\t"])),
            1 => s.push_str(&format!("\\u{:04x}", rng.below(0x10000))),
            2 => s.push_str(&format!("\\u{:04X}", *rng.pick(&[0u32, 0x41, 0xd7ff, 0xd800, 0xdbff, 0xdc00, 0xdfff, 0xe000, 0xffff]))),
            3 => { let hi = 0xd800 + rng.below(0x400); let lo = 0xdc00 + rng.below(0x400); s.push_str(&format!("\\u{:04x}\\u{:04x}", hi, lo)); }
            4 => { let hi = 0xd800 + rng.below(0x800); let lo = *rng.pick(&[0u64, 0x41, 0xd800, 0xdbff, 0xdc00, 0xdfff, 0xffff, 0xe000]); s.push_str(&format!("\\u{:04x}\\u{:04x}", hi, lo)); }
            5 => s.push_str(*rng.pick(&["\\x", "\\u12", "\\u12g4", "\\ud800x", "\\ud800\\n", "\\ud800\\", "\\", "\\U0041", "\\é"])),
            6 => s.push_str(*rng.pick(&["é", "漢", "😀", "\u{301}", "\n", "\r\n", "\t", "\u{0}"])),
            _ => { let c = (0x20 + rng.below(0x5f) as u8) as char; if c != '"' && c != '\\' { s.push(c) } }
        }
    }
    if !rng.chance(1, 8) { s.push('"'); }
    s
}


// ---- deterministic boundary families (identical for every seed) ---------------------------------------------

/// the rendered PlainText diagnostics parsed back: (first displayed line number, displayed source lines, caret)
/// caret = (line number above the caret line, column, number of carets); None when the output has another shape
fn parse_rendered(d: &str) -> Option<(u64, Vec<String>, Option<(u64, u64, u64)>)> {
    let lines: Vec<&str> = d.split('\n').collect();
    let last = lines.iter().rposition(|l| !l.is_empty())?;
    let gutter = lines[last];
    if !gutter.ends_with(" |") || !gutter[..gutter.len() - 2].chars().all(|c| c == ' ') { return None; }
    let w = gutter.len() - 2;
    let i0 = lines.iter().position(|l| *l == gutter)?;
    if i0 >= last { return None; }
    let (mut first, mut shown, mut caret, mut cur) = (None, vec![], None, 0u64);
    for l in &lines[i0 + 1..last] {
        if l.starts_with(gutter) {
            let c: Vec<char> = l[gutter.len()..].chars().collect();
            if c.first() != Some(&' ') { return None; }
            let sp = c[1..].iter().take_while(|x| **x == ' ').count();
            let n = c[1 + sp..].iter().take_while(|x| **x == '^').count();
            if n == 0 || caret.is_some() { return None; }
            caret = Some((cur, sp as u64, n as u64));
        } else {
            if l.len() < w + 2 || !l.is_char_boundary(w) || !l.is_char_boundary(w + 2) || &l[w..w + 2] != " |" { return None; }
            let n: u64 = l[..w].trim().parse().ok()?;
            if first.is_none() { first = Some(n); } else if n != cur + 1 { return None; }
            cur = n;
            let t = if l.len() > w + 3 { &l[w + 3..] } else { "" };
            shown.push(t.trim_end_matches('\r').to_string());
        }
    }
    Some((first?, shown, caret))
}
fn err_span(e: &CompileError) -> Span { match e { CompileError::LexerError(x) => x.span, CompileError::ParserError(x) => x.span, CompileError::GeneratorError(x) => x.span } }
/// Coq case tying the span / rendered snippet to Model/C31_Snippet.v
fn snippet_case(report: &mut Report, text: &str, e: &CompileError, rendered: &str) -> String {
    let sp = err_span(e);
    let head = format!("{} {} {} {} {} {}", chars_coq(text), text.len(), sp.start.full_index, sp.start.line_idx, sp.end.full_index, sp.end.line_idx);
    if sp.start.line_idx != sp.end.line_idx { report.count("span_multiline"); return format!("CSpan {}", head); }
    match parse_rendered(rendered) {
        None => { report.count("snippet_unparsed"); format!("CSpan {}", head) }
        Some((first, shown, caret)) => {
            report.count("snippet_parsed");
            // caret columns are display columns (the renderer gives a tab width 0, wide characters 2): compare only when the annotated line is printable ASCII
            let ann = shown.get((sp.start.line_idx as u64 + 1).saturating_sub(first) as usize);
            let ascii = ann.map(|l| l.chars().all(|c| (' '..='~').contains(&c))).unwrap_or(false);
            let caret = match caret { Some(c) if ascii => { report.count("snippet_caret_compared"); format!("(Some ({}, {}, {}))", c.0, c.1, c.2) } Some(_) => { report.count("snippet_caret_non_ascii_line"); "None".to_string() } None => { report.count("snippet_no_caret"); "None".to_string() } };
            format!("CSnippet {} {} {} {}", head, first, coq_list(shown.iter().map(|l| chars_coq(l))), caret)
        }
    }
}
#[derive(Clone, Debug)]
enum VOp { NewBucket, DropBucket(u32), NewProof(Option<u32>), CloneProof(u32), DropProof(u32), DropAll }
fn vop_coq(o: &VOp) -> String { match o { VOp::NewBucket => "NewBucket".into(), VOp::DropBucket(b) => format!("(DropBucket {})", b), VOp::NewProof(Some(b)) => format!("(NewProof (Some {}))", b), VOp::NewProof(None) => "(NewProof None)".into(), VOp::CloneProof(p) => format!("(CloneProof {})", p), VOp::DropProof(p) => format!("(DropProof {})", p), VOp::DropAll => "DropAllNamed".into() } }
/// real BasicManifestValidator: outcome of every call up to the first error
fn run_idv(ops: &[VOp]) -> Vec<String> {
    let mut v = BasicManifestValidator::new(); let mut out = vec![];
    for o in ops {
        let r: Result<Option<u32>, ()> = match o {
            VOp::NewBucket => Ok(Some(v.new_bucket().0)),
            VOp::DropBucket(b) => v.drop_bucket(&ManifestBucket(*b)).map(|_| None).map_err(|_| ()),
            VOp::NewProof(k) => v.new_proof(match k { Some(b) => ProofKind::BucketProof(ManifestBucket(*b)), None => ProofKind::AuthZoneProof }).map(|p| Some(p.0)).map_err(|_| ()),
            VOp::CloneProof(p) => v.clone_proof(&ManifestProof(*p)).map(|p| Some(p.0)).map_err(|_| ()),
            VOp::DropProof(p) => v.drop_proof(&ManifestProof(*p)).map(|_| None).map_err(|_| ()),
            VOp::DropAll => v.drop_all_named_proofs().map(|_| None).map_err(|_| ()),
        };
        match r { Ok(id) => out.push(format!("(OOk {})", match id { Some(x) => format!("(Some {})", x), None => "None".to_string() })), Err(_) => { out.push("OErr".to_string()); break; } }
    }
    out
}
/// boundary sequences for the id validator (identical for every seed)
fn fam_idv() -> Vec<(String, Vec<VOp>)> {
    use VOp::*;
    vec![
        ("idv_drop_bucket_unlocked", vec![NewBucket, DropBucket(0), DropBucket(0)]),
        ("idv_drop_bucket_locked", vec![NewBucket, NewProof(Some(0)), DropBucket(0)]),
        ("idv_lock_unlock_drop", vec![NewBucket, NewProof(Some(0)), DropProof(0), DropBucket(0)]),
        ("idv_clone_keeps_lock", vec![NewBucket, NewProof(Some(0)), CloneProof(0), DropProof(0), DropBucket(0)]),
        ("idv_clone_both_dropped", vec![NewBucket, NewProof(Some(0)), CloneProof(0), DropProof(0), DropProof(1), DropBucket(0)]),
        ("idv_clone_of_clone", vec![NewBucket, NewProof(Some(0)), CloneProof(0), CloneProof(1), DropProof(1), DropProof(0), DropProof(2), DropBucket(0)]),
        ("idv_drop_all_unlocks", vec![NewBucket, NewBucket, NewProof(Some(0)), NewProof(Some(1)), CloneProof(1), NewProof(None), DropAll, DropBucket(1), DropBucket(0), DropAll]),
        ("idv_drop_all_empty", vec![DropAll, NewBucket, DropAll, DropBucket(0)]),
        ("idv_proof_of_missing_bucket", vec![NewProof(Some(0))]),
        ("idv_proof_of_dropped_bucket", vec![NewBucket, DropBucket(0), NewProof(Some(0))]),
        ("idv_clone_missing_proof", vec![NewBucket, CloneProof(0)]),
        ("idv_drop_proof_twice", vec![NewBucket, NewProof(Some(0)), DropProof(0), DropProof(0)]),
        ("idv_clone_dropped_proof", vec![NewBucket, NewProof(Some(0)), DropProof(0), CloneProof(0)]),
        ("idv_authzone_proofs", vec![NewProof(None), CloneProof(0), DropProof(0), DropProof(1), DropProof(1)]),
        ("idv_two_buckets_independent", vec![NewBucket, NewBucket, NewProof(Some(1)), DropBucket(0), DropBucket(1)]),
        ("idv_ids_not_reused", vec![NewBucket, DropBucket(0), NewBucket, NewProof(Some(1)), DropProof(0), NewProof(Some(1)), DropProof(1), DropBucket(1)]),
    ].into_iter().map(|(c, o)| (c.to_string(), o)).collect()
}
/// texts for the compile + diagnostics oracle: error on lines 1..8 (the snippet context window switches at line 6),
/// at end of input with / without final newline, after multi-byte characters, each with LF, CRLF and CR
fn fam_edge() -> Vec<(String, String)> {
    let mut v: Vec<(String, String)> = vec![];
    for (eol_name, eol) in [("lf", "\n"), ("crlf", "\r\n"), ("cr", "\r"), ("lfcr", "\n\r")] {
        for line in [1usize, 2, 5, 6, 7, 8, 12] {
            for (bad_name, bad) in [("lexer_char", "@"), ("lexer_multibyte", "é"), ("lexer_non_bmp", "😀x"), ("parser", "Tuple("), ("unterminated_string", "\"abc"), ("bad_int", "256u8"), ("generator", "CALL_METHOD Address(\"x\") \"m\";")] {
                let mut t = String::new();
                for k in 1..line { t.push_str(&format!("DROP_ALL_PROOFS; # é line {}{}", k, eol)); }
                t.push_str(bad);
                v.push((format!("edge_{}_{}_line{}_eof", eol_name, bad_name, line), t.clone()));
                t.push_str(eol); t.push_str("DROP_ALL_PROOFS;"); t.push_str(eol);
                v.push((format!("edge_{}_{}_line{}_more_after", eol_name, bad_name, line), t));
            }
        }
    }
    for (c, t) in [("edge_empty", ""), ("edge_only_newline", "\n"), ("edge_only_cr", "\r"), ("edge_only_crlf", "\r\n"), ("edge_only_comment", "# é"), ("edge_comment_crlf", "# x\r\n"),
        ("edge_multibyte_last_char", "DROP_ALL_PROOFS; é"), ("edge_multibyte_in_string_eof", "CALL_METHOD \"é"), ("edge_non_bmp_last_char", "DROP_ALL_PROOFS;😀"),
        ("edge_eq_then_multibyte", "=é"), ("edge_eq_eof", "="), ("edge_minus_eof", "-"), ("edge_digit_eof", "1"), ("edge_digit_multibyte", "1é"), ("edge_escape_u_multibyte", "\"\\ué\""),
        ("edge_surrogate_then_multibyte", "\"\\ud800é\""), ("edge_string_trailing_newline", "\"abc\n"), ("edge_string_trailing_crlf", "\"abc\r\n"), ("edge_tab_indent_error", "\t\t@"),
        ("edge_multiline_span_values", "DROP_ALL_PROOFS;\nCALL_METHOD Address(\"a\",\n\"b\"\n) \"m\";\n"), ("edge_multiline_span_values_crlf", "DROP_ALL_PROOFS;\r\nCALL_METHOD Decimal(\r\n\"1\",\r\n\"2\") \"m\";\r\n"),
        ("edge_multiline_span_types", "CALL_METHOD Address(\"x\") \"m\" Map<U8,\nU8,\nU8>();"), ("edge_multiline_span_generator", "CALL_METHOD\nAddress(\n\"x\"\n) \"m\";"),
        ("edge_multiline_span_lines_6_to_8", &("DROP_ALL_PROOFS;\n".repeat(5) + "CALL_METHOD Address(\"a\",\n\"b\",\n\"c\") \"m\";\nDROP_ALL_PROOFS;\n")),
        ("edge_nesting_20", &("Tuple(".repeat(20) + &")".repeat(20))), ("edge_nesting_21", &("Tuple(".repeat(21) + &")".repeat(21)))] { v.push((c.to_string(), t.to_string())); }
    v
}
/// texts for the whole-lexer correspondence
fn fam_lex() -> Vec<(String, String)> {
    let mut v: Vec<(String, String)> = vec![];
    for (k, f) in FRAGS.iter().enumerate() { let t = f.replace("\\n", "\n").replace("\\r", "\r").replace("\\t", "\t");
        v.push((format!("lex_frag_{}_alone", k), t.clone())); v.push((format!("lex_frag_{}_then_more", k), format!("{} {}", t, t))); }
    for (ty, bits, signed) in [("i8", 8u32, true), ("i16", 16, true), ("i32", 32, true), ("i64", 64, true), ("i128", 128, true), ("u8", 8, false), ("u16", 16, false), ("u32", 32, false), ("u64", 64, false), ("u128", 128, false)] {
        use num_bigint::BigInt;
        let one = BigInt::from(1); let (min, max): (BigInt, BigInt) = if signed { (-(one.clone() << (bits - 1)), (one.clone() << (bits - 1)) - BigInt::from(1)) } else { (BigInt::from(0), (one.clone() << bits) - BigInt::from(1)) };
        for (c, x) in [("min", min.clone()), ("min_m1", min.clone() - BigInt::from(1)), ("max", max.clone()), ("max_p1", max.clone() + BigInt::from(1)), ("zero", BigInt::from(0)), ("m1", BigInt::from(-1))] {
            v.push((format!("lex_int_{}_{}", ty, c), format!("{}{} ", x, ty))); }
        v.push((format!("lex_int_{}_neg_zero", ty), format!("-0{} ", ty)));
        v.push((format!("lex_int_{}_at_eof", ty), format!("7{}", ty)));
        v.push((format!("lex_int_{}_leading_zero", ty), format!("07{} ", ty)));
    }
    // parser: every instruction keyword (generated table) with one value too few, exactly enough, one and two too many
    if let Ok(tbl) = std::fs::read_to_string("/verif/coq/Gen/C31_instructions.v") {
        for line in tbl.lines() { if let Some(rest) = line.trim().strip_prefix("(s2l \"") { if let Some(q) = rest.find('"') {
            let kw = &rest[..q]; let tail = &rest[q + 1..]; let fixed: usize = tail.trim_start_matches(", ").split('%').next().unwrap().trim().parse().unwrap_or(0);
            for n in [fixed.saturating_sub(1), fixed, fixed + 1, fixed + 2] { v.push((format!("parse_kw_{}_{}values", kw, n), format!("{}{};", kw, " Tuple(1u8)".repeat(n)))); }
            v.push((format!("parse_kw_{}_no_semicolon", kw), format!("{}{}", kw, " 1u8".repeat(fixed))));
            v.push((format!("parse_kw_{}_twice", kw), format!("{}{};\n{}{};", kw, " 1u8".repeat(fixed), kw, " 1u8".repeat(fixed)))); } } }
    }
    for (c, t) in [("parse_unknown_keyword", "FOO 1u8;"), ("parse_lowercase_keyword", "call_method 1u8;"), ("parse_value_as_instruction", "Tuple();"), ("parse_literal_as_instruction", "1u8;"), ("parse_only_semicolon", ";"),
        ("parse_nested_bad_arg", "CALL_METHOD 1u8 2u8 Tuple(;);"), ("parse_top_bad_arg", "CALL_METHOD 1u8 2u8 );"), ("parse_keyword_as_arg", "CALL_METHOD 1u8 2u8 CALL_METHOD;"), ("parse_depth_20_arg", &format!("CALL_METHOD 1u8 2u8 {}{};", "Tuple(".repeat(19), ")".repeat(19))),
        ("parse_depth_21_arg", &format!("CALL_METHOD 1u8 2u8 {}1u8{};", "Tuple(".repeat(20), ")".repeat(20))), ("parse_trailing_comma", "CALL_METHOD 1u8 2u8 Tuple(1u8,);"), ("parse_double_comma", "CALL_METHOD 1u8 2u8 Tuple(1u8,,2u8);"),
        ("parse_some_two_values", "CALL_METHOD 1u8 2u8 Some(1u8, 2u8);"), ("parse_some_no_value", "CALL_METHOD 1u8 2u8 Some();"), ("parse_array_two_kinds", "CALL_METHOD 1u8 2u8 Array<U8, U8>();"), ("parse_map_one_kind", "CALL_METHOD 1u8 2u8 Map<U8>();"),
        ("parse_map_missing_arrow", "CALL_METHOD 1u8 2u8 Map<U8, U8>(1u8, 2u8);"), ("parse_enum_u16_discriminator", "CALL_METHOD 1u8 2u8 Enum<1u16>();"), ("parse_enum_unknown_name", "CALL_METHOD 1u8 2u8 Enum<Foo::Bar>();"),
        ("parse_array_bad_kind", "CALL_METHOD 1u8 2u8 Array<Foo>();"), ("parse_none_with_parens", "CALL_METHOD 1u8 2u8 None();")] { v.push((c.to_string(), t.to_string())); }
    for (c, t) in [("lex_multibyte_last", "é"), ("lex_multibyte_after_token", "( é"), ("lex_non_bmp_last", "😀"), ("lex_multibyte_in_ident_pos", "abcé"), ("lex_multibyte_after_digit", "12é"), ("lex_multibyte_after_type", "1u8é"),
        ("lex_multibyte_in_type", "1ué"), ("lex_string_multibyte_last", "\"é"), ("lex_string_multibyte_closed", "\"é😀\""), ("lex_comment_multibyte_eof", "# é😀"), ("lex_comment_then_token", "# c\n;"), ("lex_hash_in_string", "\"#\""),
        ("lex_comment_cr_only", "# c\r;"), ("lex_eq_gt", "=>"), ("lex_eq_space_gt", "= >"), ("lex_eq_eof", "="), ("lex_all_punct", "(),;<>=>"), ("lex_bad_punct_brace", "{"), ("lex_bad_punct_amp", "&"), ("lex_ident_colon", "A::b_9:"),
        ("lex_ident_true_prefix", "truer true falsey false"), ("lex_underscore_start", "_a"), ("lex_digit_then_ident", "1u8x"), ("lex_minus_ident", "-x"), ("lex_minus_minus", "--1u8"), ("lex_type_i1_eof", "1i1"), ("lex_type_i12_eof", "1i12"), ("lex_type_i12x", "1i12x"),
        ("lex_type_u6_eof", "1u6"), ("lex_type_u3x", "1u3x"), ("lex_type_ix", "1ix"), ("lex_type_x", "1x"), ("lex_digits_eof", "123"), ("lex_zero_digits", "00u8"), ("lex_ws_all", " \t\r\n;"), ("lex_empty", ""), ("lex_only_ws", " \t\r\n")] {
        v.push((c.to_string(), t.to_string())); }
    v
}
/// string literals for the string-lexer correspondence
fn fam_str() -> Vec<(String, String)> {
    let mut v: Vec<(String, String)> = vec![];
    for (c, e) in [("quote", "\\\""), ("backslash", "\\\\"), ("slash", "\\/"), ("b", "\\b"), ("f", "\\f"), ("n", "\\n"), ("r", "\\r"), ("t", "\\t"), ("bad_x", "\\x"), ("bad_U", "\\U0041"), ("bad_multibyte", "\\é"), ("bad_0", "\\0")] {
        v.push((format!("strlit_escape_{}", c), format!("\"{}\"", e))); v.push((format!("strlit_escape_{}_eof", c), format!("\"{}", e))); }
    v.push(("strlit_backslash_eof".into(), "\"\\".into()));
    for n in 0..5usize { let hex = &"00e9"[..n.min(4)];
        v.push((format!("strlit_u_{}digits_eof", n), format!("\"\\u{}", hex))); v.push((format!("strlit_u_{}digits_quote", n), format!("\"\\u{}\"", hex)));
        v.push((format!("strlit_u_{}digits_nonhex", n), format!("\"\\u{}g\"", hex))); v.push((format!("strlit_u_{}digits_multibyte", n), format!("\"\\u{}é\"", hex))); }
    for u in ["0000", "0041", "007f", "d7ff", "D7FF", "d800", "dbff", "dc00", "dfff", "e000", "ffff", "FFFF", "aBcD"] {
        v.push((format!("strlit_unit_{}", u), format!("\"\\u{}\"", u)));
        for lo in ["0000", "0041", "d7ff", "d800", "dbff", "dc00", "dfff", "e000", "ffff"] { if u.starts_with('d') && u != "d7ff" { v.push((format!("strlit_pair_{}_{}", u, lo), format!("\"\\u{}\\u{}\"", u, lo))); } }
    }
    for (c, t) in [("strlit_hi_then_eof", "\"\\ud800"), ("strlit_hi_then_quote", "\"\\ud800\""), ("strlit_hi_then_backslash_eof", "\"\\ud800\\"), ("strlit_hi_then_backslash_n", "\"\\ud800\\n\""),
        ("strlit_hi_then_u_short", "\"\\ud800\\udc0\""), ("strlit_hi_then_u_nonhex", "\"\\ud800\\udc0g\""), ("strlit_empty", "\"\""), ("strlit_unterminated", "\"abc"), ("strlit_only_quote", "\""),
        ("strlit_raw_newline", "\"a\nb\""), ("strlit_raw_crlf", "\"a\r\nb\""), ("strlit_raw_multibyte", "\"é漢😀\""), ("strlit_raw_control", "\"\u{0}\u{7f}\"")] { v.push((c.to_string(), t.to_string())); }
    v
}

fn main() {
    let args = Args::parse();
    let mut report = Report::new(
        "C31", args.seed,
        "stream A (oracle): 5 template manifests (all instruction families, all value syntaxes) with 0-4 token/char-level mutations (truncate, insert odd \
         fragment incl. non-ASCII / control / bidi / unpaired escapes / over-range integers / unbalanced brackets, delete, swap, duplicate line, nesting up to \
         200) and LF/CRLF/CR/mixed line endings, plus arbitrary strings; compiled as V1, SystemV1, V2, SubintentV2 twice + diagnostics in both styles under \
         catch_unwind. stream B (model): string-literal texts vs lexer. non-trivial = mutated template or a string literal with an escape",
    );
    let mut cw = CaseWriter::new("RV.Corr.C31_run RV.Model.C30_Text RV.Model.C31_Lexer RV.Model.C30_Value RV.Model.C31_Parser RV.Model.C31_Snippet RV.Model.C31_IdValidator", "check");
    let root = Rng::new(args.seed);
    let net = NetworkDefinition::simulator();
    let temps = templates();
    let kinds = [ManifestKind::V1, ManifestKind::SystemV1, ManifestKind::V2, ManifestKind::SubintentV2];
    let (fedge, flex, fstr, fidv) = (fam_edge(), fam_lex(), fam_str(), fam_idv());
    let mut idv_ix = 0usize;
    let fam_len = fedge.len() + flex.len() + fstr.len();
    let (mut lex_ix, mut str_ix) = (0usize, 0usize);
    let mut fam_classes: Vec<String> = vec![];
    let mut edge_ix = 0usize;
    for i in 0..args.cases.max(fam_len) {
        let mut rng = root.fork(i as u64);
        // family phase: rotate over the families that still have items; afterwards the random streams
        let remaining = [edge_ix < fedge.len(), lex_ix < flex.len(), str_ix < fstr.len()];
        let fam_kind: Option<usize> = (0..3).map(|k| (i + k) % 3).find(|k| remaining[*k]);
        let is_a = match fam_kind { Some(k) => k == 0, None => i % 3 != 2 };
        let is_b2 = match fam_kind { Some(k) => k == 1, None => (i / 3) % 2 == 1 };
        if is_a {
            // ---- stream A ----
            let (text, tags) = if fam_kind == Some(0) && edge_ix < fedge.len() { let (c, t) = &fedge[edge_ix]; edge_ix += 1; report.count(c); fam_classes.push(c.clone()); (t.clone(), vec!["edge"]) } else if rng.chance(1, 6) {
                let n = rng.below(40); let mut s = String::new();
                for _ in 0..n { if rng.bool() { s.push_str(*rng.pick(ODD)); } else { s.push((0x20 + rng.below(0x5f) as u8) as char); } if rng.chance(1, 5) { s.push(' '); } }
                (s, vec!["arbitrary"])
            } else { let t = rng.pick(&temps).clone(); mutate(&mut rng, &t) };
            for t in &tags { report.count(&format!("mut_{}", t)); }
            report.case(&text, !tags.is_empty());
            for kind in kinds.iter() {
                let run = |text: &str| {
                    let text = text.to_string(); let net = net.clone(); let kind = match kind { ManifestKind::V1 => ManifestKind::V1, ManifestKind::SystemV1 => ManifestKind::SystemV1, ManifestKind::V2 => ManifestKind::V2, ManifestKind::SubintentV2 => ManifestKind::SubintentV2 };
                    catch(move || compile_any_manifest(&text, kind, &net, BlobProvider::new_with_blobs(vec![vec![1u8]])).map(|m| format!("{:?}", m)))
                };
                let r1 = run(&text);
                let r2 = run(&text);
                let input = json!({"text": text, "kind": kind_name(kind), "mutations": tags});
                match (&r1, &r2) {
                    (Err(p), _) | (_, Err(p)) => { report.oracle_failure(i, "", &format!("compile_any_manifest panicked: {}", p), input.clone()); continue; }
                    (Ok(a), Ok(b)) => if a != b { report.oracle_failure(i, "", "compile_any_manifest is not deterministic", input.clone()); },
                }
                match r1.unwrap() {
                    Ok(_) => report.count("compiled_ok"),
                    Err(e) => {
                        report.count(match &e { CompileError::LexerError(_) => "lexer_error", CompileError::ParserError(_) => "parser_error", CompileError::GeneratorError(_) => "generator_error" });
                        for style in [CompileErrorDiagnosticsStyle::PlainText, CompileErrorDiagnosticsStyle::TextTerminalColors] {
                            let (t2, e2) = (text.clone(), e.clone());
                            let d1 = catch(move || compile_error_diagnostics(&t2, e2, style));
                            let (t3, e3) = (text.clone(), e.clone());
                            let d2 = catch(move || compile_error_diagnostics(&t3, e3, style));
                            let crlf = text.contains('\r');
                            match (&d1, &d2) {
                                (Err(p), _) | (_, Err(p)) => { report.count("diagnostics_panic"); report.oracle_failure(i, if crlf { "diagnostics-cr" } else { "" }, &format!("compile_error_diagnostics panicked: {}", p), json!({"text": text, "kind": kind_name(kind), "error": format!("{:?}", e)})); }
                                (Ok(a), Ok(b)) => { report.count("diagnostics_rendered"); if a != b { report.oracle_failure(i, "", "diagnostics not deterministic", input.clone()); }
                                    if matches!(kind, ManifestKind::V1) && matches!(style, CompileErrorDiagnosticsStyle::PlainText) && text.chars().count() <= 6000 { let c = snippet_case(&mut report, &text, &e, a); cw.push(c); } }
                            }
                        }
                    }
                }
            }
            cw.push("CNone".to_string());
        } else {
            if is_b2 {
                // ---- stream B2: whole-lexer correspondence on a short text ----
                let fam_l = if fam_kind == Some(1) { let x = flex.get(lex_ix); lex_ix += 1; x } else { None };
                if let Some((c, _)) = fam_l { report.count(c); fam_classes.push(c.clone()); }
                let text: String = if let Some((_, t)) = fam_l { t.clone() } else if rng.bool() {
                    let n = rng.range(1, 9); let mut t = String::new();
                    for _ in 0..n { t.push_str(&rng.pick(FRAGS).replace("\\n", "\n").replace("\\r", "\r").replace("\\t", "\t")); if rng.chance(3, 4) { t.push_str(*rng.pick(&[" ", "\n", "\r\n", "\t", "  "])); } }
                    t
                } else {
                    let base = rng.pick(&temps).clone();
                    if rng.bool() {
                        // an unmutated run of whole lines (lexes fine), LF or CRLF
                        let lines: Vec<&str> = base.split('\n').collect(); let a = rng.usize_below(lines.len()); let b = (a + 1 + rng.usize_below(4)).min(lines.len());
                        let mut t = lines[a..b].join(if rng.chance(1, 3) { "\r\n" } else { "\n" }); if t.chars().count() > 260 { t = t.chars().take(260).collect(); } t
                    } else {
                        let (m, _) = mutate(&mut rng, &base);
                        let cs: Vec<char> = m.chars().collect(); if cs.is_empty() { String::new() } else { let a = rng.usize_below(cs.len()); let b = (a + rng.usize_below(160)).min(cs.len()); cs[a..b].iter().collect() }
                    }
                };
                let t2 = text.clone();
                let r = catch(move || tokenize(&t2));
                report.case(&text, true);
                let out = match &r {
                    Err(p) => { report.oracle_failure(i, "", &format!("tokenize panicked: {}", p), json!({"text": text})); "LPanic".to_string() }
                    Ok(Ok(toks)) => { report.count("lex_ok"); report.count_n("tokens", toks.len() as u64); format!("(LOk {})", coq_list(toks.iter().map(tok_coq))) }
                    Ok(Err(e)) => { report.count("lex_err"); lex_err_coq(e).replacen("(SErr", "(LErr", 1) }
                };
                cw.push(format!("CLex {} {}", chars_coq(&text), out));
                if let Ok(Ok(toks)) = &r {
                    let t = toks.clone();
                    let pr = catch(move || -> Result<usize, ParserErrorKind> { let mut p = Parser::new(t, PARSER_MAX_DEPTH).map_err(|e| e.error_kind)?; p.parse_manifest().map(|v| v.len()).map_err(|e| e.error_kind) });
                    let res = match &pr {
                        Err(p) => { report.oracle_failure(i, "", &format!("parser panicked: {}", p), json!({"text": text})); "MPanic".to_string() }
                        Ok(Ok(n)) => { report.count("parse_ok"); format!("(MOk {})", n) }
                        Ok(Err(k)) => { report.count("parse_err"); format!("(MErr {})", match k {
                            ParserErrorKind::UnexpectedEof => "PEof", ParserErrorKind::UnexpectedToken { .. } | ParserErrorKind::InvalidArgument { .. } => "PUnexpected",
                            ParserErrorKind::InvalidNumberOfValues { .. } => "PNumValues", ParserErrorKind::InvalidNumberOfTypes { .. } => "PNumTypes",
                            ParserErrorKind::UnknownEnumDiscriminator { .. } => "PUnmodelled", ParserErrorKind::MaxDepthExceeded { .. } => "PMaxDepth" }) }
                    };
                    cw.push(format!("CManifest {} {}", coq_list(toks.iter().map(tok_coq)), res));
                }
                continue;
            }
            // ---- stream B: one string literal ----
            let mut lit = gen_string_literal(&mut rng);
            if fam_kind == Some(2) { if let Some((c, t)) = fstr.get(str_ix) { lit = t.clone(); report.count(c); fam_classes.push(c.clone()); } str_ix += 1; }
            let lit2 = lit.clone();
            let r = catch(move || tokenize(&lit2));
            report.case(&lit, lit.contains('\\'));
            let out = match &r {
                Err(p) => { report.oracle_failure(i, "", &format!("tokenize panicked: {}", p), json!({"text": lit})); "SPanic".to_string() }
                Ok(Ok(toks)) => match toks.first() {
                    Some(t) => match &t.token { Token::StringLiteral(s) => { report.count("string_ok"); format!("(SOk {} {})", chars_coq(s), t.span.end.full_index) } _ => "SPanic".to_string() },
                    None => "SPanic".to_string(),
                },
                Ok(Err(e)) => {
                    // an error after the first token (the literal closed early) is outside the model's scope: re-lex only the first literal
                    report.count("string_err"); lex_err_coq(e)
                }
            };
            cw.push(format!("CString {} {}", chars_coq(&lit), out));
            // ---- id validator: one op sequence per string case ----
            let ops: Vec<VOp> = if let Some((c, o)) = fidv.get(idv_ix) { idv_ix += 1; report.count(c); fam_classes.push(c.clone()); o.clone() } else {
                let n = rng.range(1, 14); let (mut nb, mut np) = (0u32, 0u32); let mut v = vec![];
                // half of the sequences are valid by construction (live buckets with lock counts, live proofs), the rest free
                let valid = rng.bool();
                let mut live_b: Vec<(u32, u32)> = vec![]; let mut live_p: Vec<(u32, Option<u32>)> = vec![];
                for _ in 0..n {
                    if valid {
                        let unlocked: Vec<u32> = live_b.iter().filter(|x| x.1 == 0).map(|x| x.0).collect();
                        let choice = rng.below(12);
                        if choice <= 2 || live_b.is_empty() && choice <= 8 { live_b.push((nb, 0)); nb += 1; v.push(VOp::NewBucket); }
                        else if choice == 3 && !unlocked.is_empty() { let b = *rng.pick(&unlocked); live_b.retain(|x| x.0 != b); v.push(VOp::DropBucket(b)); }
                        else if choice <= 5 && !live_b.is_empty() { let k = rng.usize_below(live_b.len()); live_b[k].1 += 1; live_p.push((np, Some(live_b[k].0))); np += 1; v.push(VOp::NewProof(Some(live_b[k].0))); }
                        else if choice == 6 { live_p.push((np, None)); np += 1; v.push(VOp::NewProof(None)); }
                        else if choice <= 8 && !live_p.is_empty() { let (p, k) = *rng.pick(&live_p); if let Some(b) = k { for x in live_b.iter_mut() { if x.0 == b { x.1 += 1; } } } live_p.push((np, k)); np += 1; v.push(VOp::CloneProof(p)); }
                        else if choice <= 10 && !live_p.is_empty() { let i = rng.usize_below(live_p.len()); let (p, k) = live_p.remove(i); if let Some(b) = k { for x in live_b.iter_mut() { if x.0 == b { x.1 -= 1; } } } v.push(VOp::DropProof(p)); }
                        else { live_p.clear(); for x in live_b.iter_mut() { x.1 = 0; } v.push(VOp::DropAll); }
                        continue;
                    }
                    let b = if nb > 0 && rng.chance(9, 10) { rng.below(nb as u64) as u32 } else { rng.below(3) as u32 };
                    let p = if np > 0 && rng.chance(9, 10) { rng.below(np as u64) as u32 } else { rng.below(3) as u32 };
                    v.push(match rng.below(12) { 0..=2 => { nb += 1; VOp::NewBucket } 3 => VOp::DropBucket(b), 4..=5 => { np += 1; VOp::NewProof(Some(b)) } 6 => { np += 1; VOp::NewProof(None) } 7..=8 => { np += 1; VOp::CloneProof(p) } 9..=10 => VOp::DropProof(p), _ => VOp::DropAll });
                }
                v
            };
            let o2 = ops.clone();
            let out = match catch(move || run_idv(&o2)) {
                Err(p) => { report.oracle_failure(i, "", &format!("BasicManifestValidator panicked: {}", p), json!({"ops": format!("{:?}", ops)})); vec!["OPanic".to_string()] }
                Ok(o) => { report.count(if o.last().map(|x| x == "OErr").unwrap_or(false) { "idv_err" } else { "idv_ok" }); o }
            };
            cw.push(format!("CIdv {} {}", coq_list(ops.iter().map(vop_coq)), coq_list(out.into_iter())));
        }
    }
    for c in &fam_classes { report.floor(c, 1); }
    let n = args.cases as u64;
    report.floor("lexer_error", n / 10);
    report.floor("parser_error", n / 10);
    report.floor("generator_error", n / 20);
    report.floor("compiled_ok", n / 20);
    report.floor("diagnostics_rendered", n / 2);
    report.floor("string_ok", n / 60);
    report.floor("string_err", n / 60);
    report.floor("lex_ok", n / 60);
    report.floor("parse_ok", n / 60);
    report.floor("parse_err", n / 60);
    report.floor("lex_err", n / 60);
    report.floor("snippet_parsed", n / 10);
    report.floor("snippet_caret_compared", n / 20);
    report.floor("span_multiline", 1);
    report.floor("idv_ok", n / 60);
    report.floor("idv_err", n / 60);
    cw.write(&args.out, args.shards).unwrap();
    report.write(&args.out).unwrap();
}

