//! C33 correspondence harness: only valid signatures authorize a transaction.
//!
//! Builds REAL transactions (V1 notarized, V2 notarized with subintent trees, V2 signed partial
//! transactions, V2 preview transactions) with secp256k1 + ed25519 keys, then perturbs the
//! signature lists (duplicates, signatures over a wrong hash, lists swapped between intents,
//! corrupted bytes, wrong declared ed25519 key, notary duplicating a signer, wrong notary key /
//! curve mismatch, per-intent and total limits +-1, wrong number of subintent signature batches,
//! single-byte mutations of the raw payload) and runs prepare + validate of the real
//! `TransactionValidator` (configs babylon / latest read from the code at run time, plus variants of
//! them with a flipped duplicate-signer flag or smaller limits) under `catch`.
//!
//! Model input is extracted from the *prepared* transaction (hashes, signature lists, notary key);
//! the public primitives `verify_and_recover` / `verify` are evaluated on every (hash, signature)
//! pair of the case and written as finite tables, so the Coq model's oracles are table lookups.
//!
//! Direct oracle (independent of the Coq model, declarative, order-free):
//!  * ground truth by construction: a signature produced here by pool key K over hash H recovers K
//!    over H; every other ed25519 (hash, signature) pair must not verify;
//!  * the low-level primitives of radix_common::crypto agree with the public ones;
//!  * accepted  => every signature verifies over the hash of the intent it sits in, the signer set is
//!    exactly the recovered keys in order (+ notary iff signatory and not already present), no
//!    duplicates, counts within the limits, total = sum of counts (+1 notary);
//!  * rejected with a signature error => that reason really holds at that location;
//!  * a byte-mutated valid transaction that is still accepted has the same intent hashes and signer sets.
use radix_common::crypto::{verify_and_recover_secp256k1, verify_ed25519, verify_secp256k1};
use radix_common::prelude::*;
use radix_transactions::errors::*;
use radix_transactions::prelude::*;
use radix_transactions::validation::*;
use serde_json::json;
use vh_common::*;

type SigWk = SignatureWithPublicKeyV1;

// ------------------------------------------------------------------------------------------------
// keys
// ------------------------------------------------------------------------------------------------
struct Pool {
    privs: Vec<PrivateKey>,
    pubs: Vec<PublicKey>,
}
const POOL: usize = 40;
fn pool() -> Pool {
    let mut privs = Vec::new();
    for i in 0..POOL {
        if i % 2 == 0 {
            privs.push(PrivateKey::Secp256k1(Secp256k1PrivateKey::from_u64(7000 + i as u64).unwrap()));
        } else {
            privs.push(PrivateKey::Ed25519(Ed25519PrivateKey::from_u64(9000 + i as u64).unwrap()));
        }
    }
    let pubs = privs.iter().map(|p| p.public_key()).collect();
    Pool { privs, pubs }
}

/// what this harness knows to be genuine: signature value -> (pool key, hash it was made over)
#[derive(Default)]
struct Truth {
    intent: Vec<(SigWk, usize, Hash)>,
    notary: Vec<(SignatureV1, usize, Hash)>,
}

fn sigwk_bytes_mut(s: &mut SigWk) -> &mut [u8] {
    match s {
        SigWk::Secp256k1 { signature } => &mut signature.0[..],
        SigWk::Ed25519 { signature, .. } => &mut signature.0[..],
    }
}

// ------------------------------------------------------------------------------------------------
// extracted model input / observation
// ------------------------------------------------------------------------------------------------
#[derive(Clone, Debug)]
enum RootX {
    Tx { nis: bool, npk: PublicKey, nsig: SignatureV1, nh: Hash, sigs: Vec<SigWk>, sh: Hash },
    PreviewTx { nis: bool, npk: PublicKey, keys: Vec<PublicKey> },
    Sub { sigs: Vec<SigWk>, sh: Hash },
}
#[derive(Clone, Debug)]
enum BatchX {
    Sigs(Vec<SigWk>),
    Keys(Vec<PublicKey>),
}
#[derive(Clone, Debug)]
struct Extracted {
    v2: bool,
    entry_v1: bool,
    root_is_tx: bool,
    root_hash: Hash,
    root: RootX,
    subs: Vec<Hash>,
    batches: Vec<BatchX>,
}
#[derive(Clone, Debug, PartialEq)]
enum Loc {
    RootTx(Hash),
    RootSub(Hash),
    NonRoot(usize, Hash),
    Across,
}
#[derive(Clone, Debug, PartialEq)]
enum SErr {
    TooMany(usize, usize),
    InvalidIntent,
    InvalidNotary,
    Duplicate,
    NotaryDup,
    Batches,
}
#[derive(Clone, Debug)]
enum Obs {
    Accepted { root: Vec<PublicKey>, non_root: Vec<Vec<PublicKey>>, total: usize },
    Rejected(Loc, SErr),
    Other { prepared: bool, what: String },
    Panic(String),
}

fn classify(e: TransactionValidationError) -> Obs {
    use TransactionValidationError as E;
    match e {
        E::SignatureValidationError(loc, err) => {
            let l = match loc {
                TransactionValidationErrorLocation::RootTransactionIntent(h) => Loc::RootTx(*h.as_hash()),
                TransactionValidationErrorLocation::RootSubintent(h) => Loc::RootSub(*h.as_hash()),
                TransactionValidationErrorLocation::NonRootSubintent(i, h) => Loc::NonRoot(i.0, *h.as_hash()),
                TransactionValidationErrorLocation::AcrossTransaction => Loc::Across,
                TransactionValidationErrorLocation::Unlocatable => {
                    return Obs::Other { prepared: true, what: "SigUnlocatable".into() }
                }
            };
            let s = match err {
                SignatureValidationError::TooManySignatures { total, limit } => SErr::TooMany(total, limit),
                SignatureValidationError::InvalidIntentSignature => SErr::InvalidIntent,
                SignatureValidationError::InvalidNotarySignature => SErr::InvalidNotary,
                SignatureValidationError::DuplicateSigner => SErr::Duplicate,
                SignatureValidationError::NotaryIsSignatorySoShouldNotAlsoBeASigner => SErr::NotaryDup,
                SignatureValidationError::IncorrectNumberOfSubintentSignatureBatches => SErr::Batches,
                SignatureValidationError::SerializationError(_) => {
                    return Obs::Other { prepared: true, what: "SigSerialization".into() }
                }
            };
            Obs::Rejected(l, s)
        }
        E::PrepareError(_) => Obs::Other { prepared: false, what: "PrepareError".into() },
        E::TransactionVersionNotPermitted(_) => Obs::Other { prepared: false, what: "VersionNotPermitted".into() },
        E::TransactionTooLarge => Obs::Other { prepared: false, what: "TooLarge".into() },
        E::EncodeError(_) => Obs::Other { prepared: true, what: "EncodeError".into() },
        E::SubintentStructureError(..) => Obs::Other { prepared: true, what: "SubintentStructureError".into() },
        E::IntentValidationError(..) => Obs::Other { prepared: true, what: "IntentValidationError".into() },
    }
}

// ------------------------------------------------------------------------------------------------
// the four entry points: raw bytes -> (extracted input, observation)
// ------------------------------------------------------------------------------------------------
fn sigs_of(v: &[IntentSignatureV1]) -> Vec<SigWk> {
    v.iter().map(|s| s.0).collect()
}
fn keys_of(s: &IndexSet<PublicKey>) -> Vec<PublicKey> {
    s.iter().cloned().collect()
}

fn run_v1(raw: &[u8], validator: &TransactionValidator) -> (Option<Extracted>, Obs) {
    let raw = RawNotarizedTransaction::from_vec(raw.to_vec());
    let prepared = match PreparedNotarizedTransactionV1::prepare(&raw, validator.preparation_settings()) {
        Ok(p) => p,
        Err(_) => return (None, Obs::Other { prepared: false, what: "PrepareError".into() }),
    };
    #[allow(deprecated)]
    let x = {
        let intent = &prepared.signed_intent.intent;
        Extracted {
            v2: false,
            entry_v1: true,
            root_is_tx: true,
            root_hash: *prepared.transaction_intent_hash().as_hash(),
            root: RootX::Tx {
                nis: intent.header.inner.notary_is_signatory,
                npk: intent.header.inner.notary_public_key,
                nsig: prepared.notary_signature.inner.0,
                nh: *prepared.signed_transaction_intent_hash().as_hash(),
                sigs: sigs_of(&prepared.signed_intent.intent_signatures.inner.signatures),
                sh: *prepared.transaction_intent_hash().as_hash(),
            },
            subs: vec![],
            batches: vec![],
        }
    };
    let obs = match prepared.validate(validator) {
        Ok(v) => Obs::Accepted { root: keys_of(&v.signer_keys), non_root: vec![], total: v.num_of_signature_validations },
        Err(e) => classify(e),
    };
    (Some(x), obs)
}

fn run_v2(raw: &[u8], validator: &TransactionValidator) -> (Option<Extracted>, Obs) {
    let raw = RawNotarizedTransaction::from_vec(raw.to_vec());
    let prepared = match PreparedNotarizedTransactionV2::prepare(&raw, validator.preparation_settings()) {
        Ok(p) => p,
        Err(_) => return (None, Obs::Other { prepared: false, what: "PrepareError".into() }),
    };
    let ti = &prepared.signed_intent.transaction_intent;
    let x = Extracted {
        v2: true,
        entry_v1: false,
        root_is_tx: true,
        root_hash: *ti.transaction_intent_hash().as_hash(),
        root: RootX::Tx {
            nis: ti.transaction_header.inner.notary_is_signatory,
            npk: ti.transaction_header.inner.notary_public_key,
            nsig: prepared.notary_signature.inner.0,
            nh: *prepared.signed_transaction_intent_hash().as_hash(),
            sigs: sigs_of(&prepared.signed_intent.transaction_intent_signatures.inner.signatures),
            sh: *ti.transaction_intent_hash().as_hash(),
        },
        subs: ti.non_root_subintents.subintents.iter().map(|s| *s.subintent_hash().as_hash()).collect(),
        batches: prepared
            .signed_intent
            .non_root_subintent_signatures
            .by_subintent
            .iter()
            .map(|b| BatchX::Sigs(sigs_of(&b.inner.signatures)))
            .collect(),
    };
    let obs = match prepared.validate(validator) {
        Ok(v) => Obs::Accepted {
            root: keys_of(&v.transaction_intent_info.signer_keys),
            non_root: v.non_root_subintents_info.iter().map(|i| keys_of(&i.signer_keys)).collect(),
            total: v.total_signature_validations,
        },
        Err(e) => classify(e),
    };
    (Some(x), obs)
}

fn run_partial(raw: &[u8], validator: &TransactionValidator) -> (Option<Extracted>, Obs) {
    let raw = RawSignedPartialTransaction::from_vec(raw.to_vec());
    let prepared = match PreparedSignedPartialTransactionV2::prepare(&raw, validator.preparation_settings()) {
        Ok(p) => p,
        Err(_) => return (None, Obs::Other { prepared: false, what: "PrepareError".into() }),
    };
    let pt = &prepared.partial_transaction;
    let x = Extracted {
        v2: true,
        entry_v1: false,
        root_is_tx: false,
        root_hash: *pt.root_subintent.subintent_hash().as_hash(),
        root: RootX::Sub {
            sigs: sigs_of(&prepared.root_subintent_signatures.inner.signatures),
            sh: *pt.root_subintent.subintent_hash().as_hash(),
        },
        subs: pt.non_root_subintents.subintents.iter().map(|s| *s.subintent_hash().as_hash()).collect(),
        batches: prepared
            .non_root_subintent_signatures
            .by_subintent
            .iter()
            .map(|b| BatchX::Sigs(sigs_of(&b.inner.signatures)))
            .collect(),
    };
    let obs = match prepared.validate(validator) {
        Ok(v) => Obs::Accepted {
            root: keys_of(&v.root_subintent_info.signer_keys),
            non_root: v.non_root_subintents_info.iter().map(|i| keys_of(&i.signer_keys)).collect(),
            total: v.total_signature_validations,
        },
        Err(e) => classify(e),
    };
    (Some(x), obs)
}

fn run_preview(raw: &[u8], validator: &TransactionValidator) -> (Option<Extracted>, Obs) {
    let raw = RawPreviewTransaction::from_vec(raw.to_vec());
    let prepared = match PreparedPreviewTransactionV2::prepare(&raw, validator.preparation_settings()) {
        Ok(p) => p,
        Err(_) => return (None, Obs::Other { prepared: false, what: "PrepareError".into() }),
    };
    let ti = &prepared.transaction_intent;
    let x = Extracted {
        v2: true,
        entry_v1: false,
        root_is_tx: true,
        root_hash: *ti.transaction_intent_hash().as_hash(),
        root: RootX::PreviewTx {
            nis: ti.transaction_header.inner.notary_is_signatory,
            npk: ti.transaction_header.inner.notary_public_key,
            keys: prepared.root_subintent_signatures.inner.clone(),
        },
        subs: ti.non_root_subintents.subintents.iter().map(|s| *s.subintent_hash().as_hash()).collect(),
        batches: prepared.non_root_subintent_signatures.inner.iter().map(|k| BatchX::Keys(k.clone())).collect(),
    };
    let obs = match prepared.validate(validator) {
        Ok(v) => Obs::Accepted {
            root: keys_of(&v.transaction_intent_info.signer_keys),
            non_root: v.non_root_subintents_info.iter().map(|i| keys_of(&i.signer_keys)).collect(),
            total: v.total_expected_signature_validations,
        },
        Err(e) => classify(e),
    };
    (Some(x), obs)
}

#[derive(Clone, Copy, Debug, PartialEq)]
enum Kind {
    V1,
    V2,
    Partial,
    Preview,
}
fn run_kind(kind: Kind, raw: &[u8], validator: &TransactionValidator) -> (Option<Extracted>, Obs) {
    let raw2 = raw.to_vec();
    let v = *validator;
    match catch(move || match kind {
        Kind::V1 => run_v1(&raw2, &v),
        Kind::V2 => run_v2(&raw2, &v),
        Kind::Partial => run_partial(&raw2, &v),
        Kind::Preview => run_preview(&raw2, &v),
    }) {
        Ok(r) => r,
        Err(msg) => (None, Obs::Panic(msg)),
    }
}

// ------------------------------------------------------------------------------------------------
// content builders (unsigned)
// ------------------------------------------------------------------------------------------------
#[derive(Clone, Debug)]
struct Shape {
    children: Vec<Shape>,
}
fn shape_size(s: &Shape) -> usize {
    s.children.iter().map(|c| 1 + shape_size(c)).sum()
}
fn gen_shape(rng: &mut Rng, depth: usize) -> Shape {
    let n = if depth >= 2 {
        0
    } else {
        match rng.below(10) {
            0..=3 => 0,
            4..=6 => 1,
            7..=8 => 2,
            _ => 3,
        }
    };
    Shape { children: (0..n).map(|_| gen_shape(rng, depth + 1)).collect() }
}
fn flat_shape(n: usize) -> Shape {
    Shape { children: (0..n).map(|_| Shape { children: vec![] }).collect() }
}
fn net() -> u8 {
    NetworkDefinition::simulator().id
}
fn intent_header(rng: &mut Rng) -> IntentHeaderV2 {
    IntentHeaderV2 {
        network_id: net(),
        start_epoch_inclusive: Epoch::of(0),
        end_epoch_exclusive: Epoch::of(1 + rng.below(50)),
        min_proposer_timestamp_inclusive: None,
        max_proposer_timestamp_exclusive: None,
        intent_discriminator: rng.next_u64(),
    }
}
fn build_partial(rng: &mut Rng, shape: &Shape) -> SignedPartialTransactionV2 {
    let mut b = PartialTransactionV2Builder::new().intent_header(intent_header(rng));
    let mut names = vec![];
    for (i, c) in shape.children.iter().enumerate() {
        let name = format!("c{}", i);
        b = b.add_signed_child(&name, build_partial(rng, c));
        names.push(name);
    }
    b = b.manifest_builder(|mut mb| {
        for n in names.iter() {
            mb = mb.yield_to_child(n.as_str(), ());
        }
        mb.yield_to_parent(())
    });
    b.build_minimal()
}
fn build_tx_intent(rng: &mut Rng, shape: &Shape, npk: PublicKey, nis: bool) -> TransactionIntentV2 {
    let mut b = TransactionV2Builder::new()
        .transaction_header(TransactionHeaderV2 { notary_public_key: npk, notary_is_signatory: nis, tip_basis_points: rng.below(3) as u32 })
        .intent_header(intent_header(rng));
    let mut names = vec![];
    for (i, c) in shape.children.iter().enumerate() {
        let name = format!("c{}", i);
        b = b.add_signed_child(&name, build_partial(rng, c));
        names.push(name);
    }
    b = b.manifest_builder(|mut mb| {
        mb = mb.lock_fee_from_faucet();
        for n in names.iter() {
            mb = mb.yield_to_child(n.as_str(), ());
        }
        mb
    });
    b.create_intent_and_subintent_info().clone()
}
fn build_v1_intent(rng: &mut Rng, npk: PublicKey, nis: bool) -> IntentV1 {
    let dummy = SignatureV1::Ed25519(Ed25519Signature([0u8; 64]));
    TransactionBuilder::new()
        .header(TransactionHeaderV1 {
            network_id: net(),
            start_epoch_inclusive: Epoch::of(1),
            end_epoch_exclusive: Epoch::of(2 + rng.below(50)),
            nonce: rng.next_u32(),
            notary_public_key: npk,
            notary_is_signatory: nis,
            tip_percentage: rng.below(4) as u16,
        })
        .manifest(ManifestBuilder::new().drop_auth_zone_proofs().build())
        .notary_signature(dummy)
        .build()
        .signed_intent
        .intent
}

// ------------------------------------------------------------------------------------------------
// signature generation
// ------------------------------------------------------------------------------------------------
fn pick_distinct(rng: &mut Rng, n: usize, must: Option<usize>, avoid: Option<usize>) -> Vec<usize> {
    let mut ids: Vec<usize> = (0..POOL).filter(|i| Some(*i) != must && Some(*i) != avoid).collect();
    rng.shuffle(&mut ids);
    let mut out: Vec<usize> = ids.into_iter().take(n.saturating_sub(must.is_some() as usize)).collect();
    if let Some(m) = must {
        if n > 0 {
            let pos = rng.usize_below(out.len() + 1);
            out.insert(pos, m);
        }
    }
    out
}

/// One signature-with-public-key by pool key `k`, nominally over `own`; `dirty` allows bad modes.
fn gen_sig(rng: &mut Rng, p: &Pool, truth: &mut Truth, report: &mut Report, k: usize, own: &Hash, others: &[Hash], dirty: bool) -> SigWk {
    let mode = if dirty { rng.below(100) } else { 0 };
    let good = |h: &Hash, truth: &mut Truth| {
        let s = p.privs[k].sign_with_public_key(h);
        truth.intent.push((s, k, *h));
        s
    };
    if mode < 82 {
        good(own, truth)
    } else if mode < 89 {
        report.count("mut_sig_over_wrong_hash");
        let h = if !others.is_empty() && rng.chance(3, 4) { *rng.pick(others) } else { hash(rng.bytes(8)) };
        good(&h, truth)
    } else if mode < 95 {
        report.count("mut_sig_corrupt_byte");
        let mut s = p.privs[k].sign_with_public_key(own);
        let bs = sigwk_bytes_mut(&mut s);
        let i = rng.usize_below(bs.len());
        bs[i] ^= 1 << rng.below(8);
        s
    } else {
        match p.privs[k].sign_with_public_key(own) {
            SigWk::Ed25519 { signature, .. } => {
                report.count("mut_ed25519_wrong_declared_key");
                let other = match &p.pubs[(k + 2) % POOL] {
                    PublicKey::Ed25519(pk) => *pk,
                    _ => unreachable!(),
                };
                SigWk::Ed25519 { public_key: other, signature }
            }
            _ => good(own, truth),
        }
    }
}

fn gen_list(rng: &mut Rng, p: &Pool, truth: &mut Truth, report: &mut Report, n: usize, must: Option<usize>, avoid: Option<usize>, own: &Hash, others: &[Hash], dirty: bool) -> Vec<SigWk> {
    let ks = pick_distinct(rng, n, must, avoid);
    let mut v: Vec<SigWk> = ks.iter().map(|k| gen_sig(rng, p, truth, report, *k, own, others, dirty)).collect();
    if dirty && !v.is_empty() && rng.chance(8, 100) {
        report.count("mut_duplicate_signature");
        let i = rng.usize_below(v.len());
        let j = rng.usize_below(v.len() + 1);
        let d = v[i];
        v.insert(j, d);
    }
    v
}

#[derive(Clone, Copy, Debug, PartialEq)]
enum NotaryMode {
    Good,
    WrongHash,
    WrongKey,
    CurveMismatch,
    Corrupt,
    RecidTweak,
}
fn gen_notary_mode(rng: &mut Rng, dirty: bool) -> NotaryMode {
    if !dirty {
        return NotaryMode::Good;
    }
    match rng.below(100) {
        0..=77 => NotaryMode::Good,
        78..=82 => NotaryMode::WrongHash,
        83..=87 => NotaryMode::WrongKey,
        88..=91 => NotaryMode::CurveMismatch,
        92..=96 => NotaryMode::Corrupt,
        _ => NotaryMode::RecidTweak,
    }
}
fn notary_sign(rng: &mut Rng, p: &Pool, truth: &mut Truth, report: &mut Report, nk: usize, mode: NotaryMode, signed_hash: &Hash, intent_hash: &Hash) -> SignatureV1 {
    let good = |k: usize, h: &Hash, truth: &mut Truth| {
        let s = p.privs[k].sign_without_public_key(h);
        truth.notary.push((s, k, *h));
        s
    };
    if mode != NotaryMode::Good {
        report.count(&format!("mut_notary_{:?}", mode));
    }
    match mode {
        NotaryMode::Good => good(nk, signed_hash, truth),
        NotaryMode::WrongHash => good(nk, intent_hash, truth),
        NotaryMode::WrongKey => good((nk + 2) % POOL, signed_hash, truth),
        NotaryMode::CurveMismatch => good((nk + 1) % POOL, signed_hash, truth),
        NotaryMode::Corrupt => {
            let mut s = p.privs[nk].sign_without_public_key(signed_hash);
            match &mut s {
                SignatureV1::Secp256k1(x) => {
                    let i = 1 + rng.usize_below(64); // not the recovery id (see RecidTweak)
                    x.0[i] ^= 1 << rng.below(8);
                }
                SignatureV1::Ed25519(x) => {
                    let i = rng.usize_below(64);
                    x.0[i] ^= 1 << rng.below(8);
                }
            }
            s
        }
        NotaryMode::RecidTweak => {
            // verify_secp256k1 ignores the value of the recovery id (only range-checks it)
            let mut s = good(nk, signed_hash, truth);
            if let SignatureV1::Secp256k1(x) = &mut s {
                x.0[0] = (x.0[0] + 1 + rng.below(6) as u8) % 6; // 0..3 still valid ids, 4..5 invalid
            }
            s
        }
    }
}

// ------------------------------------------------------------------------------------------------
// configs
// ------------------------------------------------------------------------------------------------
fn gen_config(rng: &mut Rng, report: &mut Report, kind: Kind, allow_variant: bool) -> (TransactionValidationConfig, &'static str) {
    let (mut cfg, mut name) = if kind == Kind::V1 && rng.bool() {
        (TransactionValidationConfig::babylon(), "babylon")
    } else {
        (TransactionValidationConfig::latest(), "latest")
    };
    if allow_variant && rng.chance(1, 4) {
        name = "variant";
        match rng.below(3) {
            0 => cfg.v1_transactions_allow_notary_to_duplicate_signer = !cfg.v1_transactions_allow_notary_to_duplicate_signer,
            1 => cfg.max_signer_signatures_per_intent = rng.below(4) as usize,
            _ => cfg.max_total_signature_validations = rng.below(9) as usize,
        }
    }
    report.count(&format!("config_{}", name));
    (cfg, name)
}

// ------------------------------------------------------------------------------------------------
// case assembly
// ------------------------------------------------------------------------------------------------
struct Built {
    #[allow(dead_code)]
    kind: Kind,
    raw: Vec<u8>,
    tag: String,
}

fn encode_preview(intent: &TransactionIntentV2, root: &Vec<PublicKey>, non_root: &Vec<Vec<PublicKey>>) -> Vec<u8> {
    // same bytes as PreviewTransactionV2::to_raw, but the root key list may contain duplicates
    // (the struct holds an IndexSet, the prepared form decodes a Vec)
    manifest_encode(&sbor::SborFixedEnumVariant::<15, (&TransactionIntentV2, &Vec<PublicKey>, &Vec<Vec<PublicKey>>)>::new((intent, root, non_root))).unwrap()
}

/// counts[0] = root, counts[1..] = non-root subintents in transaction order
#[allow(clippy::too_many_arguments)]
fn assemble(rng: &mut Rng, p: &Pool, truth: &mut Truth, report: &mut Report, kind: Kind, shape: &Shape, counts: &[usize], dirty: bool) -> Built {
    let settings = PreparationSettings::latest();
    let nk = rng.usize_below(POOL);
    let nis = rng.bool();
    let npk = p.pubs[nk];
    let notary_signs_too = rng.chance(if nis { 30 } else { 10 }, 100);
    let mut tag = String::new();
    let must = if notary_signs_too { Some(nk) } else { None };
    let avoid = if notary_signs_too { None } else { Some(nk) };
    if notary_signs_too && counts[0] > 0 {
        report.count(if nis { "mut_notary_signatory_also_signs" } else { "notary_nonsignatory_also_signs" });
    }
    match kind {
        Kind::V1 => {
            let intent = build_v1_intent(rng, npk, nis);
            let ih = *intent.prepare(&settings).unwrap().transaction_intent_hash().as_hash();
            let sigs = gen_list(rng, p, truth, report, counts[0], must, avoid, &ih, &[], dirty);
            let signed = SignedIntentV1 {
                intent,
                intent_signatures: IntentSignaturesV1 { signatures: sigs.into_iter().map(IntentSignatureV1).collect() },
            };
            let sh = *signed.prepare(&settings).unwrap().signed_transaction_intent_hash().as_hash();
            let mode = gen_notary_mode(rng, dirty);
            let nsig = notary_sign(rng, p, truth, report, nk, mode, &sh, &ih);
            let tx = NotarizedTransactionV1 { signed_intent: signed, notary_signature: NotarySignatureV1(nsig) };
            Built { kind, raw: tx.to_raw().unwrap().to_vec(), tag }
        }
        Kind::V2 | Kind::Preview => {
            let intent = build_tx_intent(rng, shape, npk, nis);
            let prepared = intent.prepare(&settings).unwrap();
            let ih = *prepared.transaction_intent_hash().as_hash();
            let sub_hashes: Vec<Hash> = prepared.non_root_subintent_hashes().iter().map(|h| *h.as_hash()).collect();
            let mut all = vec![ih];
            all.extend(sub_hashes.iter().cloned());
            if kind == Kind::Preview {
                let gen_keys = |rng: &mut Rng, report: &mut Report, n: usize, must: Option<usize>, avoid: Option<usize>| {
                    let mut v: Vec<PublicKey> = pick_distinct(rng, n, must, avoid).into_iter().map(|k| p.pubs[k]).collect();
                    if dirty && !v.is_empty() && rng.chance(12, 100) {
                        report.count("mut_duplicate_preview_key");
                        let i = rng.usize_below(v.len());
                        let j = rng.usize_below(v.len() + 1);
                        let d = v[i];
                        v.insert(j, d);
                    }
                    v
                };
                let root = gen_keys(rng, report, counts[0], must, avoid);
                let mut non_root: Vec<Vec<PublicKey>> = (0..sub_hashes.len()).map(|i| gen_keys(rng, report, counts[1 + i], None, None)).collect();
                if dirty && rng.chance(6, 100) {
                    report.count("mut_batch_count");
                    if rng.bool() && !non_root.is_empty() {
                        non_root.pop();
                        tag.push_str("batch-1;");
                    } else {
                        non_root.push(vec![]);
                        tag.push_str("batch+1;");
                    }
                }
                return Built { kind, raw: encode_preview(&intent, &root, &non_root), tag };
            }
            let mut lists: Vec<Vec<SigWk>> = Vec::new();
            lists.push(gen_list(rng, p, truth, report, counts[0], must, avoid, &ih, &all, dirty));
            for (i, h) in sub_hashes.iter().enumerate() {
                lists.push(gen_list(rng, p, truth, report, counts[1 + i], None, None, h, &all, dirty));
            }
            if dirty && lists.len() >= 2 && rng.chance(7, 100) {
                report.count("mut_swap_lists_between_intents");
                let i = rng.usize_below(lists.len());
                let j = (i + 1 + rng.usize_below(lists.len() - 1)) % lists.len();
                lists.swap(i, j);
                tag.push_str("swap;");
            }
            let root_list = lists.remove(0);
            let mut by_subintent: Vec<IntentSignaturesV2> = lists
                .into_iter()
                .map(|l| IntentSignaturesV2 { signatures: l.into_iter().map(IntentSignatureV1).collect() })
                .collect();
            if dirty && rng.chance(6, 100) {
                report.count("mut_batch_count");
                if rng.bool() && !by_subintent.is_empty() {
                    by_subintent.pop();
                    tag.push_str("batch-1;");
                } else {
                    by_subintent.push(IntentSignaturesV2 { signatures: vec![] });
                    tag.push_str("batch+1;");
                }
            }
            let signed = SignedTransactionIntentV2 {
                transaction_intent: intent,
                transaction_intent_signatures: IntentSignaturesV2 { signatures: root_list.into_iter().map(IntentSignatureV1).collect() },
                non_root_subintent_signatures: NonRootSubintentSignaturesV2 { by_subintent },
            };
            let sh = *signed.prepare(&settings).unwrap().signed_transaction_intent_hash().as_hash();
            let mode = gen_notary_mode(rng, dirty);
            let nsig = notary_sign(rng, p, truth, report, nk, mode, &sh, &ih);
            let tx = NotarizedTransactionV2 { signed_transaction_intent: signed, notary_signature: NotarySignatureV2(nsig) };
            Built { kind, raw: tx.to_raw().unwrap().to_vec(), tag }
        }
        Kind::Partial => {
            let partial = build_partial(rng, shape).partial_transaction;
            let prepared = partial.prepare(&settings).unwrap();
            let rh = *prepared.root_subintent.subintent_hash().as_hash();
            let sub_hashes: Vec<Hash> = prepared.non_root_subintent_hashes().map(|h| *h.as_hash()).collect();
            let mut all = vec![rh];
            all.extend(sub_hashes.iter().cloned());
            let mut lists: Vec<Vec<SigWk>> = Vec::new();
            lists.push(gen_list(rng, p, truth, report, counts[0], None, None, &rh, &all, dirty));
            for (i, h) in sub_hashes.iter().enumerate() {
                lists.push(gen_list(rng, p, truth, report, counts[1 + i], None, None, h, &all, dirty));
            }
            if dirty && lists.len() >= 2 && rng.chance(7, 100) {
                report.count("mut_swap_lists_between_intents");
                let i = rng.usize_below(lists.len());
                let j = (i + 1 + rng.usize_below(lists.len() - 1)) % lists.len();
                lists.swap(i, j);
                tag.push_str("swap;");
            }
            let root_list = lists.remove(0);
            let mut by_subintent: Vec<IntentSignaturesV2> = lists
                .into_iter()
                .map(|l| IntentSignaturesV2 { signatures: l.into_iter().map(IntentSignatureV1).collect() })
                .collect();
            if dirty && rng.chance(6, 100) {
                report.count("mut_batch_count");
                if rng.bool() && !by_subintent.is_empty() {
                    by_subintent.pop();
                    tag.push_str("batch-1;");
                } else {
                    by_subintent.push(IntentSignaturesV2 { signatures: vec![] });
                    tag.push_str("batch+1;");
                }
            }
            let tx = SignedPartialTransactionV2 {
                partial_transaction: partial,
                root_subintent_signatures: IntentSignaturesV2 { signatures: root_list.into_iter().map(IntentSignatureV1).collect() },
                non_root_subintent_signatures: NonRootSubintentSignaturesV2 { by_subintent },
            };
            Built { kind, raw: tx.to_raw().unwrap().to_vec(), tag }
        }
    }
}


// ------------------------------------------------------------------------------------------------
// deterministic boundary family (identical for every seed; runs before the random stream)
// ------------------------------------------------------------------------------------------------
#[derive(Clone, Debug)]
enum SP {
    Good(usize),            // pool key signs the hash of its own intent
    Other(usize, usize),    // pool key signs the hash of intent j (0 = root, 1.. = non-root subintents)
    Random(usize),          // pool key signs an unrelated hash
    Corrupt(usize, usize),  // good signature with bit 0 of byte i flipped
    WrongDeclared(usize),   // ed25519 signature with another declared public key
    Dup(usize),             // copy of entry i of the same list
    RecidInvalid(usize),    // secp256k1 signature with the recovery id byte out of range
}
#[derive(Clone, Copy, Debug, PartialEq)]
enum NP {
    Good,
    WrongHash,
    WrongKey,
    CurveMismatch,
    Corrupt,
    RecidOther,   // secp256k1: another valid recovery id (verification ignores its value)
    RecidInvalid, // secp256k1: recovery id out of range
}
#[derive(Clone, Debug)]
struct Plan {
    class: &'static str,
    kind: Kind,
    base_babylon: bool,
    per_intent: Option<usize>,
    total: Option<usize>,
    v1_dup: Option<bool>,
    nis: bool,
    nk: usize,
    lists: Vec<Vec<SP>>, // root first; lists.len() - 1 = number of (flat) non-root subintents
    notary: NP,
    batch_delta: i32,
    expect: &'static str,
}
fn plan(class: &'static str, kind: Kind, lists: Vec<Vec<SP>>, expect: &'static str) -> Plan {
    Plan { class, kind, base_babylon: false, per_intent: None, total: None, v1_dup: None, nis: false, nk: 1, lists, notary: NP::Good, batch_delta: 0, expect }
}
fn goods(from: usize, n: usize) -> Vec<SP> {
    (0..n).map(|i| SP::Good(from + i)).collect()
}
fn obs_tag(o: &Obs) -> String {
    match o {
        Obs::Accepted { root, total, .. } => format!("accepted:{}:{}", root.len(), total),
        Obs::Rejected(Loc::NonRoot(i, _), _) => format!("{}{}", obs_key(o), i),
        other => obs_key(other),
    }
}
fn plan_config(pl: &Plan) -> TransactionValidationConfig {
    let mut c = if pl.base_babylon { TransactionValidationConfig::babylon() } else { TransactionValidationConfig::latest() };
    if let Some(x) = pl.per_intent {
        c.max_signer_signatures_per_intent = x;
    }
    if let Some(x) = pl.total {
        c.max_total_signature_validations = x;
    }
    if let Some(x) = pl.v1_dup {
        c.v1_transactions_allow_notary_to_duplicate_signer = x;
    }
    c
}
fn plan_sigs(p: &Pool, truth: &mut Truth, list: &[SP], own: usize, all: &[Hash]) -> Vec<SigWk> {
    let mut v: Vec<SigWk> = vec![];
    for sp in list {
        let s = match sp {
            SP::Good(k) => {
                let s = p.privs[*k].sign_with_public_key(&all[own]);
                truth.intent.push((s, *k, all[own]));
                s
            }
            SP::Other(k, j) => {
                let s = p.privs[*k].sign_with_public_key(&all[*j]);
                truth.intent.push((s, *k, all[*j]));
                s
            }
            SP::Random(k) => {
                let h = hash([*k as u8, 0x77, own as u8]);
                let s = p.privs[*k].sign_with_public_key(&h);
                truth.intent.push((s, *k, h));
                s
            }
            SP::Corrupt(k, i) => {
                let mut s = p.privs[*k].sign_with_public_key(&all[own]);
                sigwk_bytes_mut(&mut s)[*i] ^= 1;
                s
            }
            SP::WrongDeclared(k) => match p.privs[*k].sign_with_public_key(&all[own]) {
                SigWk::Ed25519 { signature, .. } => {
                    let other = match &p.pubs[(*k + 2) % POOL] {
                        PublicKey::Ed25519(pk) => *pk,
                        _ => unreachable!(),
                    };
                    SigWk::Ed25519 { public_key: other, signature }
                }
                _ => panic!("WrongDeclared needs an ed25519 (odd) pool key"),
            },
            SP::Dup(i) => v[*i],
            SP::RecidInvalid(k) => {
                let mut s = p.privs[*k].sign_with_public_key(&all[own]);
                sigwk_bytes_mut(&mut s)[0] = 9;
                s
            }
        };
        v.push(s);
    }
    v
}
fn plan_keys(p: &Pool, list: &[SP]) -> Vec<PublicKey> {
    let mut v: Vec<PublicKey> = vec![];
    for sp in list {
        let k = match sp {
            SP::Good(k) => p.pubs[*k],
            SP::Dup(i) => v[*i],
            other => panic!("preview lists hold keys only: {:?}", other),
        };
        v.push(k);
    }
    v
}
fn plan_notary(p: &Pool, truth: &mut Truth, nk: usize, mode: NP, signed_hash: &Hash, intent_hash: &Hash) -> SignatureV1 {
    let mut good = |k: usize, h: &Hash| {
        let s = p.privs[k].sign_without_public_key(h);
        truth.notary.push((s, k, *h));
        s
    };
    match mode {
        NP::Good => good(nk, signed_hash),
        NP::WrongHash => good(nk, intent_hash),
        NP::WrongKey => good((nk + 2) % POOL, signed_hash),
        NP::CurveMismatch => good((nk + 1) % POOL, signed_hash),
        NP::Corrupt => {
            let mut s = p.privs[nk].sign_without_public_key(signed_hash);
            match &mut s {
                SignatureV1::Secp256k1(x) => x.0[7] ^= 1,
                SignatureV1::Ed25519(x) => x.0[7] ^= 1,
            }
            s
        }
        NP::RecidOther | NP::RecidInvalid => {
            let mut s = good(nk, signed_hash);
            match &mut s {
                SignatureV1::Secp256k1(x) => x.0[0] = if mode == NP::RecidOther { (x.0[0] + 1) % 4 } else { 5 },
                _ => panic!("recovery id plans need a secp256k1 (even) notary key"),
            }
            s
        }
    }
}
fn assemble_plan(p: &Pool, truth: &mut Truth, pl: &Plan, idx: usize) -> Built {
    let settings = PreparationSettings::latest();
    let mut rng = Rng::new(0xC33_B0).fork(idx as u64); // content only; independent of --seed
    let npk = p.pubs[pl.nk];
    let nsub = pl.lists.len() - 1;
    let shape = flat_shape(nsub);
    let adjust = |mut by: Vec<IntentSignaturesV2>| {
        if pl.batch_delta < 0 {
            by.pop();
        } else if pl.batch_delta > 0 {
            by.push(IntentSignaturesV2 { signatures: vec![] });
        }
        by
    };
    match pl.kind {
        Kind::V1 => {
            let intent = build_v1_intent(&mut rng, npk, pl.nis);
            let ih = *intent.prepare(&settings).unwrap().transaction_intent_hash().as_hash();
            let sigs = plan_sigs(p, truth, &pl.lists[0], 0, &[ih]);
            let signed = SignedIntentV1 { intent, intent_signatures: IntentSignaturesV1 { signatures: sigs.into_iter().map(IntentSignatureV1).collect() } };
            let sh = *signed.prepare(&settings).unwrap().signed_transaction_intent_hash().as_hash();
            let nsig = plan_notary(p, truth, pl.nk, pl.notary, &sh, &ih);
            let tx = NotarizedTransactionV1 { signed_intent: signed, notary_signature: NotarySignatureV1(nsig) };
            Built { kind: pl.kind, raw: tx.to_raw().unwrap().to_vec(), tag: format!("boundary:{};", pl.class) }
        }
        Kind::V2 | Kind::Preview => {
            let intent = build_tx_intent(&mut rng, &shape, npk, pl.nis);
            let prepared = intent.prepare(&settings).unwrap();
            let ih = *prepared.transaction_intent_hash().as_hash();
            let mut all = vec![ih];
            all.extend(prepared.non_root_subintent_hashes().iter().map(|h| *h.as_hash()));
            if pl.kind == Kind::Preview {
                let root = plan_keys(p, &pl.lists[0]);
                let mut non_root: Vec<Vec<PublicKey>> = (0..nsub).map(|i| plan_keys(p, &pl.lists[1 + i])).collect();
                if pl.batch_delta < 0 {
                    non_root.pop();
                } else if pl.batch_delta > 0 {
                    non_root.push(vec![]);
                }
                return Built { kind: pl.kind, raw: encode_preview(&intent, &root, &non_root), tag: format!("boundary:{};", pl.class) };
            }
            let root_list = plan_sigs(p, truth, &pl.lists[0], 0, &all);
            let by: Vec<IntentSignaturesV2> = (0..nsub)
                .map(|i| IntentSignaturesV2 { signatures: plan_sigs(p, truth, &pl.lists[1 + i], 1 + i, &all).into_iter().map(IntentSignatureV1).collect() })
                .collect();
            let signed = SignedTransactionIntentV2 {
                transaction_intent: intent,
                transaction_intent_signatures: IntentSignaturesV2 { signatures: root_list.into_iter().map(IntentSignatureV1).collect() },
                non_root_subintent_signatures: NonRootSubintentSignaturesV2 { by_subintent: adjust(by) },
            };
            let sh = *signed.prepare(&settings).unwrap().signed_transaction_intent_hash().as_hash();
            let nsig = plan_notary(p, truth, pl.nk, pl.notary, &sh, &ih);
            let tx = NotarizedTransactionV2 { signed_transaction_intent: signed, notary_signature: NotarySignatureV2(nsig) };
            Built { kind: pl.kind, raw: tx.to_raw().unwrap().to_vec(), tag: format!("boundary:{};", pl.class) }
        }
        Kind::Partial => {
            let partial = build_partial(&mut rng, &shape).partial_transaction;
            let prepared = partial.prepare(&settings).unwrap();
            let rh = *prepared.root_subintent.subintent_hash().as_hash();
            let mut all = vec![rh];
            all.extend(prepared.non_root_subintent_hashes().map(|h| *h.as_hash()));
            let root_list = plan_sigs(p, truth, &pl.lists[0], 0, &all);
            let by: Vec<IntentSignaturesV2> = (0..nsub)
                .map(|i| IntentSignaturesV2 { signatures: plan_sigs(p, truth, &pl.lists[1 + i], 1 + i, &all).into_iter().map(IntentSignatureV1).collect() })
                .collect();
            let tx = SignedPartialTransactionV2 {
                partial_transaction: partial,
                root_subintent_signatures: IntentSignaturesV2 { signatures: root_list.into_iter().map(IntentSignatureV1).collect() },
                non_root_subintent_signatures: NonRootSubintentSignaturesV2 { by_subintent: adjust(by) },
            };
            Built { kind: pl.kind, raw: tx.to_raw().unwrap().to_vec(), tag: format!("boundary:{};", pl.class) }
        }
    }
}

/// pool keys: even = secp256k1, odd = ed25519; the default notary is key 1 (ed25519)
fn boundary_family() -> Vec<Plan> {
    use Kind::*;
    use SP::*;
    let mut v: Vec<Plan> = vec![];
    let with = |mut p: Plan, f: &dyn Fn(&mut Plan)| {
        f(&mut p);
        p
    };
    // ---------------- V1 ----------------
    v.push(plan("v1_two_signers", V1, vec![vec![Good(3), Good(4)]], "accepted:2:3"));
    v.push(plan("v1_no_signers", V1, vec![vec![]], "accepted:0:1"));
    v.push(with(plan("v1_no_signers_notary_signatory", V1, vec![vec![]], "accepted:1:1"), &|p| p.nis = true));
    v.push(with(plan("v1_notary_signatory_appended", V1, vec![vec![Good(3), Good(4)]], "accepted:3:3"), &|p| p.nis = true));
    v.push(with(plan("v1_notary_signatory_also_signs_first_allowed", V1, vec![vec![Good(1), Good(4)]], "accepted:2:3"), &|p| p.nis = true));
    v.push(with(plan("v1_notary_signatory_also_signs_last_allowed", V1, vec![vec![Good(4), Good(1)]], "accepted:2:3"), &|p| p.nis = true));
    v.push(with(plan("v1_babylon_notary_signatory_also_signs_allowed", V1, vec![vec![Good(4), Good(1)]], "accepted:2:3"), &|p| { p.nis = true; p.base_babylon = true; }));
    v.push(with(plan("v1_flag_off_notary_signatory_also_signs", V1, vec![vec![Good(4), Good(1)]], "rejected_NotaryIsSignatorySoShouldNotAlsoBeASigner_root_tx"), &|p| { p.nis = true; p.v1_dup = Some(false); }));
    v.push(with(plan("v1_flag_off_notary_signatory_only_signer", V1, vec![vec![Good(1)]], "rejected_NotaryIsSignatorySoShouldNotAlsoBeASigner_root_tx"), &|p| { p.nis = true; p.v1_dup = Some(false); }));
    v.push(with(plan("v1_flag_off_non_signatory_notary_signs", V1, vec![vec![Good(4), Good(1)]], "accepted:2:3"), &|p| p.v1_dup = Some(false)));
    v.push(with(plan("v1_flag_off_notary_signatory_not_signer", V1, vec![vec![Good(4), Good(3)]], "accepted:3:3"), &|p| { p.nis = true; p.v1_dup = Some(false); }));
    v.push(with(plan("v1_secp_notary_signatory_also_signs_flag_off", V1, vec![vec![Good(0), Good(3)]], "rejected_NotaryIsSignatorySoShouldNotAlsoBeASigner_root_tx"), &|p| { p.nis = true; p.nk = 0; p.v1_dup = Some(false); }));
    for (name, l) in [
        ("first_ed_wrong_declared_key", vec![WrongDeclared(3), Good(4), Good(5)]),
        ("middle_ed_wrong_declared_key", vec![Good(4), WrongDeclared(3), Good(5)]),
        ("last_ed_wrong_declared_key", vec![Good(4), Good(5), WrongDeclared(3)]),
        ("only_ed_over_other_hash", vec![Random(3)]),
        ("last_ed_corrupt_signature_byte", vec![Good(4), Corrupt(3, 40)]),
        ("first_secp_recovery_id_out_of_range", vec![RecidInvalid(4), Good(3)]),
    ] {
        v.push(plan(Box::leak(format!("v1_invalid_{}", name).into_boxed_str()), V1, vec![l], "rejected_InvalidIntentSignature_root_tx"));
    }
    v.push(plan("v1_secp_over_other_hash_recovers_another_key", V1, vec![vec![Random(4)]], "accepted:1:2"));
    v.push(plan("v1_secp_other_recovery_id_recovers_another_key", V1, vec![vec![Corrupt(4, 0), Good(3)]], "accepted:2:3"));
    v.push(plan("v1_duplicate_adjacent", V1, vec![vec![Good(3), Dup(0)]], "rejected_DuplicateSigner_root_tx"));
    v.push(plan("v1_duplicate_first_last", V1, vec![vec![Good(4), Good(3), Good(5), Dup(0)]], "rejected_DuplicateSigner_root_tx"));
    v.push(plan("v1_order_invalid_before_duplicate", V1, vec![vec![Good(3), WrongDeclared(5), Dup(0)]], "rejected_InvalidIntentSignature_root_tx"));
    v.push(plan("v1_order_duplicate_before_invalid", V1, vec![vec![Good(3), Dup(0), WrongDeclared(5)]], "rejected_DuplicateSigner_root_tx"));
    for (name, np, nk, e) in [
        ("wrong_hash", NP::WrongHash, 1usize, "rejected_InvalidNotarySignature_root_tx"),
        ("wrong_key", NP::WrongKey, 1, "rejected_InvalidNotarySignature_root_tx"),
        ("ed_key_secp_signature", NP::CurveMismatch, 1, "rejected_InvalidNotarySignature_root_tx"),
        ("secp_key_ed_signature", NP::CurveMismatch, 0, "rejected_InvalidNotarySignature_root_tx"),
        ("corrupt_ed", NP::Corrupt, 1, "rejected_InvalidNotarySignature_root_tx"),
        ("corrupt_secp", NP::Corrupt, 0, "rejected_InvalidNotarySignature_root_tx"),
        ("secp_wrong_hash", NP::WrongHash, 0, "rejected_InvalidNotarySignature_root_tx"),
        ("secp_good", NP::Good, 0, "accepted:1:2"),
        ("secp_other_recovery_id_still_verifies", NP::RecidOther, 0, "accepted:1:2"),
    ] {
        v.push(with(plan(Box::leak(format!("v1_notary_{}", name).into_boxed_str()), V1, vec![vec![Good(3)]], e), &|p| { p.notary = np; p.nk = nk; }));
    }
    v.push(with(plan("v1_notary_secp_recovery_id_out_of_range", V1, vec![vec![Good(3)]], "rejected_InvalidNotarySignature_root_tx"), &|p| { p.notary = NP::RecidInvalid; p.nk = 0; }));
    v.push(with(plan("v1_order_intent_signature_before_notary", V1, vec![vec![WrongDeclared(3)]], "rejected_InvalidIntentSignature_root_tx"), &|p| p.notary = NP::WrongHash));
    v.push(with(plan("v1_order_notary_signature_before_notary_duplicate", V1, vec![vec![Good(1)]], "rejected_InvalidNotarySignature_root_tx"), &|p| { p.notary = NP::WrongHash; p.nis = true; p.v1_dup = Some(false); }));
    for (name, bab) in [("latest", false), ("babylon", true)] {
        v.push(with(plan(Box::leak(format!("v1_{}_signers_15", name).into_boxed_str()), V1, vec![goods(2, 15)], "accepted:15:16"), &|p| p.base_babylon = bab));
        v.push(with(plan(Box::leak(format!("v1_{}_signers_16", name).into_boxed_str()), V1, vec![goods(2, 16)], "accepted:16:17"), &|p| p.base_babylon = bab));
        v.push(with(plan(Box::leak(format!("v1_{}_signers_17", name).into_boxed_str()), V1, vec![goods(2, 17)], "rejected_TooManySignatures_root_tx"), &|p| p.base_babylon = bab));
    }
    v.push(plan("v1_order_count_before_invalid", V1, vec![{ let mut l = goods(2, 16); l.push(WrongDeclared(21)); l }], "rejected_TooManySignatures_root_tx"));
    v.push(with(plan("v1_total_at_limit", V1, vec![goods(2, 2)], "accepted:2:3"), &|p| p.total = Some(3)));
    v.push(with(plan("v1_total_over_limit", V1, vec![goods(2, 3)], "rejected_TooManySignatures_across"), &|p| p.total = Some(3)));
    v.push(with(plan("v1_order_total_before_invalid", V1, vec![vec![Good(2), Good(4), WrongDeclared(3)]], "rejected_TooManySignatures_across"), &|p| p.total = Some(3)));
    v.push(with(plan("v1_per_intent_limit_zero_no_signers", V1, vec![vec![]], "accepted:0:1"), &|p| p.per_intent = Some(0)));
    v.push(with(plan("v1_per_intent_limit_zero_one_signer", V1, vec![vec![Good(3)]], "rejected_TooManySignatures_root_tx"), &|p| p.per_intent = Some(0)));
    v.push(with(plan("v1_total_limit_zero", V1, vec![vec![]], "rejected_TooManySignatures_across"), &|p| p.total = Some(0)));
    // ---------------- V2 notarized ----------------
    v.push(plan("v2_clean_two_subintents", V2, vec![vec![Good(3), Good(4)], vec![Good(5)], vec![Good(6)]], "accepted:2:5"));
    v.push(plan("v2_no_signers_anywhere", V2, vec![vec![], vec![]], "accepted:0:1"));
    v.push(with(plan("v2_notary_signatory_appended", V2, vec![vec![Good(3)], vec![Good(5)]], "accepted:2:3"), &|p| p.nis = true));
    v.push(with(plan("v2_notary_signatory_also_signs_first", V2, vec![vec![Good(1), Good(3)], vec![]], "rejected_NotaryIsSignatorySoShouldNotAlsoBeASigner_root_tx"), &|p| p.nis = true));
    v.push(with(plan("v2_notary_signatory_also_signs_last", V2, vec![vec![Good(3), Good(1)], vec![]], "rejected_NotaryIsSignatorySoShouldNotAlsoBeASigner_root_tx"), &|p| p.nis = true));
    v.push(with(plan("v2_notary_signatory_also_signs_config_flag_irrelevant", V2, vec![vec![Good(1)]], "rejected_NotaryIsSignatorySoShouldNotAlsoBeASigner_root_tx"), &|p| { p.nis = true; p.v1_dup = Some(true); }));
    v.push(plan("v2_non_signatory_notary_signs", V2, vec![vec![Good(3), Good(1)], vec![]], "accepted:2:3"));
    v.push(with(plan("v2_notary_signatory_signs_a_subintent", V2, vec![vec![Good(3)], vec![Good(1)]], "accepted:2:3"), &|p| p.nis = true));
    v.push(plan("v2_same_key_in_root_and_subintent", V2, vec![vec![Good(3)], vec![Good(3)], vec![Good(3)]], "accepted:1:4"));
    v.push(plan("v2_invalid_in_first_subintent", V2, vec![vec![Good(3)], vec![WrongDeclared(5)], vec![Good(6)]], "rejected_InvalidIntentSignature_non_root0"));
    v.push(plan("v2_invalid_in_last_subintent", V2, vec![vec![Good(3)], vec![Good(6)], vec![Good(4), WrongDeclared(5)]], "rejected_InvalidIntentSignature_non_root1"));
    v.push(plan("v2_invalid_in_both_subintents", V2, vec![vec![Good(3)], vec![WrongDeclared(7)], vec![WrongDeclared(5)]], "rejected_InvalidIntentSignature_non_root0"));
    v.push(plan("v2_order_root_before_subintent", V2, vec![vec![WrongDeclared(3)], vec![WrongDeclared(5)]], "rejected_InvalidIntentSignature_root_tx"));
    v.push(plan("v2_duplicate_in_subintent", V2, vec![vec![Good(3)], vec![Good(5), Good(6), Dup(0)]], "rejected_DuplicateSigner_non_root0"));
    v.push(plan("v2_duplicate_in_root", V2, vec![vec![Good(3), Dup(0)], vec![]], "rejected_DuplicateSigner_root_tx"));
    v.push(plan("v2_ed_signature_over_subintent_hash_in_root", V2, vec![vec![Other(3, 1)], vec![Good(5)]], "rejected_InvalidIntentSignature_root_tx"));
    v.push(plan("v2_ed_signature_over_root_hash_in_subintent", V2, vec![vec![Good(3)], vec![Other(5, 0)]], "rejected_InvalidIntentSignature_non_root0"));
    v.push(plan("v2_ed_signature_over_sibling_hash", V2, vec![vec![Good(3)], vec![Good(5)], vec![Other(7, 1)]], "rejected_InvalidIntentSignature_non_root1"));
    v.push(plan("v2_secp_signature_over_sibling_hash_recovers_another_key", V2, vec![vec![Good(3)], vec![Good(5)], vec![Other(6, 1)]], "accepted:1:4"));
    for (name, np, nk) in [("wrong_hash", NP::WrongHash, 1usize), ("wrong_key", NP::WrongKey, 0), ("curve_mismatch", NP::CurveMismatch, 1), ("corrupt", NP::Corrupt, 0)] {
        v.push(with(plan(Box::leak(format!("v2_notary_{}", name).into_boxed_str()), V2, vec![vec![Good(3)], vec![Good(5)]], "rejected_InvalidNotarySignature_root_tx"), &|p| { p.notary = np; p.nk = nk; }));
    }
    v.push(with(plan("v2_order_notary_before_subintent_signature", V2, vec![vec![Good(3)], vec![WrongDeclared(5)]], "rejected_InvalidNotarySignature_root_tx"), &|p| p.notary = NP::WrongHash));
    v.push(with(plan("v2_order_notary_signature_before_notary_duplicate", V2, vec![vec![Good(1)]], "rejected_InvalidNotarySignature_root_tx"), &|p| { p.notary = NP::WrongKey; p.nis = true; }));
    v.push(with(plan("v2_batches_one_missing", V2, vec![vec![Good(3)], vec![Good(5)], vec![Good(6)]], "rejected_IncorrectNumberOfSubintentSignatureBatches_across"), &|p| p.batch_delta = -1));
    v.push(with(plan("v2_batches_one_extra", V2, vec![vec![Good(3)], vec![Good(5)]], "rejected_IncorrectNumberOfSubintentSignatureBatches_across"), &|p| p.batch_delta = 1));
    v.push(with(plan("v2_batches_extra_without_subintents", V2, vec![vec![Good(3)]], "rejected_IncorrectNumberOfSubintentSignatureBatches_across"), &|p| p.batch_delta = 1));
    v.push(plan("v2_root_signers_16", V2, vec![goods(2, 16), vec![]], "accepted:16:17"));
    v.push(plan("v2_root_signers_17", V2, vec![goods(2, 17), vec![]], "rejected_TooManySignatures_root_tx"));
    v.push(plan("v2_first_subintent_signers_16", V2, vec![vec![], goods(2, 16), vec![]], "accepted:0:17"));
    v.push(plan("v2_first_subintent_signers_17", V2, vec![vec![], goods(2, 17), vec![]], "rejected_TooManySignatures_non_root0"));
    v.push(plan("v2_last_subintent_signers_17", V2, vec![vec![], vec![], goods(2, 17)], "rejected_TooManySignatures_non_root1"));
    v.push(with(plan("v2_order_root_count_before_batches", V2, vec![goods(2, 17), vec![]], "rejected_TooManySignatures_root_tx"), &|p| p.batch_delta = -1));
    v.push(with(plan("v2_order_batches_before_subintent_count", V2, vec![vec![], goods(2, 17)], "rejected_IncorrectNumberOfSubintentSignatureBatches_across"), &|p| p.batch_delta = 1));
    v.push(plan("v2_total_63", V2, vec![goods(2, 16), goods(2, 16), goods(2, 16), goods(2, 14)], "accepted:16:63"));
    v.push(plan("v2_total_64", V2, vec![goods(2, 16), goods(2, 16), goods(2, 16), goods(2, 15)], "accepted:16:64"));
    v.push(plan("v2_total_65", V2, vec![goods(2, 16), goods(2, 16), goods(2, 16), goods(2, 16)], "rejected_TooManySignatures_across"));
    v.push(plan("v2_order_total_before_invalid", V2, vec![goods(2, 16), goods(2, 16), goods(2, 16), { let mut l = goods(2, 15); l.push(WrongDeclared(21)); l }], "rejected_TooManySignatures_across"));
    v.push(with(plan("v2_total_small_at", V2, vec![vec![Good(3)], vec![Good(5)]], "accepted:1:3"), &|p| p.total = Some(3)));
    v.push(with(plan("v2_total_small_over", V2, vec![vec![Good(3)], vec![Good(5), Good(6)]], "rejected_TooManySignatures_across"), &|p| p.total = Some(3)));
    // ---------------- V2 signed partial ----------------
    v.push(plan("partial_clean", Partial, vec![vec![Good(3), Good(4)], vec![Good(5)]], "accepted:2:3"));
    v.push(plan("partial_no_signers", Partial, vec![vec![]], "accepted:0:0"));
    v.push(plan("partial_invalid_root", Partial, vec![vec![Good(4), WrongDeclared(3)], vec![]], "rejected_InvalidIntentSignature_root_subintent"));
    v.push(plan("partial_duplicate_root", Partial, vec![vec![Good(4), Dup(0)]], "rejected_DuplicateSigner_root_subintent"));
    v.push(plan("partial_invalid_subintent", Partial, vec![vec![Good(4)], vec![Good(6)], vec![Corrupt(5, 3)]], "rejected_InvalidIntentSignature_non_root1"));
    v.push(plan("partial_root_signers_16", Partial, vec![goods(2, 16)], "accepted:16:16"));
    v.push(plan("partial_root_signers_17", Partial, vec![goods(2, 17)], "rejected_TooManySignatures_root_subintent"));
    v.push(plan("partial_total_64_no_notary", Partial, vec![goods(2, 16), goods(2, 16), goods(2, 16), goods(2, 16)], "accepted:16:64"));
    v.push(plan("partial_total_65", Partial, vec![goods(2, 16), goods(2, 16), goods(2, 16), goods(2, 16), goods(2, 1)], "rejected_TooManySignatures_across"));
    v.push(with(plan("partial_batches_one_missing", Partial, vec![vec![Good(3)], vec![Good(5)]], "rejected_IncorrectNumberOfSubintentSignatureBatches_across"), &|p| p.batch_delta = -1));
    v.push(with(plan("partial_total_small_at_no_notary", Partial, vec![vec![Good(3)], vec![Good(5), Good(6)]], "accepted:1:3"), &|p| p.total = Some(3)));
    // ---------------- V2 preview (public keys only) ----------------
    v.push(plan("preview_clean", Preview, vec![vec![Good(3), Good(4)], vec![Good(5)]], "accepted:2:4"));
    v.push(plan("preview_duplicate_root_key", Preview, vec![vec![Good(3), Good(4), Dup(0)], vec![]], "rejected_DuplicateSigner_root_tx"));
    v.push(plan("preview_duplicate_subintent_key", Preview, vec![vec![Good(3)], vec![], vec![Good(5), Dup(0)]], "rejected_DuplicateSigner_non_root1"));
    v.push(with(plan("preview_notary_signatory_appended", Preview, vec![vec![Good(3)]], "accepted:2:2"), &|p| p.nis = true));
    v.push(with(plan("preview_notary_signatory_also_listed", Preview, vec![vec![Good(3), Good(1)]], "rejected_NotaryIsSignatorySoShouldNotAlsoBeASigner_root_tx"), &|p| p.nis = true));
    v.push(plan("preview_non_signatory_notary_listed", Preview, vec![vec![Good(3), Good(1)]], "accepted:2:3"));
    v.push(plan("preview_root_keys_16", Preview, vec![goods(2, 16)], "accepted:16:17"));
    v.push(plan("preview_root_keys_17", Preview, vec![goods(2, 17)], "rejected_TooManySignatures_root_tx"));
    v.push(plan("preview_subintent_keys_17", Preview, vec![vec![], goods(2, 17)], "rejected_TooManySignatures_non_root0"));
    v.push(plan("preview_total_64", Preview, vec![goods(2, 16), goods(2, 16), goods(2, 16), goods(2, 15)], "accepted:16:64"));
    v.push(plan("preview_total_65", Preview, vec![goods(2, 16), goods(2, 16), goods(2, 16), goods(2, 16)], "rejected_TooManySignatures_across"));
    v.push(with(plan("preview_batches_one_extra", Preview, vec![vec![Good(3)], vec![Good(5)]], "rejected_IncorrectNumberOfSubintentSignatureBatches_across"), &|p| p.batch_delta = 1));
    v
}

// ------------------------------------------------------------------------------------------------
// index tables + Coq printing
// ------------------------------------------------------------------------------------------------
#[derive(Default)]
struct Tables {
    hashes: Vec<Hash>,
    keys: Vec<PublicKey>,
    sigwks: Vec<SigWk>,
    sigs: Vec<SignatureV1>,
}
fn idx<T: PartialEq + Clone>(v: &mut Vec<T>, x: &T) -> usize {
    if let Some(i) = v.iter().position(|y| y == x) {
        i
    } else {
        v.push(x.clone());
        v.len() - 1
    }
}
impl Tables {
    fn h(&mut self, x: &Hash) -> usize {
        idx(&mut self.hashes, x)
    }
    fn k(&mut self, x: &PublicKey) -> usize {
        idx(&mut self.keys, x)
    }
    fn w(&mut self, x: &SigWk) -> usize {
        idx(&mut self.sigwks, x)
    }
    fn s(&mut self, x: &SignatureV1) -> usize {
        idx(&mut self.sigs, x)
    }
}
fn nlist(v: impl IntoIterator<Item = usize>) -> String {
    coq_list(v.into_iter().map(|x| x.to_string()))
}

fn low_recover(h: &Hash, s: &SigWk) -> Option<PublicKey> {
    match s {
        SigWk::Secp256k1 { signature } => verify_and_recover_secp256k1(h, signature).map(PublicKey::Secp256k1),
        SigWk::Ed25519 { public_key, signature } => {
            if verify_ed25519(h, public_key, signature) {
                Some(PublicKey::Ed25519(*public_key))
            } else {
                None
            }
        }
    }
}
fn low_verify(h: &Hash, k: &PublicKey, s: &SignatureV1) -> bool {
    match (k, s) {
        (PublicKey::Secp256k1(k), SignatureV1::Secp256k1(s)) => verify_secp256k1(h, k, s),
        (PublicKey::Ed25519(k), SignatureV1::Ed25519(s)) => verify_ed25519(h, k, s),
        _ => false,
    }
}

struct CaseOut {
    term: String,
    canon: String,
    oracle: Vec<String>,
    nsigs: usize,
}

fn has_dup(ks: &[PublicKey]) -> bool {
    for i in 0..ks.len() {
        for j in 0..i {
            if ks[i] == ks[j] {
                return true;
            }
        }
    }
    false
}

/// Prints the Coq case and evaluates the declarative oracle.
fn finish(x: &Extracted, obs: &Obs, cfg: &TransactionValidationConfig, p: &Pool, truth: &Truth, report: &mut Report) -> CaseOut {
    let mut t = Tables::default();
    let mut fails: Vec<String> = vec![];
    let per = cfg.max_signer_signatures_per_intent;
    let tot = cfg.max_total_signature_validations;
    let allow = if x.v2 { false } else { cfg.v1_transactions_allow_notary_to_duplicate_signer };

    // ---- primitives on every pair, with ground truth + low-level agreement
    let mut rec_tbl: Vec<(usize, usize, Option<usize>)> = vec![];
    let mut recover = |t: &mut Tables, fails: &mut Vec<String>, report: &mut Report, h: &Hash, s: &SigWk| -> Option<PublicKey> {
        let r = verify_and_recover(h, s);
        let low = low_recover(h, s);
        if r != low {
            fails.push("verify_and_recover disagrees with radix_common::crypto primitives".into());
        }
        let genuine = truth.intent.iter().find(|(s2, _, h2)| s2 == s && h2 == h).map(|(_, k, _)| *k);
        match (genuine, s) {
            (Some(k), _) => {
                if r != Some(p.pubs[k]) {
                    fails.push(format!("genuine signature by pool key {} does not recover that key", k));
                }
            }
            (None, SigWk::Ed25519 { .. }) => {
                if r.is_some() {
                    fails.push("non-genuine ed25519 (hash, key, signature) triple verified".into());
                }
            }
            (None, SigWk::Secp256k1 { signature }) => {
                if let Some(PublicKey::Secp256k1(k)) = &r {
                    report.count("secp256k1_nongenuine_pair_recovers_some_key");
                    if p.pubs.contains(&PublicKey::Secp256k1(*k)) {
                        // a signature not made by a pool key over this hash must not recover a pool key,
                        // unless it is the (r, s) of a genuine one with the matching recovery id
                        let same_rs = truth.intent.iter().any(|(s2, _, h2)| h2 == h && matches!(s2, SigWk::Secp256k1{signature: g} if g.0[1..] == signature.0[1..]));
                        if !same_rs {
                            fails.push("non-genuine secp256k1 signature recovered a pool key".into());
                        }
                    }
                    if !verify_secp256k1(h, k, signature) {
                        report.count("secp256k1_recovered_but_plain_verify_false");
                    }
                }
            }
        }
        let (hi, si) = (t.h(h), t.w(s));
        let ki = r.as_ref().map(|k| t.k(k));
        if !rec_tbl.iter().any(|e| e.0 == hi && e.1 == si) {
            rec_tbl.push((hi, si, ki));
        }
        r
    };

    // ---- root
    let root_hash_idx = t.h(&x.root_hash);
    let mut intents: Vec<(Loc, Vec<Option<PublicKey>>, usize)> = vec![]; // (location, per-signature key, count)
    let root_loc = if x.root_is_tx { Loc::RootTx(x.root_hash) } else { Loc::RootSub(x.root_hash) };
    let mut notary: Option<(bool, PublicKey, bool)> = None; // (nis, npk, verified (true for preview))
    let mut ver_tbl: Vec<(usize, usize, usize, bool)> = vec![];
    let root_term = match &x.root {
        RootX::Tx { nis, npk, nsig, nh, sigs, sh } => {
            let recs: Vec<Option<PublicKey>> = sigs.iter().map(|s| recover(&mut t, &mut fails, report, sh, s)).collect();
            let v = verify(nh, npk, nsig);
            if v != low_verify(nh, npk, nsig) {
                fails.push("verify disagrees with radix_common::crypto primitives".into());
            }
            // ground truth for the notary signature
            let genuine = truth.notary.iter().any(|(s2, k, h2)| s2 == nsig && h2 == nh && p.pubs[*k] == *npk);
            let recid_variant = match nsig {
                SignatureV1::Secp256k1(sg) => sg.0[0] < 4 && truth.notary.iter().any(|(s2, k, h2)| h2 == nh && p.pubs[*k] == *npk && matches!(s2, SignatureV1::Secp256k1(g) if g.0[1..] == sg.0[1..])),
                _ => false,
            };
            if genuine && !v {
                fails.push("genuine notary signature does not verify".into());
            }
            if !genuine && v {
                if recid_variant {
                    report.count("notary_secp256k1_recovery_id_changed_still_verifies");
                } else {
                    fails.push("non-genuine notary signature verified".into());
                }
            }
            let (nhi, npki, nsi) = (t.h(nh), t.k(npk), t.s(nsig));
            ver_tbl.push((nhi, npki, nsi, v));
            notary = Some((*nis, *npk, v));
            intents.push((root_loc.clone(), recs, sigs.len()));
            format!("(TransactionIntent {} {} {} {} {} {})", coq_bool(*nis), npki, nsi, nhi, nlist(sigs.iter().map(|s| t.w(s)).collect::<Vec<_>>()), t.h(sh))
        }
        RootX::PreviewTx { nis, npk, keys } => {
            notary = Some((*nis, *npk, true));
            intents.push((root_loc.clone(), keys.iter().map(|k| Some(*k)).collect(), keys.len()));
            format!("(PreviewTransactionIntent {} {} {})", coq_bool(*nis), t.k(npk), nlist(keys.iter().map(|k| t.k(k)).collect::<Vec<_>>()))
        }
        RootX::Sub { sigs, sh } => {
            let recs: Vec<Option<PublicKey>> = sigs.iter().map(|s| recover(&mut t, &mut fails, report, sh, s)).collect();
            intents.push((root_loc.clone(), recs, sigs.len()));
            format!("(Subintent {} {})", nlist(sigs.iter().map(|s| t.w(s)).collect::<Vec<_>>()), t.h(sh))
        }
    };
    // ---- non-roots (pairs that exist on both sides)
    let sub_idx: Vec<usize> = x.subs.iter().map(|h| t.h(h)).collect();
    let mut batch_terms = vec![];
    for (i, b) in x.batches.iter().enumerate() {
        match b {
            BatchX::Sigs(sigs) => {
                if let Some(h) = x.subs.get(i) {
                    let recs: Vec<Option<PublicKey>> = sigs.iter().map(|s| recover(&mut t, &mut fails, report, h, s)).collect();
                    intents.push((Loc::NonRoot(i, *h), recs, sigs.len()));
                }
                batch_terms.push(format!("BatchSignatures {}", nlist(sigs.iter().map(|s| t.w(s)).collect::<Vec<_>>())));
            }
            BatchX::Keys(keys) => {
                if let Some(h) = x.subs.get(i) {
                    intents.push((Loc::NonRoot(i, *h), keys.iter().map(|k| Some(*k)).collect(), keys.len()));
                }
                batch_terms.push(format!("BatchPublicKeys {}", nlist(keys.iter().map(|k| t.k(k)).collect::<Vec<_>>())));
            }
        }
    }
    let nsigs: usize = intents.iter().map(|i| i.2).sum();

    // ---- declarative facts
    let batches_ok = x.subs.len() == x.batches.len();
    let notary_count = if matches!(x.root, RootX::Sub { .. }) { 0 } else { 1 };
    let total: usize = nsigs + notary_count;
    let expected_keys = |i: usize| -> Option<Vec<PublicKey>> {
        // recovered keys in order (+ notary iff signatory and not present) for intent i; None if not all valid
        let mut ks: Vec<PublicKey> = vec![];
        for r in intents[i].1.iter() {
            ks.push((*r)?);
        }
        if i == 0 {
            if let Some((nis, npk, _)) = &notary {
                if *nis && !ks.contains(npk) {
                    ks.push(*npk);
                }
            }
        }
        Some(ks)
    };
    let fact = |l: &Loc, e: &SErr| -> bool {
        let at = intents.iter().position(|i| &i.0 == l);
        match e {
            SErr::TooMany(tt, lim) => match l {
                Loc::Across => *tt == total && *lim == tot && total > tot && batches_ok,
                _ => at.map_or(false, |i| intents[i].2 == *tt && *lim == per && *tt > per),
            },
            SErr::Batches => *l == Loc::Across && !batches_ok,
            SErr::InvalidIntent => at.map_or(false, |i| intents[i].1.iter().any(|r| r.is_none())),
            SErr::Duplicate => at.map_or(false, |i| has_dup(&intents[i].1.iter().flatten().cloned().collect::<Vec<_>>())),
            SErr::InvalidNotary => at == Some(0) && matches!(notary, Some((_, _, false))),
            SErr::NotaryDup => {
                at == Some(0)
                    && !allow
                    && match &notary {
                        Some((true, npk, _)) => intents[0].1.iter().flatten().any(|k| k == npk),
                        _ => false,
                    }
            }
        }
    };
    match obs {
        Obs::Accepted { root, non_root, total: got_total } => {
            if !batches_ok {
                fails.push("accepted with a wrong number of subintent signature batches".into());
            }
            if *got_total != total {
                fails.push(format!("accepted: total_signature_validations {} != {}", got_total, total));
            }
            if total > tot {
                fails.push("accepted above max_total_signature_validations".into());
            }
            for (i, it) in intents.iter().enumerate() {
                if it.2 > per {
                    fails.push("accepted above max_signer_signatures_per_intent".into());
                }
                if it.1.iter().any(|r| r.is_none()) {
                    fails.push(format!("accepted although a signature of intent {} does not verify over its hash", i));
                }
                let got: Option<&Vec<PublicKey>> = if i == 0 { Some(root) } else if x.entry_v1 { None } else { non_root.get(i - 1) };
                if let Some(got) = got {
                    if has_dup(got) {
                        fails.push(format!("accepted: duplicate key in signer set of intent {}", i));
                    }
                    if expected_keys(i).as_ref() != Some(got) {
                        fails.push(format!("accepted: signer set of intent {} is not the recovered keys (+notary)", i));
                    }
                }
                if has_dup(&it.1.iter().flatten().cloned().collect::<Vec<_>>()) {
                    fails.push(format!("accepted although two signatures of intent {} come from the same key", i));
                }
            }
            if !x.entry_v1 && non_root.len() != x.subs.len() {
                fails.push("accepted: number of non-root signer sets differs from number of subintents".into());
            }
            if let Some((nis, npk, v)) = &notary {
                if !*v {
                    fails.push("accepted although the notary signature does not verify over the signed-intent hash".into());
                }
                if *nis && !allow && intents[0].1.iter().flatten().any(|k| k == npk) {
                    fails.push("accepted although the signatory notary also signed and duplication is not allowed".into());
                }
            }
        }
        Obs::Rejected(l, e) => {
            if !fact(l, e) {
                fails.push(format!("rejected with {:?} at {:?} but that reason does not hold", e, std::mem::discriminant(l)));
            }
        }
        Obs::Other { .. } => {}
        Obs::Panic(m) => fails.push(format!("panic: {}", m)),
    }

    // ---- printing
    let loc_term = |t: &mut Tables, l: &Loc| match l {
        Loc::RootTx(h) => format!("(RootTransactionIntent {})", t.h(h)),
        Loc::RootSub(h) => format!("(RootSubintent {})", t.h(h)),
        Loc::NonRoot(i, h) => format!("(NonRootSubintent {} {})", i, t.h(h)),
        Loc::Across => "AcrossTransaction".to_string(),
    };
    let obs_term = match obs {
        Obs::Accepted { root, non_root, total } => format!(
            "(ObsAccepted {} {} {})",
            nlist(root.iter().map(|k| t.k(k)).collect::<Vec<_>>()),
            coq_list(non_root.iter().map(|ks| nlist(ks.iter().map(|k| t.k(k)).collect::<Vec<_>>()))),
            total
        ),
        Obs::Rejected(l, e) => {
            let et = match e {
                SErr::TooMany(a, b) => format!("(TooManySignatures {} {})", a, b),
                SErr::InvalidIntent => "InvalidIntentSignature".into(),
                SErr::InvalidNotary => "InvalidNotarySignature".into(),
                SErr::Duplicate => "DuplicateSigner".into(),
                SErr::NotaryDup => "NotaryIsSignatorySoShouldNotAlsoBeASigner".into(),
                SErr::Batches => "IncorrectNumberOfSubintentSignatureBatches".into(),
            };
            format!("(ObsRejected {} {})", loc_term(&mut t, l), et)
        }
        Obs::Other { prepared, .. } => format!("(ObsOther {})", coq_bool(*prepared)),
        Obs::Panic(_) => "(ObsOther false)".to_string(),
    };
    let head = format!(
        "(mkConfig {} {} {}) {} {} ({} {}) {} {} {}",
        per,
        tot,
        coq_bool(cfg.v1_transactions_allow_notary_to_duplicate_signer),
        if x.v2 { "V2" } else { "V1" },
        if x.entry_v1 { "EntryV1" } else { "EntryTree" },
        if x.root_is_tx { "IHTransaction" } else { "IHSubintent" },
        root_hash_idx,
        root_term,
        nlist(sub_idx),
        coq_list(batch_terms)
    );
    let rec_term = coq_list(rec_tbl.iter().map(|(h, s, k)| format!("({},{},{})", h, s, coq_option(k.map(|k| k.to_string())))));
    let ver_term = coq_list(ver_tbl.iter().map(|(h, k, s, b)| format!("({},{},{},{})", h, k, s, coq_bool(*b))));
    let term = format!("mkCase {} {} {} {}", head, rec_term, ver_term, obs_term);
    let canon = format!("{} {} {} {}", head, rec_term, ver_term, obs_term);
    CaseOut { term, canon, oracle: fails, nsigs }
}

fn obs_key(o: &Obs) -> String {
    match o {
        Obs::Accepted { .. } => "accepted".into(),
        Obs::Rejected(l, e) => format!(
            "rejected_{}_{}",
            match e {
                SErr::TooMany(..) => "TooManySignatures",
                SErr::InvalidIntent => "InvalidIntentSignature",
                SErr::InvalidNotary => "InvalidNotarySignature",
                SErr::Duplicate => "DuplicateSigner",
                SErr::NotaryDup => "NotaryIsSignatorySoShouldNotAlsoBeASigner",
                SErr::Batches => "IncorrectNumberOfSubintentSignatureBatches",
            },
            match l {
                Loc::RootTx(_) => "root_tx",
                Loc::RootSub(_) => "root_subintent",
                Loc::NonRoot(..) => "non_root",
                Loc::Across => "across",
            }
        ),
        Obs::Other { prepared, what } => format!("other_{}_{}", if *prepared { "validate" } else { "prepare" }, what),
        Obs::Panic(_) => "panic".into(),
    }
}

fn main() {
    let args = Args::parse();
    let mut report = Report::new(
        "C33",
        args.seed,
        "real V1/V2/partial/preview transactions with perturbed signature lists, validated by the real TransactionValidator; \
         non-trivial = reached the signature validator with at least 2 signer signatures/keys; distinct by canonical case text (indices, not bytes)",
    );
    let mut cw = CaseWriter::new("RV.Corr.C33_run RV.Model.C33_SigValidate", "check");
    let root = Rng::new(args.seed);
    let p = pool();
    // the preview encoder must produce the same bytes as the crate's own encoder
    {
        let mut rng = root.fork(u64::MAX);
        let intent = build_tx_intent(&mut rng, &flat_shape(1), p.pubs[0], false);
        let keys = vec![p.pubs[1], p.pubs[2]];
        let nr = vec![vec![p.pubs[3]]];
        let official = PreviewTransactionV2 {
            transaction_intent: intent.clone(),
            root_signer_public_keys: keys.iter().cloned().collect(),
            non_root_subintent_signer_public_keys: nr.clone(),
        }
        .to_raw()
        .unwrap()
        .to_vec();
        assert_eq!(official, encode_preview(&intent, &keys, &nr), "preview encoder mismatch");
    }
    let babylon = TransactionValidationConfig::babylon();
    let latest = TransactionValidationConfig::latest();
    report.extra.insert(
        "configs_read_from_code".into(),
        json!({
            "babylon": {"per_intent": babylon.max_signer_signatures_per_intent, "total": babylon.max_total_signature_validations as u64, "v1_dup": babylon.v1_transactions_allow_notary_to_duplicate_signer},
            "latest": {"per_intent": latest.max_signer_signatures_per_intent, "total": latest.max_total_signature_validations as u64, "v1_dup": latest.v1_transactions_allow_notary_to_duplicate_signer},
        }),
    );

    let family = boundary_family();
    for pl in family.iter() {
        report.floor(&format!("b_{}", pl.class), 1);
    }
    for i in 0..args.cases {
        let mut rng = root.fork(i as u64);
        let mut truth = Truth::default();
        let stream = if i < family.len() { 1000 } else { rng.below(100) };
        // ---- choose kind, shape, counts, config
        let (kind, shape, counts, cfg, dirty, bytemut): (Kind, Shape, Vec<usize>, TransactionValidationConfig, bool, bool) = if stream == 1000 {
            let pl = &family[i];
            (pl.kind, flat_shape(pl.lists.len() - 1), vec![], plan_config(pl), false, false)
        } else if stream < 84 {
            let kind = match rng.below(100) {
                0..=34 => Kind::V1,
                35..=69 => Kind::V2,
                70..=84 => Kind::Partial,
                _ => Kind::Preview,
            };
            let shape = if kind == Kind::V1 { flat_shape(0) } else { gen_shape(&mut rng, 0) };
            let n = 1 + shape_size(&shape);
            let counts: Vec<usize> = (0..n).map(|j| if j == 0 { rng.below(5) as usize } else { rng.below(4) as usize }).collect();
            let (cfg, _) = gen_config(&mut rng, &mut report, kind, true);
            let bytemut = stream >= 76 && kind != Kind::Preview;
            (kind, shape, counts, cfg, !bytemut, bytemut)
        } else {
            // limits stream (real configs only, clean signatures so that only the limit decides)
            let lim_per = latest.max_signer_signatures_per_intent;
            let lim_tot = latest.max_total_signature_validations;
            match rng.below(4) {
                0 => {
                    report.count("stream_limit_per_intent_v1");
                    let (cfg, _) = gen_config(&mut rng, &mut report, Kind::V1, false);
                    let c = lim_per - 1 + rng.below(4) as usize;
                    (Kind::V1, flat_shape(0), vec![c], cfg, false, false)
                }
                1 => {
                    report.count("stream_limit_per_intent_v2");
                    let kind = *rng.pick(&[Kind::V2, Kind::Partial, Kind::Preview]);
                    let nchild = 1 + rng.below(2) as usize;
                    let mut counts = vec![rng.below(3) as usize; 1 + nchild];
                    let who = rng.usize_below(1 + nchild);
                    counts[who] = lim_per - 1 + rng.below(3) as usize;
                    if rng.chance(1, 4) {
                        let who2 = rng.usize_below(1 + nchild);
                        counts[who2] = lim_per + 1;
                    }
                    (kind, flat_shape(nchild), counts, latest, false, false)
                }
                _ => {
                    report.count("stream_limit_total_v2");
                    let kind = *rng.pick(&[Kind::V2, Kind::V2, Kind::Partial, Kind::Preview]);
                    let notary = if kind == Kind::Partial { 0 } else { 1 };
                    let target = lim_tot - 1 + rng.below(4) as usize; // 63..66
                    let mut remaining = target - notary;
                    let mut counts = vec![];
                    while remaining > 0 {
                        let c = remaining.min(lim_per - rng.below(3) as usize).min(remaining);
                        counts.push(c);
                        remaining -= c;
                    }
                    rng.shuffle(&mut counts);
                    let nchild = counts.len() - 1;
                    (kind, flat_shape(nchild), counts, latest, false, false)
                }
            }
        };
        report.count(&format!("kind_{:?}", kind));
        let validator = TransactionValidator::new_with_static_config(cfg, net());
        let built = if i < family.len() {
            report.count(&format!("b_{}", family[i].class));
            assemble_plan(&p, &mut truth, &family[i], i)
        } else {
            assemble(&mut rng, &p, &mut truth, &mut report, kind, &shape, &counts, dirty)
        };

        // ---- run
        let (mut x, mut obs) = run_kind(kind, &built.raw, &validator);
        let mut extra_fail: Option<String> = None;
        let mut tag = built.tag.clone();
        if bytemut {
            // single-byte mutation of a transaction with clean signatures
            report.count("stream_byte_mutation");
            let orig = (x.clone(), obs.clone());
            let mut raw = built.raw.clone();
            let pos = rng.usize_below(raw.len());
            raw[pos] ^= 1 << rng.below(8);
            let (x2, obs2) = run_kind(kind, &raw, &validator);
            tag.push_str("bytemut;");
            match (&orig.1, &obs2) {
                (Obs::Accepted { root: r1, non_root: n1, .. }, Obs::Accepted { root: r2, non_root: n2, .. }) => {
                    report.count("byte_mutation_still_accepted");
                    let (a, b) = (orig.0.as_ref().unwrap(), x2.as_ref().unwrap());
                    if a.root_hash != b.root_hash || a.subs != b.subs || r1 != r2 || n1 != n2 {
                        if kind == Kind::Partial {
                            // a signed partial transaction has no notary signature covering the
                            // signature lists, and a secp256k1 signature recovers *some* key over any
                            // hash: by design it is only a building block (the property speaks about
                            // complete signed = notarized transactions)
                            report.count("partial_transaction_byte_mutation_accepted_with_other_hash_or_signers");
                        } else {
                            extra_fail = Some(format!("byte mutation at {} accepted with changed content or signer set", pos));
                        }
                    }
                }
                (Obs::Accepted { .. }, _) => report.count("byte_mutation_of_valid_rejected"),
                _ => report.count("byte_mutation_of_already_invalid"),
            }
            x = x2;
            obs = obs2;
        }

        report.count(&obs_key(&obs));
        if i < family.len() && obs_tag(&obs) != family[i].expect {
            extra_fail = Some(format!("boundary case {}: expected [{}] got [{}]", family[i].class, family[i].expect, obs_tag(&obs)));
        }
        match &obs {
            Obs::Accepted { .. } | Obs::Rejected(..) => report.count("reached_signature_validator"),
            _ => report.count("not_reached_signature_validator"),
        }
        let input = json!({"kind": format!("{:?}", kind), "tag": tag, "raw_hex": hex(&built.raw), "config": {"per_intent": cfg.max_signer_signatures_per_intent, "total": cfg.max_total_signature_validations as u64, "v1_dup": cfg.v1_transactions_allow_notary_to_duplicate_signer}});
        match x {
            Some(x) => {
                let out = finish(&x, &obs, &cfg, &p, &truth, &mut report);
                let reached = matches!(obs, Obs::Accepted { .. } | Obs::Rejected(..));
                report.case(&out.canon, reached && out.nsigs >= 2);
                report.count_n("signer_signatures_total", out.nsigs as u64);
                for f in out.oracle.iter() {
                    report.oracle_failure(i, "", f, input.clone());
                }
                if i < 3 {
                    report.sample(json!({"kind": format!("{:?}", kind), "tag": tag, "case": out.term}));
                }
                cw.push(out.term);
            }
            None => {
                // prepare failed (or panic): nothing to evaluate in the model
                report.case(&format!("unprepared {:?}", kind), false);
                if let Obs::Panic(m) = &obs {
                    report.oracle_failure(i, "", &format!("panic: {}", m), input.clone());
                }
                cw.push("mkCase (mkConfig 0 0 false) V1 EntryV1 (IHTransaction 0) (Subintent [] 0) [] [] [] [] (ObsOther false)".to_string());
            }
        }
        if let Some(f) = extra_fail {
            report.oracle_failure(i, "", &f, input.clone());
        }
    }
    let n = args.cases as u64;
    report.floor("reached_signature_validator", n * 7 / 10);
    report.floor("accepted", n / 5);
    if n >= 300 {
        for k in [
            "rejected_InvalidIntentSignature_root_tx",
            "rejected_InvalidNotarySignature_root_tx",
            "rejected_DuplicateSigner_root_tx",
            "rejected_NotaryIsSignatorySoShouldNotAlsoBeASigner_root_tx",
            "rejected_TooManySignatures_root_tx",
            "rejected_TooManySignatures_across",
            "rejected_IncorrectNumberOfSubintentSignatureBatches_across",
        ] {
            report.floor(k, 1);
        }
    }
    cw.write(&args.out, args.shards).unwrap();
    report.write(&args.out).unwrap();
}
