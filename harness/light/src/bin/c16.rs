//! C16 correspondence harness: SpreadPrefixKeyMapper (radix-substate-store-interface/src/db_key_mapper.rs).
//! For every case the real mapper is run (under `catch`), the result is written as a Coq `case`
//! (model: coq/Model/C16_KeyMapper.v, evaluator: coq/Corr/C16_run.v) and the direct oracle checks
//! the property's own statement on the implementation: round trip, no two distinct logical keys on
//! one db key (over the whole run), sorted keys ordered first by the 2-byte prefix, and the hash
//! prefix being hash(plain)[..20] (recomputed with radix_common::crypto::hash).
use radix_common::crypto::hash;
use radix_common::prelude::*;
use radix_substate_store_interface::db_key_mapper::*;
use radix_substate_store_interface::interface::*;
use serde_json::json;
use std::collections::BTreeMap;
use vh_common::*;

type M = SpreadPrefixKeyMapper;

#[derive(Clone, Debug, PartialEq, Eq, PartialOrd, Ord)]
enum LKey {
    Node(Vec<u8>),
    Part(u8),
    Field(u8),
    Map(Vec<u8>),
    Sorted([u8; 2], Vec<u8>),
}

fn lkey_coq(k: &LKey) -> String {
    match k {
        LKey::Node(n) => format!("(LNode {})", coq_bytes(n)),
        LKey::Part(p) => format!("(LPart {})", p),
        LKey::Field(f) => format!("(LKey (KField {}))", f),
        LKey::Map(k) => format!("(LKey (KMap {}))", coq_bytes(k)),
        LKey::Sorted(p, k) => format!("(LKey (KSorted {} {}))", coq_bytes(p), coq_bytes(k)),
    }
}
fn lkey_json(k: &LKey) -> serde_json::Value {
    match k {
        LKey::Node(n) => json!({"node": hex(n)}),
        LKey::Part(p) => json!({"partition": p}),
        LKey::Field(f) => json!({"field": f}),
        LKey::Map(k) => json!({"map": hex(k)}),
        LKey::Sorted(p, k) => json!({"sorted_prefix": hex(p), "sorted_key": hex(k)}),
    }
}
fn which_of(k: &LKey) -> u8 {
    match k {
        LKey::Node(_) | LKey::Part(_) => 0,
        LKey::Field(_) => 1,
        LKey::Map(_) => 2,
        LKey::Sorted(..) => 3,
    }
}

/// the bytes the mapper is expected to hash for this key (None: no hashing)
fn hashed_bytes(k: &LKey) -> Option<&[u8]> {
    match k {
        LKey::Node(n) => Some(n),
        LKey::Map(k) => Some(k),
        LKey::Sorted(_, k) => Some(k),
        _ => None,
    }
}

fn to_db(k: &LKey) -> Result<Vec<u8>, String> {
    let k = k.clone();
    catch(move || match k {
        LKey::Node(n) => M::to_db_node_key(&NodeId(n.try_into().unwrap())),
        LKey::Part(p) => vec![M::to_db_partition_num(PartitionNumber(p))],
        LKey::Field(f) => M::to_db_sort_key(&SubstateKey::Field(f)).0,
        LKey::Map(k) => M::to_db_sort_key(&SubstateKey::Map(k)).0,
        LKey::Sorted(p, k) => M::to_db_sort_key(&SubstateKey::Sorted((p, k))).0,
    })
}
/// the same sort key through to_db_sort_key_from_ref (SubstateKeyRef)
fn to_db_from_ref(k: &LKey) -> Option<Result<Vec<u8>, String>> {
    let k = k.clone();
    match k {
        LKey::Field(f) => Some(catch(move || M::to_db_sort_key_from_ref(SubstateKeyRef::Field(&f)).0)),
        LKey::Map(m) => Some(catch(move || M::to_db_sort_key_from_ref(SubstateKeyRef::Map(&m)).0)),
        LKey::Sorted(p, m) => Some(catch(move || M::to_db_sort_key_from_ref(SubstateKeyRef::Sorted(&(p, m))).0)),
        _ => None,
    }
}
fn from_db(which: u8, part: bool, db: &[u8]) -> Result<LKey, String> {
    let db = db.to_vec();
    catch(move || {
        if part {
            return LKey::Part(M::from_db_partition_num(db[0]).0);
        }
        match which {
            0 => LKey::Node(M::from_db_node_key(&db).0.to_vec()),
            1 => match M::from_db_sort_key::<FieldKey>(&DbSortKey(db)) {
                SubstateKey::Field(f) => LKey::Field(f),
                _ => unreachable!(),
            },
            2 => match M::from_db_sort_key::<MapKey>(&DbSortKey(db)) {
                SubstateKey::Map(k) => LKey::Map(k),
                _ => unreachable!(),
            },
            _ => match M::from_db_sort_key::<SortedKey>(&DbSortKey(db)) {
                SubstateKey::Sorted((p, k)) => LKey::Sorted(p, k),
                _ => unreachable!(),
            },
        }
    })
}

fn gen_bytes(rng: &mut Rng, max: usize) -> Vec<u8> {
    let len = match rng.below(10) {
        0 => 0,
        1 => 1,
        2 => rng.range(18, 23) as usize,
        3 => max,
        _ => rng.range(0, max as u64) as usize,
    };
    let len = len.min(max);
    match rng.below(6) {
        0 => vec![0u8; len],
        1 => vec![0xffu8; len],
        2 => (0..len).map(|_| if rng.bool() { 0xff } else { 0 }).collect(),
        _ => rng.bytes(len),
    }
}
fn gen_prefix(rng: &mut Rng) -> [u8; 2] {
    match rng.below(8) {
        0 => [0, 0],
        1 => [0xff, 0xff],
        2 => [0, 0xff],
        3 => [1, 0],
        _ => [rng.next_u64() as u8, rng.next_u64() as u8],
    }
}
fn gen_key(rng: &mut Rng) -> LKey {
    match rng.below(10) {
        0 | 1 => {
            let mut n = rng.bytes(30);
            match rng.below(6) {
                0 => n = vec![0u8; 30],
                1 => n = vec![0xff; 30],
                _ => {}
            }
            LKey::Node(n)
        }
        2 => LKey::Part(match rng.below(4) { 0 => 0, 1 => 255, _ => rng.next_u64() as u8 }),
        3 => LKey::Field(match rng.below(4) { 0 => 0, 1 => 255, _ => rng.next_u64() as u8 }),
        4 | 5 | 6 => LKey::Map(gen_bytes(rng, 80)),
        _ => LKey::Sorted(gen_prefix(rng), gen_bytes(rng, 80)),
    }
}

fn ord_coq(o: std::cmp::Ordering) -> &'static str {
    match o {
        std::cmp::Ordering::Less => "Lt",
        std::cmp::Ordering::Equal => "Eq",
        std::cmp::Ordering::Greater => "Gt",
    }
}

#[derive(Clone, Debug)]
enum Spec {
    Round(LKey),
    From(u8, Vec<u8>),
    Order([u8; 2], Vec<u8>, [u8; 2], Vec<u8>),
    /// to_db_partition_key / from_db_partition_key called directly (the provided trait methods)
    PartKey(Vec<u8>, u8),
}

/// Deterministic boundary family (identical for every seed): every slice/length comparison of the
/// mapper at -1/0/+1, empty/single/maximal keys, extreme bytes, and the prefix-order shapes.
fn boundary_family() -> Vec<(Spec, String)> {
    let mut v: Vec<(Spec, String)> = Vec::new();
    let c = |s: &str| s.to_string();
    // --- round trips ---
    for n in [vec![0u8; 30], vec![0xff; 30], (0..30u8).collect::<Vec<_>>(), { let mut x = vec![0u8; 30]; x[29] = 1; x }, { let mut x = vec![0u8; 30]; x[0] = 0x80; x }] {
        v.push((Spec::Round(LKey::Node(n)), c("bf_round_node")));
    }
    for p in [0u8, 1, 127, 128, 254, 255] {
        v.push((Spec::Round(LKey::Part(p)), c("bf_round_partition")));
        v.push((Spec::Round(LKey::Field(p)), c("bf_round_field")));
    }
    for k in [vec![], vec![0u8], vec![0xff], vec![0; 19], vec![0xff; 20], vec![7; 21], vec![1; 255], vec![2; 256], vec![0xff; 1024], vec![3; 1025]] {
        v.push((Spec::Round(LKey::Map(k.clone())), c(if k.is_empty() { "bf_round_map_empty" } else { "bf_round_map" })));
        for p in [[0u8, 0], [0xff, 0xff], [0, 0xff], [0xff, 0]] {
            v.push((Spec::Round(LKey::Sorted(p, k.clone())), c(if k.is_empty() { "bf_round_sorted_empty" } else { "bf_round_sorted" })));
        }
    }
    for n in [vec![0u8; 30], vec![0xff; 30], (100..130u8).collect::<Vec<_>>()] {
        for p in [0u8, 1, 128, 255] {
            v.push((Spec::PartKey(n.clone(), p), c("bf_partition_key_roundtrip")));
        }
    }
    // --- from_* on arbitrary bytes: every length around each slice bound, for every function ---
    for which in 0u8..4 {
        for len in [0usize, 1, 2, 3, 19, 20, 21, 22, 23, 49, 50, 51, 52, 53] {
            for fill in [0u8, 0xff, 0x5a] {
                let mut db = vec![fill; len];
                if len > 1 {
                    db[len - 1] = fill ^ 0x33; // last byte differs from the first (index mix-ups show)
                }
                let class = match (which, len) {
                    (0, 50) => "bf_from_node_exact",
                    (0, 49) | (0, 51) => "bf_from_node_off_by_one",
                    (0, _) => "bf_from_node_other_len",
                    (1, 0) => "bf_from_field_empty",
                    (1, 1) => "bf_from_field_single",
                    (1, _) => "bf_from_field_with_tail",
                    (2, 19) => "bf_from_map_19",
                    (2, 20) => "bf_from_map_20_empty_key",
                    (2, l) if l < 19 => "bf_from_map_short",
                    (2, _) => "bf_from_map_longer",
                    (3, 0) | (3, 1) => "bf_from_sorted_lt2",
                    (3, 21) => "bf_from_sorted_21",
                    (3, 22) => "bf_from_sorted_22_empty_key",
                    (3, l) if l < 21 => "bf_from_sorted_2_to_20",
                    (_, _) => "bf_from_sorted_longer",
                };
                v.push((Spec::From(which, db), c(class)));
            }
        }
    }
    // --- order of sorted keys ---
    let pairs: Vec<([u8; 2], [u8; 2], &str)> = vec![
        ([0, 0], [0, 0], "bf_order_same_prefix"),
        ([0xff, 0xff], [0xff, 0xff], "bf_order_same_prefix"),
        ([0, 0], [0, 1], "bf_order_second_byte_differs"),
        ([5, 0xfe], [5, 0xff], "bf_order_second_byte_differs"),
        ([0, 0xff], [1, 0], "bf_order_carry_shape"),   // little-endian / per-byte mistakes invert this
        ([1, 0], [0, 0xff], "bf_order_carry_shape"),
        ([0x7f, 0xff], [0x80, 0], "bf_order_sign_shape"), // signed-byte comparison mistakes invert this
        ([0x80, 0], [0x7f, 0xff], "bf_order_sign_shape"),
        ([0, 0x7f], [0, 0x80], "bf_order_sign_shape"),
        ([0, 0], [0xff, 0xff], "bf_order_extremes"),
        ([0xff, 0xff], [0, 0], "bf_order_extremes"),
        ([1, 2], [2, 1], "bf_order_swapped_bytes"),
    ];
    let keys: Vec<(Vec<u8>, Vec<u8>)> = vec![
        (vec![], vec![]),
        (vec![], vec![0]),
        (vec![0xff; 40], vec![]),       // longer / larger key under the smaller prefix
        (vec![9], vec![9]),
        (vec![0xff], vec![0]),
        (vec![0], vec![0xff; 3]),
    ];
    for (p1, p2, class) in &pairs {
        for (k1, k2) in &keys {
            v.push((Spec::Order(*p1, k1.clone(), *p2, k2.clone()), c(class)));
        }
    }
    v
}

fn random_spec(rng: &mut Rng) -> Spec {
    let kind = rng.below(10);
    if kind == 0 {
        Spec::PartKey(rng.bytes(30), rng.next_u64() as u8)
    } else if kind < 6 {
        Spec::Round(gen_key(rng))
    } else if kind < 8 {
        let which = rng.below(4) as u8;
        let len = match rng.below(8) {
            0 => 0,
            1 => rng.range(19, 23),
            2 => rng.range(49, 51),
            _ => rng.range(0, 60),
        } as usize;
        Spec::From(which, rng.bytes(len))
    } else {
        let p1 = gen_prefix(rng);
        let p2 = match rng.below(5) {
            0 => p1,
            1 => (u16::from_be_bytes(p1).wrapping_add(1)).to_be_bytes(),
            2 => [p1[1], p1[0]],
            _ => gen_prefix(rng),
        };
        let k1 = gen_bytes(rng, 40);
        let k2 = if rng.chance(1, 4) { k1.clone() } else { gen_bytes(rng, 40) };
        Spec::Order(p1, k1, p2, k2)
    }
}

fn main() {
    let args = Args::parse();
    let mut report = Report::new(
        "C16",
        args.seed,
        "deterministic boundary family (every slice bound of from_* at -1/0/+1 for all four functions, empty/1/255/256/1024/1025-byte keys, extreme bytes, \
         prefix-order shapes: equal, second byte, carry, sign, extremes) followed by random node ids / partition numbers / field, map (len 0..80) and sorted keys \
         mapped with SpreadPrefixKeyMapper and back; from_* on arbitrary byte strings (len 0..60); pairs of sorted keys compared in db order; \
         non-trivial = a hashed key (node/map/sorted) round trip or an order pair with different prefixes; distinct by canonical case text",
    );
    let mut cw = CaseWriter::new("RV.Lib.Bytes RV.Model.C16_KeyMapper RV.Corr.C16_run", "check");
    let root = Rng::new(args.seed);
    // injectivity over the whole run: (which, db bytes) -> logical key
    let mut seen: BTreeMap<(u8, bool, Vec<u8>), LKey> = BTreeMap::new();
    let family = boundary_family();
    let mut class_counts: BTreeMap<String, u64> = BTreeMap::new();
    for (_, cl) in &family {
        *class_counts.entry(cl.clone()).or_insert(0) += 1;
    }
    let mut specs: Vec<(Spec, Option<String>)> = family.into_iter().map(|(s, c)| (s, Some(c))).collect();
    for j in 0..args.cases {
        let mut rng = root.fork(j as u64);
        specs.push((random_spec(&mut rng), None));
    }
    for (i, (spec, class)) in specs.into_iter().enumerate() {
        if let Some(cl) = &class {
            report.count(cl);
        }
        match spec {
        Spec::Round(k) => {
            let db = to_db(&k);
            let is_part = matches!(k, LKey::Part(_));
            let back = match &db {
                Ok(d) => Some(from_db(which_of(&k), is_part, d)),
                Err(_) => None,
            };
            // hash prefix observed = first 20 bytes of the hashed part of the db key
            let hp: Vec<u8> = match (&k, &db) {
                (LKey::Node(_), Ok(d)) | (LKey::Map(_), Ok(d)) => d.iter().take(20).cloned().collect(),
                (LKey::Sorted(..), Ok(d)) => d.iter().skip(2).take(20).cloned().collect(),
                _ => vec![0u8; 20],
            };
            // the SubstateKeyRef entry point must give the same database key (and is what the case records on odd indices)
            let db = match to_db_from_ref(&k) {
                Some(r) => {
                    report.count("sort_key_from_ref_calls");
                    if r != db {
                        report.oracle_failure(i, "", "to_db_sort_key_from_ref differs from to_db_sort_key", json!({"key": lkey_json(&k)}));
                    }
                    if i % 2 == 1 { r } else { db }
                }
                None => db,
            };
            let canon = format!("R{}", lkey_coq(&k));
            report.case(&canon, hashed_bytes(&k).is_some());
            report.count(match &k {
                LKey::Node(_) => "round_node",
                LKey::Part(_) => "round_partition",
                LKey::Field(_) => "round_field",
                LKey::Map(_) => "round_map",
                LKey::Sorted(..) => "round_sorted",
            });
            match (&db, &back) {
                (Ok(d), Some(Ok(b))) => {
                    if b != &k {
                        report.oracle_failure(i, "", "round trip returned a different key", json!({"key": lkey_json(&k), "db": hex(d), "back": lkey_json(b)}));
                    }
                    if let Some(plain) = hashed_bytes(&k) {
                        let h = hash(plain);
                        let off = if matches!(k, LKey::Sorted(..)) { 2 } else { 0 };
                        let ok = d.len() == off + 20 + plain.len() && d[off..off + 20] == h.0[..20] && &d[off + 20..] == plain;
                        if !ok {
                            report.oracle_failure(i, "", "db key is not [prefix ++] hash(plain)[..20] ++ plain", json!({"key": lkey_json(&k), "db": hex(d)}));
                        }
                    }
                    if let Some(prev) = seen.insert((which_of(&k), is_part, d.clone()), k.clone()) {
                        if prev != k {
                            report.oracle_failure(i, "", "two distinct logical keys share a db key", json!({"a": lkey_json(&prev), "b": lkey_json(&k), "db": hex(d)}));
                        }
                    }
                }
                _ => {
                    report.oracle_failure(i, "", "to_db/from_db panicked on a well-typed key", json!({"key": lkey_json(&k)}));
                }
            }
            if report.samples.len() < 3 {
                report.sample(json!({"key": lkey_json(&k), "db": db.as_ref().ok().map(|d| hex(d))}));
            }
            let db_coq = coq_option(db.as_ref().ok().map(|d| coq_bytes(d)));
            let back_coq = coq_option(back.and_then(|b| b.ok()).map(|b| lkey_coq(&b)));
            cw.push(format!("CRound {} {} {} {}", lkey_coq(&k), coq_bytes(&hp), db_coq, back_coq));
        }
        Spec::PartKey(n, p) => {
            let node = NodeId(n.clone().try_into().unwrap());
            let db = catch(move || M::to_db_partition_key(&node, PartitionNumber(p)));
            let back = match &db {
                Ok(d) => {
                    let d = d.clone();
                    Some(catch(move || M::from_db_partition_key(&d)))
                }
                Err(_) => None,
            };
            report.case(&format!("P{}{}", hex(&n), p), true);
            report.count("partition_key_roundtrip");
            match (&db, &back) {
                (Ok(d), Some(Ok((bn, bp)))) => {
                    let h = hash(&n);
                    if bn.0[..] != n[..] || bp.0 != p || d.partition_num != p || d.node_key.len() != 50 || d.node_key[..20] != h.0[..20] || d.node_key[20..] != n[..] {
                        report.oracle_failure(i, "", "to_db_partition_key/from_db_partition_key round trip or layout broken", json!({"node": hex(&n), "partition": p, "db_node_key": hex(&d.node_key)}));
                    }
                }
                _ => report.oracle_failure(i, "", "to_db_partition_key/from_db_partition_key panicked", json!({"node": hex(&n), "partition": p})),
            }
            let hp: Vec<u8> = db.as_ref().map(|d| d.node_key.iter().take(20).cloned().collect()).unwrap_or(vec![0u8; 20]);
            cw.push(format!(
                "CPartKey {} {} {} {} {}",
                coq_bytes(&n), p, coq_bytes(&hp),
                coq_option(db.as_ref().ok().map(|d| format!("({}, {})", coq_bytes(&d.node_key), d.partition_num))),
                coq_option(back.and_then(|b| b.ok()).map(|(bn, bp)| format!("({}, {})", coq_bytes(&bn.0), bp.0)))
            ));
        }
        Spec::From(which, db) => {
            let back = from_db(which, false, &db);
            report.case(&format!("F{}{}", which, hex(&db)), false);
            report.count(if back.is_ok() { "from_arbitrary_ok" } else { "from_arbitrary_panic" });
            // oracle for the documented shape of from_* off the image: it strips exactly the prefixes
            if let Ok(b) = &back {
                let ok = match (which, b) {
                    (0, LKey::Node(n)) => db.len() == 50 && n[..] == db[20..],
                    (1, LKey::Field(f)) => !db.is_empty() && *f == db[0],
                    (2, LKey::Map(k)) => db.len() >= 20 && k[..] == db[20..],
                    (3, LKey::Sorted(p, k)) => db.len() >= 22 && p[..] == db[..2] && k[..] == db[22..],
                    _ => false,
                };
                if !ok {
                    report.oracle_failure(i, "", "from_db_* did not return the bytes after the fixed-length prefixes", json!({"which": which, "db": hex(&db), "back": lkey_json(b)}));
                }
            }
            cw.push(format!("CFrom {} {} {}", which, coq_bytes(&db), coq_option(back.ok().map(|b| lkey_coq(&b)))));
        }
        Spec::Order(p1, k1, p2, k2) => {
            let d1 = M::sorted_to_db_sort_key(&(p1, k1.clone()));
            let d2 = M::sorted_to_db_sort_key(&(p2, k2.clone()));
            let ord = d1.cmp(&d2);
            report.case(&format!("O{}{}{}{}", hex(&p1), hex(&k1), hex(&p2), hex(&k2)), p1 != p2);
            report.count(if p1 == p2 { "order_same_prefix" } else { "order_diff_prefix" });
            let expect_ok = match p1.cmp(&p2) {
                std::cmp::Ordering::Less => ord == std::cmp::Ordering::Less,
                std::cmp::Ordering::Greater => ord == std::cmp::Ordering::Greater,
                std::cmp::Ordering::Equal => (ord == std::cmp::Ordering::Equal) == (k1 == k2),
            };
            if !expect_ok {
                report.oracle_failure(i, "", "db order of sorted keys does not follow the 2-byte prefix", json!({"p1": hex(&p1), "k1": hex(&k1), "p2": hex(&p2), "k2": hex(&k2), "db1": hex(&d1.0), "db2": hex(&d2.0)}));
            }
            let hp1: Vec<u8> = d1.0.iter().skip(2).take(20).cloned().collect();
            let hp2: Vec<u8> = d2.0.iter().skip(2).take(20).cloned().collect();
            cw.push(format!(
                "COrder {} {} {} {} {} {} {}",
                coq_bytes(&p1), coq_bytes(&k1), coq_bytes(&hp1), coq_bytes(&p2), coq_bytes(&k2), coq_bytes(&hp2), ord_coq(ord)
            ));
        }
        }
    }
    // every boundary class must be generated with exactly its designed count
    for (cl, n) in &class_counts {
        report.floor(cl, *n);
    }
    for cl in [
        "bf_partition_key_roundtrip", "sort_key_from_ref_calls", "partition_key_roundtrip", "bf_round_node", "bf_round_partition", "bf_round_field", "bf_round_map", "bf_round_map_empty", "bf_round_sorted", "bf_round_sorted_empty",
        "bf_from_node_exact", "bf_from_node_off_by_one", "bf_from_node_other_len", "bf_from_field_empty", "bf_from_field_single", "bf_from_field_with_tail",
        "bf_from_map_19", "bf_from_map_20_empty_key", "bf_from_map_short", "bf_from_map_longer",
        "bf_from_sorted_lt2", "bf_from_sorted_21", "bf_from_sorted_22_empty_key", "bf_from_sorted_2_to_20", "bf_from_sorted_longer",
        "bf_order_same_prefix", "bf_order_second_byte_differs", "bf_order_carry_shape", "bf_order_sign_shape", "bf_order_extremes", "bf_order_swapped_bytes",
    ] {
        report.floor(cl, 1);
    }
    let n = args.cases as u64;
    report.floor("round_map", n / 20);
    report.floor("round_sorted", n / 20);
    report.floor("round_node", n / 20);
    report.floor("order_diff_prefix", n / 20);
    report.floor("from_arbitrary_panic", n / 50);
    report.floor("from_arbitrary_ok", n / 50);
    if !args.oracle_only {
        cw.write(&args.out, args.shards).unwrap();
    }
    report.write(&args.out).unwrap();
}
