//! C30 harness: decompiled manifests compile back to the same manifest.
//! Stream 1 (oracle): random valid-lifecycle manifests (TransactionManifestV2 / SubintentManifestV2 /
//! TransactionManifestV1 / SystemTransactionManifestV1) with random manifest-value arguments
//! (all scalar kinds, nested tuples/enums/arrays/maps, strings with quotes / escapes / control / bidi /
//! non-BMP characters, all custom kinds, blobs, reservations, named addresses, children)
//! -> decompile -> compile -> structural equality of instructions, blobs, children.
//! Stream 2 (correspondence with coq/Model/C30_Text.v): a random string -> the real
//! ManifestCustomCharEscaper output and the real lexer on it, compared with `escape` / `lex_string`.
use radix_common::prelude::*;
use radix_engine_interface::prelude::*;
use radix_engine_interface::blueprints::{package::*, account::*, identity::*, access_controller::*, resource::*, consensus_manager::*};
use radix_engine_interface::object_modules::{royalty::*, metadata::*, role_assignment::*};
use radix_transactions::data::ManifestCustomCharEscaper;
use radix_transactions::manifest::lexer::tokenize;
use radix_transactions::manifest::parser::{Parser, ParserErrorKind, PARSER_MAX_DEPTH};
use radix_transactions::manifest::ast;
use radix_transactions::data::{format_manifest_value, ManifestDecompilationDisplayContext};
use radix_transactions::manifest::token::Token;
use radix_transactions::manifest::*;
use radix_transactions::prelude::*;
use radix_rust::unicode::CustomCharEscaper;
use serde_json::json;
use vh_common::*;

fn gen_char(rng: &mut Rng) -> char {
    match rng.below(12) {
        0 => *rng.pick(&['"', '\\', '/', '\n', '\r', '\t', '\u{8}', '\u{c}', '\u{0}', '\u{1f}', '\u{7f}']),
        1 => *rng.pick(&['é', '漢', 'Ω', '\u{a0}', '\u{ad}', '\u{301}', '\u{200b}', '\u{202e}', '\u{2028}', '\u{feff}', '\u{fffd}', '\u{ffff}', '\u{d7ff}', '\u{e000}']),
        2 => *rng.pick(&['😀', '\u{10000}', '\u{10ffff}', '\u{1f1e6}', '\u{e0001}', '\u{2fa1d}']),
        3 => char::from_u32(rng.below(0x110000) as u32).unwrap_or('x'),
        _ => (0x20 + rng.below(0x5f) as u8) as char,
    }
}
fn gen_string(rng: &mut Rng) -> String { let n = rng.below(8); (0..n).map(|_| gen_char(rng)).collect() }

fn comp_addr(i: u8) -> ComponentAddress { let mut b = [0u8; NodeId::LENGTH]; b[0] = EntityType::GlobalGenericComponent as u8; b[29] = i; ComponentAddress::new_or_panic(b) }
fn custom(v: ManifestCustomValue) -> ManifestValue { ManifestValue::Custom { value: v } }

struct Ids { buckets: Vec<u32>, proofs: Vec<u32>, res: Vec<u32>, named: u32, nblobs: u8 }

fn gen_leaf(rng: &mut Rng, ids: &mut Ids, allow_proof: bool) -> ManifestValue {
    match rng.below(24) {
        0 => ManifestValue::Bool { value: rng.bool() },
        1 => ManifestValue::I8 { value: rng.next_u64() as i8 }, 2 => ManifestValue::I16 { value: rng.next_u64() as i16 },
        3 => ManifestValue::I32 { value: rng.next_u64() as i32 }, 4 => ManifestValue::I64 { value: rng.next_u64() as i64 },
        5 => ManifestValue::I128 { value: ((rng.next_u64() as u128) << 64 | rng.next_u64() as u128) as i128 >> rng.below(128) },
        6 => ManifestValue::U8 { value: rng.next_u64() as u8 }, 7 => ManifestValue::U16 { value: rng.next_u64() as u16 },
        8 => ManifestValue::U32 { value: rng.next_u64() as u32 }, 9 => ManifestValue::U64 { value: rng.next_u64() },
        10 => ManifestValue::U128 { value: ((rng.next_u64() as u128) << 64 | rng.next_u64() as u128) >> rng.below(128) },
        11 | 12 => ManifestValue::String { value: gen_string(rng) },
        13 => custom(ManifestCustomValue::Address(ManifestAddress::Static(*comp_addr(rng.below(3) as u8).as_node_id()))),
        14 => if ids.named > 0 { custom(ManifestCustomValue::Address(ManifestAddress::Named(ManifestNamedAddress(rng.below(ids.named as u64) as u32)))) } else { ManifestValue::U8 { value: 1 } },
        15 => if !ids.buckets.is_empty() { let k = rng.usize_below(ids.buckets.len()); custom(ManifestCustomValue::Bucket(ManifestBucket(ids.buckets.remove(k)))) } else { ManifestValue::U8 { value: 2 } },
        16 => if allow_proof && !ids.proofs.is_empty() { let k = rng.usize_below(ids.proofs.len()); custom(ManifestCustomValue::Proof(ManifestProof(ids.proofs.remove(k)))) } else { ManifestValue::U8 { value: 3 } },
        17 => if !ids.res.is_empty() { let k = rng.usize_below(ids.res.len()); custom(ManifestCustomValue::AddressReservation(ManifestAddressReservation(ids.res.remove(k)))) } else { ManifestValue::U8 { value: 4 } },
        18 => if ids.nblobs > 0 { custom(ManifestCustomValue::Blob(ManifestBlobRef(hash([rng.below(ids.nblobs as u64) as u8]).0))) } else { ManifestValue::U8 { value: 5 } },
        19 => custom(ManifestCustomValue::Expression(if rng.bool() { ManifestExpression::EntireWorktop } else { ManifestExpression::EntireAuthZone })),
        20 => custom(ManifestCustomValue::Decimal(from_decimal(&Decimal::from_attos(I192::from(rng.next_u64() as i64 as i128 * (rng.below(1000) as i128 + 1)))))),
        21 => custom(ManifestCustomValue::PreciseDecimal(from_precise_decimal(&PreciseDecimal::from_precise_subunits(I256::from(rng.next_u64() as i64 as i128 * (rng.next_u64() as i128 >> 3)))))),
        22 => custom(ManifestCustomValue::NonFungibleLocalId(from_non_fungible_local_id(match rng.below(4) {
            0 => NonFungibleLocalId::integer(rng.next_u64()), 1 => NonFungibleLocalId::string(["a_1", "Z", "x0_y"][rng.usize_below(3)]).unwrap(),
            2 => NonFungibleLocalId::bytes({ let k = 1 + rng.usize_below(8); rng.bytes(k) }).unwrap(), _ => NonFungibleLocalId::ruid([rng.next_u64() as u8; 32]) }))),
        _ => ManifestValue::Tuple { fields: vec![] },
    }
}
fn gen_value(rng: &mut Rng, ids: &mut Ids, depth: usize, allow_proof: bool) -> ManifestValue {
    if depth == 0 || rng.chance(1, 2) { return gen_leaf(rng, ids, allow_proof); }
    match rng.below(6) {
        0 => ManifestValue::Tuple { fields: (0..rng.below(4)).map(|_| gen_value(rng, ids, depth - 1, allow_proof)).collect() },
        1 => ManifestValue::Enum { discriminator: *rng.pick(&[0u8, 1, 2, 3, 17, 255]), fields: (0..rng.below(3)).map(|_| gen_value(rng, ids, depth - 1, allow_proof)).collect() },
        2 => { // array of a uniform kind
            match rng.below(5) {
                0 => ManifestValue::Array { element_value_kind: ManifestValueKind::U8, elements: { let k = rng.usize_below(6); rng.bytes(k) }.into_iter().map(|b| ManifestValue::U8 { value: b }).collect() },
                1 => ManifestValue::Array { element_value_kind: ManifestValueKind::String, elements: (0..rng.below(3)).map(|_| ManifestValue::String { value: gen_string(rng) }).collect() },
                2 => ManifestValue::Array { element_value_kind: ManifestValueKind::Tuple, elements: (0..rng.below(3)).map(|_| ManifestValue::Tuple { fields: vec![gen_leaf(rng, ids, allow_proof)] }).collect() },
                3 => ManifestValue::Array { element_value_kind: ManifestValueKind::Enum, elements: (0..rng.below(3)).map(|_| ManifestValue::Enum { discriminator: rng.below(4) as u8, fields: vec![] }).collect() },
                _ => ManifestValue::Array { element_value_kind: ManifestValueKind::Custom(ManifestCustomValueKind::Bucket), elements: { let n = rng.usize_below(3).min(ids.buckets.len()); (0..n).map(|_| custom(ManifestCustomValue::Bucket(ManifestBucket(ids.buckets.pop().unwrap())))).collect() } },
            }
        }
        3 => ManifestValue::Map { key_value_kind: ManifestValueKind::String, value_value_kind: ManifestValueKind::Tuple,
                entries: (0..rng.below(3)).map(|_| (ManifestValue::String { value: gen_string(rng) }, ManifestValue::Tuple { fields: vec![gen_value(rng, ids, depth - 1, allow_proof)] })).collect() },
        4 => ManifestValue::Map { key_value_kind: ManifestValueKind::U32, value_value_kind: ManifestValueKind::Enum,
                entries: (0..rng.below(3)).map(|k| (ManifestValue::U32 { value: k as u32 }, ManifestValue::Enum { discriminator: rng.below(3) as u8, fields: vec![gen_leaf(rng, ids, allow_proof)] })).collect() },
        _ => ManifestValue::Enum { discriminator: rng.below(2) as u8, fields: vec![gen_value(rng, ids, depth - 1, allow_proof)] }, // Some/None/Ok/Err aliases
    }
}
fn gen_args(rng: &mut Rng, ids: &mut Ids, allow_proof: bool) -> ManifestValue {
    ManifestValue::Tuple { fields: (0..rng.below(4)).map(|_| gen_value(rng, ids, 3, allow_proof)).collect() }
}


// ---- value layer (token level) -------------------------------------------------------------------------------
fn cps(s: &str) -> String { coq_list(s.chars().map(|c| format!("{}", c as u32))) }
fn tok_coq(t: &Token) -> String {
    match t {
        Token::BoolLiteral(b) => format!("TBool {}", coq_bool(*b)),
        Token::I8Literal(v) => format!("TInt true 8 {}", coq_z(v)), Token::I16Literal(v) => format!("TInt true 16 {}", coq_z(v)),
        Token::I32Literal(v) => format!("TInt true 32 {}", coq_z(v)), Token::I64Literal(v) => format!("TInt true 64 {}", coq_z(v)),
        Token::I128Literal(v) => format!("TInt true 128 {}", coq_z(v)),
        Token::U8Literal(v) => format!("TInt false 8 {}", coq_z(v)), Token::U16Literal(v) => format!("TInt false 16 {}", coq_z(v)),
        Token::U32Literal(v) => format!("TInt false 32 {}", coq_z(v)), Token::U64Literal(v) => format!("TInt false 64 {}", coq_z(v)),
        Token::U128Literal(v) => format!("TInt false 128 {}", coq_z(v)),
        Token::StringLiteral(x) => format!("TString {}", cps(x)), Token::Ident(x) => format!("TIdent {}", cps(x)),
        Token::OpenParenthesis => "TOpenP".into(), Token::CloseParenthesis => "TCloseP".into(), Token::LessThan => "TLt".into(),
        Token::GreaterThan => "TGt".into(), Token::Comma => "TComma".into(), Token::Semicolon => "TSemi".into(), Token::FatArrow => "TFatArrow".into(),
    }
}
fn fmt_value(v: &ManifestValue, enc: &AddressBech32Encoder, multi: bool) -> String {
    let mut out = String::new();
    let ctx = ManifestDecompilationDisplayContext::with_optional_bech32(Some(enc));
    let ctx = if multi { ctx.with_multi_line(4, 4) } else { ctx };
    format_manifest_value(&mut out, v, &ctx, false, 0).unwrap();
    out
}
/// the Ident("string") form the formatter prints for a custom value / NonFungibleGlobalId / Bytes
fn leaf_of(v: &ManifestValue, enc: &AddressBech32Encoder) -> Option<(String, String)> {
    let toks = tokenize(&fmt_value(v, enc, false)).ok()?;
    match toks.as_slice() {
        [a, b, c, d] => match (&a.token, &b.token, &c.token, &d.token) {
            (Token::Ident(id), Token::OpenParenthesis, Token::StringLiteral(s), Token::CloseParenthesis) if id != "Tuple" && id != "Array" && id != "Map" => Some((id.clone(), s.clone())),
            _ => None },
        _ => None,
    }
}
fn kind_name(k: &ManifestValueKind) -> String { radix_transactions::data::format_value_kind(k).to_string() }
fn mv_coq(v: &ManifestValue, enc: &AddressBech32Encoder) -> String {
    let list = |xs: &Vec<ManifestValue>| coq_list(xs.iter().map(|x| mv_coq(x, enc)));
    match v {
        ManifestValue::Bool { value } => format!("(MBool {})", coq_bool(*value)),
        ManifestValue::I8 { value } => format!("(MInt true 8 {})", coq_z(value)), ManifestValue::I16 { value } => format!("(MInt true 16 {})", coq_z(value)),
        ManifestValue::I32 { value } => format!("(MInt true 32 {})", coq_z(value)), ManifestValue::I64 { value } => format!("(MInt true 64 {})", coq_z(value)),
        ManifestValue::I128 { value } => format!("(MInt true 128 {})", coq_z(value)),
        ManifestValue::U8 { value } => format!("(MInt false 8 {})", coq_z(value)), ManifestValue::U16 { value } => format!("(MInt false 16 {})", coq_z(value)),
        ManifestValue::U32 { value } => format!("(MInt false 32 {})", coq_z(value)), ManifestValue::U64 { value } => format!("(MInt false 64 {})", coq_z(value)),
        ManifestValue::U128 { value } => format!("(MInt false 128 {})", coq_z(value)),
        ManifestValue::String { value } => format!("(MStr {})", cps(value)),
        ManifestValue::Custom { .. } => { let (id, s) = leaf_of(v, enc).expect("custom leaf"); format!("(MLeaf {} {})", cps(&id), cps(&s)) }
        ManifestValue::Tuple { fields } => match leaf_of(v, enc) { Some((id, s)) => format!("(MLeaf {} {})", cps(&id), cps(&s)), None => format!("(MTuple {})", list(fields)) },
        ManifestValue::Enum { discriminator, fields } => format!("(MEnum {} {})", discriminator, list(fields)),
        ManifestValue::Array { element_value_kind: ManifestValueKind::U8, .. } => { let (_, s) = leaf_of(v, enc).expect("bytes"); format!("(MBytes {})", cps(&s)) }
        ManifestValue::Array { element_value_kind, elements } => format!("(MArray {} {})", cps(&kind_name(element_value_kind)), list(elements)),
        ManifestValue::Map { key_value_kind, value_value_kind, entries } => format!("(MMap {} {} {})", cps(&kind_name(key_value_kind)), cps(&kind_name(value_value_kind)),
            coq_list(entries.iter().map(|(k, x)| format!("({}, {})", mv_coq(k, enc), mv_coq(x, enc))))),
    }
}
fn ast_coq(v: &ast::Value) -> String {
    use ast::Value as V;
    let list = |xs: &Vec<ast::ValueWithSpan>| coq_list(xs.iter().map(|x| ast_coq(&x.value)));
    let one = |name: &str, x: &ast::ValueWithSpan| format!("(AOne {} {})", cps(name), ast_coq(&x.value));
    match v {
        V::Bool(b) => format!("(ABool {})", coq_bool(*b)),
        V::I8(x) => format!("(AInt true 8 {})", coq_z(x)), V::I16(x) => format!("(AInt true 16 {})", coq_z(x)), V::I32(x) => format!("(AInt true 32 {})", coq_z(x)),
        V::I64(x) => format!("(AInt true 64 {})", coq_z(x)), V::I128(x) => format!("(AInt true 128 {})", coq_z(x)),
        V::U8(x) => format!("(AInt false 8 {})", coq_z(x)), V::U16(x) => format!("(AInt false 16 {})", coq_z(x)), V::U32(x) => format!("(AInt false 32 {})", coq_z(x)),
        V::U64(x) => format!("(AInt false 64 {})", coq_z(x)), V::U128(x) => format!("(AInt false 128 {})", coq_z(x)),
        V::String(s) => format!("(AStr {})", cps(s)),
        V::Enum(d, fs) => format!("(AEnum {} {})", d, list(fs)),
        V::Array(k, es) => format!("(AArray {} {})", cps(&format!("{:?}", k.value_kind)), list(es)),
        V::Tuple(fs) => format!("(ATuple {})", list(fs)),
        V::Map(k, x, es) => format!("(AMap {} {} {})", cps(&format!("{:?}", k.value_kind)), cps(&format!("{:?}", x.value_kind)), coq_list(es.iter().map(|(a, b)| format!("({}, {})", ast_coq(&a.value), ast_coq(&b.value))))),
        V::None => "ANone".into(),
        V::Some(x) => one("Some", x), V::Ok(x) => one("Ok", x), V::Err(x) => one("Err", x), V::Bytes(x) => one("Bytes", x),
        V::NonFungibleGlobalId(x) => one("NonFungibleGlobalId", x), V::Address(x) => one("Address", x), V::NamedAddress(x) => one("NamedAddress", x),
        V::Bucket(x) => one("Bucket", x), V::Proof(x) => one("Proof", x), V::Expression(x) => one("Expression", x), V::Blob(x) => one("Blob", x),
        V::Decimal(x) => one("Decimal", x), V::PreciseDecimal(x) => one("PreciseDecimal", x), V::NonFungibleLocalId(x) => one("NonFungibleLocalId", x),
        V::AddressReservation(x) => one("AddressReservation", x), V::Intent(x) => one("Intent", x), V::NamedIntent(x) => one("NamedIntent", x),
    }
}
/// the real parser on a token list: (result, number of tokens left)
fn run_parser(toks: &[radix_transactions::manifest::token::TokenWithSpan]) -> String {
    let t = toks.to_vec();
    match catch(move || { let mut p = Parser::new(t.clone(), PARSER_MAX_DEPTH).map_err(|e| e.error_kind)?; let v = p.parse_value().map_err(|e| e.error_kind)?; let mut left = 0usize; while !p.is_eof() { p.advance().ok(); left += 1; } Ok::<_, ParserErrorKind>((v, left)) }) {
        Err(_) => "PPanic".into(),
        Ok(Ok((v, left))) => format!("(PRes (Some {}) {} None)", ast_coq(&v.value), left),
        Ok(Err(k)) => format!("(PRes None 0 (Some {}))", match k {
            ParserErrorKind::UnexpectedEof => "PEof", ParserErrorKind::UnexpectedToken { .. } | ParserErrorKind::InvalidArgument { .. } => "PUnexpected",
            ParserErrorKind::InvalidNumberOfValues { .. } => "PNumValues", ParserErrorKind::InvalidNumberOfTypes { .. } => "PNumTypes",
            ParserErrorKind::UnknownEnumDiscriminator { .. } => "PUnmodelled", ParserErrorKind::MaxDepthExceeded { .. } => "PMaxDepth" }),
    }
}

fn gen_instructions(rng: &mut Rng, v2: bool, subintent: bool, children: u32, nblobs: u8, prealloc: u32) -> Vec<InstructionV2> {
    let mut ids = Ids { buckets: vec![], proofs: vec![], res: (0..prealloc).collect(), named: 0, nblobs };
    let (mut nb, mut np, mut nr) = (0u32, 0u32, prealloc);
    let mut out = vec![];
    let ra = |f: bool| { let mut b = [0u8; NodeId::LENGTH]; b[0] = if f { EntityType::GlobalFungibleResourceManager as u8 } else { EntityType::GlobalNonFungibleResourceManager as u8 }; b[29] = 7; ResourceAddress::new_or_panic(b) };
    let n = rng.range(1, 14);
    for _ in 0..n {
        let r = rng.below(20);
        let ins = match r {
            0 | 1 => { ids.buckets.push(nb); nb += 1; match rng.below(3) { 0 => InstructionV2::TakeAllFromWorktop(TakeAllFromWorktop { resource_address: ra(true) }),
                        1 => InstructionV2::TakeFromWorktop(TakeFromWorktop { resource_address: ra(true), amount: Decimal::from_attos(I192::from(rng.next_u64())) }),
                        _ => InstructionV2::TakeNonFungiblesFromWorktop(TakeNonFungiblesFromWorktop { resource_address: ra(false), ids: vec![NonFungibleLocalId::integer(rng.below(5)), NonFungibleLocalId::string("a").unwrap()] }) } }
            2 if !ids.buckets.is_empty() => { let k = rng.usize_below(ids.buckets.len()); let b = ManifestBucket(ids.buckets.remove(k)); /* a bucket with a proof is never consumed afterwards */ ids.proofs.push(np); np += 1; match rng.below(3) {
                        0 => InstructionV2::CreateProofFromBucketOfAll(CreateProofFromBucketOfAll { bucket_id: b }),
                        1 => InstructionV2::CreateProofFromBucketOfAmount(CreateProofFromBucketOfAmount { bucket_id: b, amount: dec!("0.5") }),
                        _ => InstructionV2::CreateProofFromBucketOfNonFungibles(CreateProofFromBucketOfNonFungibles { bucket_id: b, ids: vec![NonFungibleLocalId::ruid([3; 32])] }) } }
            3 => { ids.proofs.push(np); np += 1; match rng.below(4) { 0 => InstructionV2::PopFromAuthZone(PopFromAuthZone),
                        1 => InstructionV2::CreateProofFromAuthZoneOfAll(CreateProofFromAuthZoneOfAll { resource_address: ra(true) }),
                        2 => InstructionV2::CreateProofFromAuthZoneOfAmount(CreateProofFromAuthZoneOfAmount { resource_address: ra(true), amount: dec!("-1") }),
                        _ => InstructionV2::CreateProofFromAuthZoneOfNonFungibles(CreateProofFromAuthZoneOfNonFungibles { resource_address: ra(false), ids: vec![] }) } }
            4 if !ids.proofs.is_empty() => { let p = ManifestProof(*rng.pick(&ids.proofs)); ids.proofs.push(np); np += 1; InstructionV2::CloneProof(CloneProof { proof_id: p }) }
            5 if !ids.proofs.is_empty() => { let k = rng.usize_below(ids.proofs.len()); let p = ManifestProof(ids.proofs.remove(k)); if rng.bool() { InstructionV2::DropProof(DropProof { proof_id: p }) } else { InstructionV2::PushToAuthZone(PushToAuthZone { proof_id: p }) } }
            6 if !ids.buckets.is_empty() => { let k = rng.usize_below(ids.buckets.len()); let b = ManifestBucket(ids.buckets.remove(k)); if rng.bool() { InstructionV2::ReturnToWorktop(ReturnToWorktop { bucket_id: b }) } else { InstructionV2::BurnResource(BurnResource { bucket_id: b }) } }
            7 => { ids.res.push(nr); nr += 1; ids.named += 1; InstructionV2::AllocateGlobalAddress(AllocateGlobalAddress { package_address: FAUCET_PACKAGE, blueprint_name: gen_string(rng) }) }
            8 => match rng.below(5) { 0 => { ids.proofs.clear(); InstructionV2::DropAllProofs(DropAllProofs) } 1 => { ids.proofs.clear(); InstructionV2::DropNamedProofs(DropNamedProofs) }
                        2 => InstructionV2::DropAuthZoneProofs(DropAuthZoneProofs), 3 => InstructionV2::DropAuthZoneRegularProofs(DropAuthZoneRegularProofs), _ => InstructionV2::DropAuthZoneSignatureProofs(DropAuthZoneSignatureProofs) },
            9 => match rng.below(3) { 0 => InstructionV2::AssertWorktopContainsAny(AssertWorktopContainsAny { resource_address: ra(true) }),
                        1 => InstructionV2::AssertWorktopContains(AssertWorktopContains { resource_address: ra(true), amount: dec!("1.000000000000000001") }),
                        _ => InstructionV2::AssertWorktopContainsNonFungibles(AssertWorktopContainsNonFungibles { resource_address: ra(false), ids: vec![NonFungibleLocalId::bytes(vec![1, 2]).unwrap()] }) },
            10 if v2 => { let cs = ManifestResourceConstraints::new().with_unchecked(ra(true), ManifestResourceConstraint::General(GeneralResourceConstraint { required_ids: indexset!(), lower_bound: LowerBound::NonZero, upper_bound: UpperBound::Inclusive(dec!("5")), allowed_ids: AllowedIds::Any }))
                                .with_unchecked(ra(false), ManifestResourceConstraint::ExactNonFungibles(indexset!(NonFungibleLocalId::integer(1))));
                          match rng.below(5) { 0 => InstructionV2::AssertWorktopResourcesOnly(AssertWorktopResourcesOnly { constraints: cs }), 1 => InstructionV2::AssertWorktopResourcesInclude(AssertWorktopResourcesInclude { constraints: cs }),
                            2 => InstructionV2::AssertNextCallReturnsOnly(AssertNextCallReturnsOnly { constraints: cs }), 3 => InstructionV2::AssertNextCallReturnsInclude(AssertNextCallReturnsInclude { constraints: cs }),
                            _ => if !ids.buckets.is_empty() { InstructionV2::AssertBucketContents(AssertBucketContents { bucket_id: ManifestBucket(*rng.pick(&ids.buckets)), constraint: ManifestResourceConstraint::AtLeastAmount(dec!("2")) }) } else { InstructionV2::DropAuthZoneProofs(DropAuthZoneProofs) } } }
            11 if v2 && children > 0 => InstructionV2::YieldToChild(YieldToChild { child_index: ManifestNamedIntentIndex(rng.below(children as u64) as u32), args: gen_args(rng, &mut ids, false) }),
            12 if v2 && subintent => if rng.bool() { InstructionV2::YieldToParent(YieldToParent { args: gen_args(rng, &mut ids, false) }) } else { InstructionV2::VerifyParent(VerifyParent { access_rule: if rng.bool() { AccessRule::AllowAll } else { rule!(require(XRD)) } }) },
            _ => { let args = gen_args(rng, &mut ids, true);
                   let ga = if ids.named > 0 && rng.chance(1, 3) { ManifestGlobalAddress::Named(ManifestNamedAddress(rng.below(ids.named as u64) as u32)) } else { ManifestGlobalAddress::Static(comp_addr(1).into()) };
                   let name = if rng.chance(1, 3) { gen_string(rng) } else { ["free", "lock_fee", "deposit_batch", "withdraw", "m"][rng.usize_below(5)].to_string() };
                   match rng.below(7) {
                       0 => InstructionV2::CallFunction(CallFunction { package_address: if ids.named > 0 && rng.chance(1, 3) { ManifestPackageAddress::Named(ManifestNamedAddress(rng.below(ids.named as u64) as u32)) } else { ManifestPackageAddress::Static(FAUCET_PACKAGE) }, blueprint_name: gen_string(rng), function_name: name, args }),
                       1 => InstructionV2::CallRoyaltyMethod(CallRoyaltyMethod { address: ga, method_name: name, args }),
                       2 => InstructionV2::CallMetadataMethod(CallMetadataMethod { address: ga, method_name: name, args }),
                       3 => InstructionV2::CallRoleAssignmentMethod(CallRoleAssignmentMethod { address: ga, method_name: name, args }),
                       4 => { let mut b = [0u8; NodeId::LENGTH]; b[0] = EntityType::InternalFungibleVault as u8; InstructionV2::CallDirectVaultMethod(CallDirectVaultMethod { address: InternalAddress::new_or_panic(b), method_name: name, args }) }
                       _ => InstructionV2::CallMethod(CallMethod { address: ga, method_name: name, args }),
                   } }
        };
        out.push(ins);
    }
    out
}


// ---- deterministic boundary families (identical for every seed) ---------------------------------------------
fn fam_strings() -> Vec<(String, String)> {
    let cps: [u32; 36] = [0, 8, 9, 0xa, 0xc, 0xd, 0x1f, 0x20, 0x22, 0x27, 0x2f, 0x5c, 0x7e, 0x7f, 0x80, 0x9f, 0xa0, 0xad, 0x300, 0x301, 0x200b, 0x202e, 0x2028, 0xd7ff, 0xe000, 0xfeff,
        0xfffd, 0xfffe, 0xffff, 0x10000, 0x1f600, 0xe0001, 0xeffff, 0x10fffd, 0x10ffff, 0x61];
    let mut v = vec![("str_empty".to_string(), String::new())];
    for c in cps { let ch = char::from_u32(c).unwrap();
        v.push((format!("str_alone_{:x}", c), ch.to_string()));
        v.push((format!("str_middle_{:x}", c), format!("a{}b", ch)));
        v.push((format!("str_twice_at_end_{:x}", c), format!("z{}{}", ch, ch))); }
    v.push(("str_literal_backslash_u".into(), "\\u0041\\ud83d\\n".into()));
    v.push(("str_all_two_char_escapes".into(), "\"\\/\u{8}\u{c}\n\r\t".into()));
    v.push(("str_surrogate_boundaries".into(), "\u{d7ff}\u{e000}\u{ffff}\u{10000}\u{10ffff}".into()));
    v
}
fn fam_values() -> Vec<(String, ManifestValue)> {
    use ManifestValue as V;
    let mut v: Vec<(String, ManifestValue)> = vec![];
    let mut add = |c: &str, x: ManifestValue| v.push((format!("val_{}", c), x));
    add("bool_true", V::Bool { value: true }); add("bool_false", V::Bool { value: false });
    add("i8_min", V::I8 { value: i8::MIN }); add("i8_max", V::I8 { value: i8::MAX }); add("i8_m1", V::I8 { value: -1 }); add("i8_0", V::I8 { value: 0 });
    add("i16_min", V::I16 { value: i16::MIN }); add("i16_max", V::I16 { value: i16::MAX });
    add("i32_min", V::I32 { value: i32::MIN }); add("i32_max", V::I32 { value: i32::MAX });
    add("i64_min", V::I64 { value: i64::MIN }); add("i64_max", V::I64 { value: i64::MAX });
    add("i128_min", V::I128 { value: i128::MIN }); add("i128_max", V::I128 { value: i128::MAX });
    add("u8_0", V::U8 { value: 0 }); add("u8_max", V::U8 { value: u8::MAX }); add("u16_max", V::U16 { value: u16::MAX }); add("u32_max", V::U32 { value: u32::MAX });
    add("u64_max", V::U64 { value: u64::MAX }); add("u128_max", V::U128 { value: u128::MAX }); add("u128_0", V::U128 { value: 0 });
    for d in [0u8, 1, 2, 3, 127, 128, 254, 255] { for n in 0..3usize {
        add(&format!("enum_{}_{}fields", d, n), V::Enum { discriminator: d, fields: (0..n).map(|k| V::U8 { value: k as u8 }).collect() }); } }
    add("enum_in_enum_some_none", V::Enum { discriminator: 1, fields: vec![V::Enum { discriminator: 0, fields: vec![] }] });
    add("enum_ok_err", V::Tuple { fields: vec![V::Enum { discriminator: 0, fields: vec![V::Bool { value: true }] }, V::Enum { discriminator: 1, fields: vec![V::String { value: "e".into() }] }] });
    add("tuple_empty", V::Tuple { fields: vec![] }); add("tuple_single", V::Tuple { fields: vec![V::U8 { value: 1 }] });
    add("tuple_of_empty_tuples", V::Tuple { fields: vec![V::Tuple { fields: vec![] }, V::Tuple { fields: vec![] }] });
    for k in [ManifestValueKind::Bool, ManifestValueKind::I8, ManifestValueKind::U16, ManifestValueKind::U128, ManifestValueKind::String, ManifestValueKind::Enum, ManifestValueKind::Array, ManifestValueKind::Tuple, ManifestValueKind::Map,
              ManifestValueKind::Custom(ManifestCustomValueKind::Address), ManifestValueKind::Custom(ManifestCustomValueKind::Bucket), ManifestValueKind::Custom(ManifestCustomValueKind::Proof),
              ManifestValueKind::Custom(ManifestCustomValueKind::Expression), ManifestValueKind::Custom(ManifestCustomValueKind::Blob), ManifestValueKind::Custom(ManifestCustomValueKind::Decimal),
              ManifestValueKind::Custom(ManifestCustomValueKind::PreciseDecimal), ManifestValueKind::Custom(ManifestCustomValueKind::NonFungibleLocalId), ManifestValueKind::Custom(ManifestCustomValueKind::AddressReservation)] {
        add(&format!("array_empty_{:?}", k).replace(['(', ')'], "_"), V::Array { element_value_kind: k, elements: vec![] });
        add(&format!("map_empty_u8_{:?}", k).replace(['(', ')'], "_"), V::Map { key_value_kind: ManifestValueKind::U8, value_value_kind: k, entries: vec![] });
    }
    add("bytes_empty", V::Array { element_value_kind: ManifestValueKind::U8, elements: vec![] });
    add("bytes_single_00", V::Array { element_value_kind: ManifestValueKind::U8, elements: vec![V::U8 { value: 0 }] });
    add("bytes_ff_0f_f0", V::Array { element_value_kind: ManifestValueKind::U8, elements: vec![V::U8 { value: 0xff }, V::U8 { value: 0x0f }, V::U8 { value: 0xf0 }] });
    add("array_single_string", V::Array { element_value_kind: ManifestValueKind::String, elements: vec![V::String { value: "\"\\\n".into() }] });
    add("array_of_bytes", V::Array { element_value_kind: ManifestValueKind::Array, elements: vec![V::Array { element_value_kind: ManifestValueKind::U8, elements: vec![V::U8 { value: 1 }] }, V::Array { element_value_kind: ManifestValueKind::U8, elements: vec![] }] });
    add("map_single", V::Map { key_value_kind: ManifestValueKind::String, value_value_kind: ManifestValueKind::U8, entries: vec![(V::String { value: "k=>".into() }, V::U8 { value: 1 })] });
    add("map_two_nested", V::Map { key_value_kind: ManifestValueKind::U8, value_value_kind: ManifestValueKind::Map, entries: vec![
        (V::U8 { value: 1 }, V::Map { key_value_kind: ManifestValueKind::U8, value_value_kind: ManifestValueKind::U8, entries: vec![] }),
        (V::U8 { value: 2 }, V::Map { key_value_kind: ManifestValueKind::U8, value_value_kind: ManifestValueKind::U8, entries: vec![(V::U8 { value: 3 }, V::U8 { value: 4 })] })] });
    // nesting exactly around the depth limits of the parser (20) and of manifest SBOR (24)
    for (name, wrap) in [("tuple", 0u8), ("enum", 1), ("array", 2), ("map", 3)] { for d in [17usize, 18, 19, 20, 21, 22] {
        let mut x = V::U8 { value: 7 };
        for _ in 0..d { x = match wrap { 0 => V::Tuple { fields: vec![x] }, 1 => V::Enum { discriminator: 1, fields: vec![x] },
            2 => { let k = match &x { V::U8 { .. } => ManifestValueKind::U16, V::Array { .. } => ManifestValueKind::Array, _ => ManifestValueKind::Tuple }; if let V::U8 { value } = x { V::Array { element_value_kind: k, elements: vec![V::U16 { value: value as u16 }] } } else { V::Array { element_value_kind: k, elements: vec![x] } } }
            _ => { let k = match &x { V::U8 { .. } => ManifestValueKind::U8, _ => ManifestValueKind::Map }; V::Map { key_value_kind: ManifestValueKind::Bool, value_value_kind: k, entries: vec![(V::Bool { value: true }, x)] } } }; }
        add(&format!("depth_{}_{}", name, d), x); } }
    // custom leaves: every kind
    let nf = |id: NonFungibleLocalId| custom(ManifestCustomValue::NonFungibleLocalId(from_non_fungible_local_id(id)));
    add("nfgid_alias_tuple", V::Tuple { fields: vec![custom(ManifestCustomValue::Address(ManifestAddress::Static(*XRD.as_node_id()))), nf(NonFungibleLocalId::integer(7))] });
    add("nfgid_like_but_component", V::Tuple { fields: vec![custom(ManifestCustomValue::Address(ManifestAddress::Static(*comp_addr(1).as_node_id()))), nf(NonFungibleLocalId::integer(7))] });
    add("nfgid_like_but_three", V::Tuple { fields: vec![custom(ManifestCustomValue::Address(ManifestAddress::Static(*XRD.as_node_id()))), nf(NonFungibleLocalId::integer(7)), V::U8 { value: 0 }] });
    add("nfgid_like_swapped", V::Tuple { fields: vec![nf(NonFungibleLocalId::integer(7)), custom(ManifestCustomValue::Address(ManifestAddress::Static(*XRD.as_node_id())))] });
    add("nfid_integer_0", nf(NonFungibleLocalId::integer(0))); add("nfid_integer_max", nf(NonFungibleLocalId::integer(u64::MAX)));
    add("nfid_string_1", nf(NonFungibleLocalId::string("a").unwrap())); add("nfid_string_64", nf(NonFungibleLocalId::string("a".repeat(64)).unwrap()));
    add("nfid_bytes_1", nf(NonFungibleLocalId::bytes(vec![0]).unwrap())); add("nfid_bytes_64", nf(NonFungibleLocalId::bytes(vec![0xff; 64]).unwrap()));
    add("nfid_ruid_zero", nf(NonFungibleLocalId::ruid([0; 32]))); add("nfid_ruid_ff", nf(NonFungibleLocalId::ruid([0xff; 32])));
    add("decimal_min", custom(ManifestCustomValue::Decimal(from_decimal(&Decimal::MIN)))); add("decimal_max", custom(ManifestCustomValue::Decimal(from_decimal(&Decimal::MAX))));
    add("decimal_zero", custom(ManifestCustomValue::Decimal(from_decimal(&Decimal::ZERO)))); add("decimal_1atto", custom(ManifestCustomValue::Decimal(from_decimal(&Decimal::from_attos(I192::ONE)))));
    add("decimal_m1atto", custom(ManifestCustomValue::Decimal(from_decimal(&Decimal::from_attos(-I192::ONE)))));
    add("pdecimal_min", custom(ManifestCustomValue::PreciseDecimal(from_precise_decimal(&PreciseDecimal::MIN)))); add("pdecimal_max", custom(ManifestCustomValue::PreciseDecimal(from_precise_decimal(&PreciseDecimal::MAX))));
    add("pdecimal_1sub", custom(ManifestCustomValue::PreciseDecimal(from_precise_decimal(&PreciseDecimal::from_precise_subunits(I256::ONE)))));
    add("expr_worktop", custom(ManifestCustomValue::Expression(ManifestExpression::EntireWorktop))); add("expr_authzone", custom(ManifestCustomValue::Expression(ManifestExpression::EntireAuthZone)));
    add("blob_ref", custom(ManifestCustomValue::Blob(ManifestBlobRef(hash([0u8]).0))));
    add("address_package", custom(ManifestCustomValue::Address(ManifestAddress::Static(*FAUCET_PACKAGE.as_node_id()))));
    add("address_resource", custom(ManifestCustomValue::Address(ManifestAddress::Static(*XRD.as_node_id()))));
    { let mut b = [0u8; NodeId::LENGTH]; b[0] = EntityType::InternalFungibleVault as u8; add("address_internal", custom(ManifestCustomValue::Address(ManifestAddress::Static(NodeId(b))))); }
    v
}
/// single-call manifests that the decompiler prints with an alias instruction, plus their non-alias neighbours
fn fam_calls() -> Vec<(String, InstructionV2)> {
    let args = || ManifestValue::Tuple { fields: vec![ManifestValue::U8 { value: 1 }, ManifestValue::String { value: "x".into() }] };
    let mut v: Vec<(String, InstructionV2)> = vec![];
    let f = |p: PackageAddress, b: &str, func: &str| InstructionV2::CallFunction(CallFunction { package_address: ManifestPackageAddress::Static(p), blueprint_name: b.into(), function_name: func.into(), args: ManifestValue::Tuple { fields: vec![ManifestValue::U8 { value: 1 }, ManifestValue::String { value: "x".into() }] } });
    for (c, p, b, func) in [
        ("publish_package", PACKAGE_PACKAGE, PACKAGE_BLUEPRINT, PACKAGE_PUBLISH_WASM_IDENT), ("publish_package_advanced", PACKAGE_PACKAGE, PACKAGE_BLUEPRINT, PACKAGE_PUBLISH_WASM_ADVANCED_IDENT),
        ("create_account_advanced", ACCOUNT_PACKAGE, ACCOUNT_BLUEPRINT, ACCOUNT_CREATE_ADVANCED_IDENT), ("create_account", ACCOUNT_PACKAGE, ACCOUNT_BLUEPRINT, ACCOUNT_CREATE_IDENT),
        ("create_identity_advanced", IDENTITY_PACKAGE, IDENTITY_BLUEPRINT, IDENTITY_CREATE_ADVANCED_IDENT), ("create_identity", IDENTITY_PACKAGE, IDENTITY_BLUEPRINT, IDENTITY_CREATE_IDENT),
        ("create_access_controller", ACCESS_CONTROLLER_PACKAGE, ACCESS_CONTROLLER_BLUEPRINT, ACCESS_CONTROLLER_CREATE_IDENT),
        ("create_fungible", RESOURCE_PACKAGE, FUNGIBLE_RESOURCE_MANAGER_BLUEPRINT, FUNGIBLE_RESOURCE_MANAGER_CREATE_IDENT),
        ("create_fungible_supply", RESOURCE_PACKAGE, FUNGIBLE_RESOURCE_MANAGER_BLUEPRINT, FUNGIBLE_RESOURCE_MANAGER_CREATE_WITH_INITIAL_SUPPLY_IDENT),
        ("create_non_fungible", RESOURCE_PACKAGE, NON_FUNGIBLE_RESOURCE_MANAGER_BLUEPRINT, NON_FUNGIBLE_RESOURCE_MANAGER_CREATE_IDENT),
        ("create_non_fungible_supply", RESOURCE_PACKAGE, NON_FUNGIBLE_RESOURCE_MANAGER_BLUEPRINT, NON_FUNGIBLE_RESOURCE_MANAGER_CREATE_WITH_INITIAL_SUPPLY_IDENT),
        // neighbours that must NOT be aliased: right function on the wrong package / blueprint
        ("no_alias_wrong_package", ACCOUNT_PACKAGE, PACKAGE_BLUEPRINT, PACKAGE_PUBLISH_WASM_IDENT), ("no_alias_wrong_blueprint", RESOURCE_PACKAGE, NON_FUNGIBLE_RESOURCE_MANAGER_BLUEPRINT, FUNGIBLE_RESOURCE_MANAGER_CREATE_WITH_INITIAL_SUPPLY_IDENT),
    ] { v.push((format!("call_{}", c), f(p, b, func))); }
    let m = |a: GlobalAddress, name: &str| InstructionV2::CallMethod(CallMethod { address: ManifestGlobalAddress::Static(a), method_name: name.into(), args: args() });
    let nfres = { let mut b = [0u8; NodeId::LENGTH]; b[0] = EntityType::GlobalNonFungibleResourceManager as u8; b[29] = 7; ResourceAddress::new_or_panic(b) };
    v.push(("call_claim_package_royalties".into(), m(FAUCET_PACKAGE.into(), PACKAGE_CLAIM_ROYALTIES_IDENT)));
    v.push(("call_claim_royalties_on_component_no_alias".into(), m(comp_addr(1).into(), PACKAGE_CLAIM_ROYALTIES_IDENT)));
    v.push(("call_mint_fungible".into(), m(XRD.into(), FUNGIBLE_RESOURCE_MANAGER_MINT_IDENT)));
    v.push(("call_mint_non_fungible".into(), m(nfres.into(), NON_FUNGIBLE_RESOURCE_MANAGER_MINT_IDENT)));
    v.push(("call_mint_ruid".into(), m(nfres.into(), NON_FUNGIBLE_RESOURCE_MANAGER_MINT_RUID_IDENT)));
    v.push(("call_mint_ruid_on_fungible_no_alias".into(), m(XRD.into(), NON_FUNGIBLE_RESOURCE_MANAGER_MINT_RUID_IDENT)));
    v.push(("call_create_validator".into(), m(CONSENSUS_MANAGER.into(), CONSENSUS_MANAGER_CREATE_VALIDATOR_IDENT)));
    v.push(("call_create_validator_on_component_no_alias".into(), m(comp_addr(1).into(), CONSENSUS_MANAGER_CREATE_VALIDATOR_IDENT)));
    let ga = || ManifestGlobalAddress::Static(comp_addr(1).into());
    for (c, name) in [("set_royalty", COMPONENT_ROYALTY_SET_ROYALTY_IDENT), ("lock_royalty", COMPONENT_ROYALTY_LOCK_ROYALTY_IDENT), ("claim_royalties", COMPONENT_ROYALTY_CLAIM_ROYALTIES_IDENT), ("royalty_other", "other")] {
        v.push((format!("call_royalty_{}", c), InstructionV2::CallRoyaltyMethod(CallRoyaltyMethod { address: ga(), method_name: name.into(), args: args() }))); }
    for (c, name) in [("set", METADATA_SET_IDENT), ("remove", METADATA_REMOVE_IDENT), ("lock", METADATA_LOCK_IDENT), ("get", METADATA_GET_IDENT)] {
        v.push((format!("call_metadata_{}", c), InstructionV2::CallMetadataMethod(CallMetadataMethod { address: ga(), method_name: name.into(), args: args() }))); }
    for (c, name) in [("set_owner", ROLE_ASSIGNMENT_SET_OWNER_IDENT), ("lock_owner", ROLE_ASSIGNMENT_LOCK_OWNER_IDENT), ("set", ROLE_ASSIGNMENT_SET_IDENT), ("get", ROLE_ASSIGNMENT_GET_IDENT)] {
        v.push((format!("call_role_assignment_{}", c), InstructionV2::CallRoleAssignmentMethod(CallRoleAssignmentMethod { address: ga(), method_name: name.into(), args: args() }))); }
    let mut vb = [0u8; NodeId::LENGTH]; vb[0] = EntityType::InternalFungibleVault as u8;
    for (c, name) in [("recall", VAULT_RECALL_IDENT), ("freeze", VAULT_FREEZE_IDENT), ("unfreeze", VAULT_UNFREEZE_IDENT), ("recall_non_fungibles", NON_FUNGIBLE_VAULT_RECALL_NON_FUNGIBLES_IDENT), ("other", "other")] {
        v.push((format!("call_vault_{}", c), InstructionV2::CallDirectVaultMethod(CallDirectVaultMethod { address: InternalAddress::new_or_panic(vb), method_name: name.into(), args: args() }))); }
    v
}

fn main() {
    let args = Args::parse();
    let mut report = Report::new(
        "C30", args.seed,
        "stream 1: random manifests of the 4 kinds (1-14 instructions of every family, live ids only) with nested random argument values (all scalar kinds, \
         strings with quotes/escapes/control/bidi/non-BMP chars, tuples, enums incl. Some/None/Ok/Err discriminators, arrays incl. Bytes, maps, every custom kind), \
         blobs, children, preallocated addresses -> decompile -> compile -> equality. stream 2: random strings through the real escaper and lexer vs the model. \
         non-trivial = manifest with >= 3 instructions or a string needing an escape",
    );
    let mut cw = CaseWriter::new("RV.Corr.C30_run RV.Model.C30_Text RV.Model.C31_Lexer RV.Model.C30_Value", "check");
    let root = Rng::new(args.seed);
    let net = NetworkDefinition::simulator();
    let (fstrings, fvalues, fcalls) = (fam_strings(), fam_values(), fam_calls());
    // family manifests: every alias call as V2 and V1, and every family value as the argument of a call (V2)
    let mut fmanifests: Vec<(String, u64, Vec<InstructionV2>)> = vec![];
    for (c, ins) in &fcalls { fmanifests.push((format!("m_v2_{}", c), 0, vec![ins.clone()])); fmanifests.push((format!("m_v1_{}", c), 2, vec![ins.clone()])); }
    for (c, v) in &fvalues { fmanifests.push((format!("m_arg_{}", c), 0, vec![InstructionV2::CallMethod(CallMethod { address: ManifestGlobalAddress::Static(comp_addr(1).into()), method_name: "m".into(), args: ManifestValue::Tuple { fields: vec![v.clone()] } })])); }
    let fam_len = 3 * fstrings.len().max(fvalues.len()).max(fmanifests.len());
    let mut fam_classes: Vec<String> = vec![];
    for i in 0..args.cases.max(fam_len) {
        let mut rng = root.fork(i as u64);
        if i % 3 == 0 {
            let fam_m = fmanifests.get(i / 3);
            if let Some((c, _, _)) = fam_m { report.count(c); fam_classes.push(c.clone()); }
            let kind = match fam_m { Some((_, k, _)) => *k, None => rng.below(4) }; // 0 V2, 1 SubintentV2, 2 V1, 3 SystemV1
            let v2 = kind < 2; let subintent = kind == 1;
            let nblobs = if fam_m.is_some() { 1 } else { rng.below(3) as u8 };
            let children = if v2 { rng.below(3) as u32 } else { 0 };
            let prealloc = if kind == 3 { rng.below(3) as u32 } else { 0 };
            let mut ins = gen_instructions(&mut rng, v2, subintent, children, nblobs, prealloc);
            if let Some((_, _, pins)) = fam_m { ins = pins.clone(); }
            if subintent { ins.push(InstructionV2::YieldToParent(YieldToParent::empty())); }
            let blobs: IndexMap<Hash, Vec<u8>> = (0..nblobs).map(|k| (hash([k]), vec![k])).collect();
            let child_set: IndexSet<ChildSubintentSpecifier> = (0..children).map(|k| ChildSubintentSpecifier { hash: SubintentHash(hash([9, k as u8])) }).collect();
            let blob_provider = || BlobProvider::new_with_blobs((0..nblobs).map(|k| vec![k]).collect());
            let v1_ins = || -> Vec<InstructionV1> { ins.iter().map(|x| InstructionV1::try_from(AnyInstruction::from(x.clone())).unwrap()).collect() };
            report.case(&format!("{:?}", ins), ins.len() >= 3);
            report.count(["kind_v2", "kind_subintent_v2", "kind_v1", "kind_system_v1"][kind as usize]);
            let result: Result<Result<(String, bool), String>, String> = match kind {
                0 => { let m = TransactionManifestV2 { instructions: ins.clone(), blobs: blobs.clone(), children: child_set.clone(), object_names: ManifestObjectNames::Unknown };
                       catch(std::panic::AssertUnwindSafe(|| { let text = decompile(&m, &net).map_err(|e| format!("decompile: {:?}", e))?; let m2: TransactionManifestV2 = compile_manifest(&text, &net, blob_provider()).map_err(|e| format!("compile: {:?}\n{}", e, text))?;
                            Ok((text, m2.instructions == m.instructions && m2.blobs == m.blobs && m2.children == m.children)) })) }
                1 => { let m = SubintentManifestV2 { instructions: ins.clone(), blobs: blobs.clone(), children: child_set.clone(), object_names: ManifestObjectNames::Unknown };
                       catch(std::panic::AssertUnwindSafe(|| { let text = decompile(&m, &net).map_err(|e| format!("decompile: {:?}", e))?; let m2: SubintentManifestV2 = compile_manifest(&text, &net, blob_provider()).map_err(|e| format!("compile: {:?}\n{}", e, text))?;
                            Ok((text, m2.instructions == m.instructions && m2.blobs == m.blobs && m2.children == m.children)) })) }
                2 => { let m = TransactionManifestV1 { instructions: v1_ins(), blobs: blobs.clone(), object_names: ManifestObjectNames::Unknown };
                       catch(std::panic::AssertUnwindSafe(|| { let text = decompile(&m, &net).map_err(|e| format!("decompile: {:?}", e))?; let m2: TransactionManifestV1 = compile_manifest(&text, &net, blob_provider()).map_err(|e| format!("compile: {:?}\n{}", e, text))?;
                            Ok((text, m2.instructions == m.instructions && m2.blobs == m.blobs)) })) }
                _ => { let m = SystemTransactionManifestV1 { instructions: v1_ins(), blobs: blobs.clone(), object_names: ManifestObjectNames::Unknown,
                            preallocated_addresses: (0..prealloc).map(|k| PreAllocatedAddress { blueprint_id: BlueprintId::new(&FAUCET_PACKAGE, "B"), address: comp_addr(10 + k as u8).into() }).collect() };
                       catch(std::panic::AssertUnwindSafe(|| { let text = decompile(&m, &net).map_err(|e| format!("decompile: {:?}", e))?; let m2: SystemTransactionManifestV1 = compile_manifest(&text, &net, blob_provider()).map_err(|e| format!("compile: {:?}\n{}", e, text))?;
                            Ok((text, m2.instructions == m.instructions && m2.blobs == m.blobs && m2.preallocated_addresses == m.preallocated_addresses)) })) }
            };
            let input = json!({"kind": kind, "instructions": format!("{:?}", ins)});
            match result {
                Err(p) => report.oracle_failure(i, "", &format!("decompile/compile panicked: {}", p), input),
                Ok(Err(e)) => {
                    // a manifest whose instructions cannot even be encoded (manifest SBOR depth limit) is not a manifest: not a failure
                    let encodable = manifest_encode(&ins).is_ok();
                    if encodable { report.oracle_failure(i, if e.contains("MaxDepthExceeded") { "value-depth-21" } else { "" }, &format!("decompiled text does not compile (instructions are manifest-encodable): {}", &e[..e.len().min(1500)]), input); }
                    else { report.count("not_encodable_skipped"); }
                }
                Ok(Ok((text, same))) => { report.count("roundtrip_ok"); if !same { report.oracle_failure(i, "", &format!("compile(decompile(m)) != m; text:\n{}", &text[..text.len().min(1500)]), input); } if i < 2 { report.sample(json!({"text": text})); } }
            }
            cw.push("CNone".to_string());
        } else if i % 3 == 2 {
            // ---- stream 3: value layer at token level (model: print_value / parse_value) ----
            let enc = AddressBech32Encoder::new(&net);
            let mut ids = Ids { buckets: vec![0, 1, 2], proofs: vec![0, 1], res: vec![0], named: 2, nblobs: 2 };
            let mut v = gen_value(&mut rng, &mut ids, 4, true);
            let fam_v = fvalues.get(i / 3);
            if let Some((c, pv)) = fam_v { v = pv.clone(); report.count(c); fam_classes.push(c.clone()); }
            // occasionally a deep chain around it, to reach the parser's depth limit (20)
            if fam_v.is_none() && rng.chance(1, 6) { let d = *rng.pick(&[10usize, 16, 17, 18, 19, 20, 21]); for k in 0..d { v = match k % 3 { 0 => ManifestValue::Tuple { fields: vec![v] }, 1 => ManifestValue::Enum { discriminator: 1, fields: vec![v] }, _ => ManifestValue::Array { element_value_kind: ManifestValueKind::Enum, elements: vec![v] } }; } }
            // a NonFungibleGlobalId-shaped tuple now and then
            if fam_v.is_none() && rng.chance(1, 8) { v = ManifestValue::Tuple { fields: vec![custom(ManifestCustomValue::Address(ManifestAddress::Static(*XRD.as_node_id()))), custom(ManifestCustomValue::NonFungibleLocalId(from_non_fungible_local_id(NonFungibleLocalId::integer(7)))), ] }; if rng.bool() { v = ManifestValue::Tuple { fields: vec![v, ManifestValue::U8 { value: 1 }] }; } }
            let text = fmt_value(&v, &enc, rng.bool());
            let toks = match catch({ let t = text.clone(); move || tokenize(&t) }) { Ok(Ok(t)) => t, other => { report.oracle_failure(i, "", &format!("printed value does not lex: {:?}", other.map(|r| r.map(|_| ()))), json!({"text": text})); cw.push("CNone".into()); continue; } };
            let mut parsed = run_parser(&toks);
            let toks_coq = coq_list(toks.iter().map(|t| tok_coq(&t.token)));
            report.case(&text, toks.len() > 6);
            report.count(if parsed.contains("(Some (A") || parsed.contains("(Some ANone") { "value_parsed" } else { "value_parse_error" });
            cw.push(format!("CValue {} {} {}", mv_coq(&v, &enc), toks_coq, parsed));
            // and a mutated token stream for the parser model alone
            let mut m: Vec<_> = toks.clone();
            for _ in 0..rng.range(1, 3) { if m.is_empty() { break; } let a = rng.usize_below(m.len()); match rng.below(4) { 0 => { m.remove(a); } 1 => { let x = m[a].clone(); m.insert(a, x); } 2 => { let b = rng.usize_below(m.len()); m.swap(a, b); } _ => { m.truncate(a); } } }
            parsed = run_parser(&m);
            report.count(if parsed.contains("(Some (A") || parsed.contains("(Some ANone") { "mutated_parsed" } else { "mutated_parse_error" });
            cw.push(format!("CParse {} {}", coq_list(m.iter().map(|t| tok_coq(&t.token))), parsed));
        } else {
            let mut s = gen_string(&mut rng) + &gen_string(&mut rng);
            if let Some((c, ps)) = fstrings.get(i / 3) { s = ps.clone(); report.count(c); fam_classes.push(c.clone()); }
            let printed = format!("{}", ManifestCustomCharEscaper::escaped(s.as_str()));
            let flags: Vec<(u32, bool)> = s.chars().map(|c| (c as u32, radix_rust::unicode::rust_1_81_should_unicode_escape_in_debug_str(c))).collect();
            report.case(&s, printed.len() != s.len() + 2);
            if printed.contains("\\u") { report.count("with_unicode_escape"); }
            // oracle: the lexer reads the printed literal back to the same string
            match catch({ let p = printed.clone(); move || tokenize(&p) }) {
                Ok(Ok(t)) if t.len() == 1 && t[0].token == Token::StringLiteral(s.clone()) => report.count("string_roundtrip_ok"),
                other => report.oracle_failure(i, "", &format!("printed string literal does not lex back: {:?}", other), json!({"string": s, "printed": printed})),
            }
            cw.push(format!("CEscape {} {}", coq_list(flags.iter().map(|(c, f)| format!("({}, {})", c, coq_bool(*f)))), coq_list(printed.chars().map(|c| format!("{}", c as u32)))));
        }
    }
    for c in &fam_classes { report.floor(c, 1); }
    let n = args.cases as u64;
    report.floor("roundtrip_ok", n / 6);
    report.floor("value_parsed", n / 8);
    report.floor("mutated_parse_error", n / 12);
    report.floor("string_roundtrip_ok", n / 6);
    report.floor("with_unicode_escape", n / 20);
    cw.write(&args.out, args.shards).unwrap();
    report.write(&args.out).unwrap();
}
