//! C26 correspondence harness: checked_powi / checked_sqrt / checked_cbrt / checked_nth_root of
//! Decimal and PreciseDecimal (model: coq/Model/C26_RootPow.v).
//! Direct oracle with exact big integers: a root r is correct iff |r|^n <= |x|*ONE^(n-1) < (|r|+1)^n
//! with the sign of x; a power is exact iff ONE^(e-1) divides a^e (resp. a^|e| divides ONE^(|e|+1))
//! and the quotient is in range, otherwise a returned value must not exceed the exact one in magnitude.
use num_bigint::BigInt;
use num_traits::{One, Signed, Zero};
use serde_json::json;
use std::panic::AssertUnwindSafe;
use vh_common::*;
use vh_light::dec::*;

#[derive(Clone, Debug)]
enum Op {
    Powi(BigInt, i64),
    Sqrt(BigInt),
    Cbrt(BigInt),
    NthRoot(BigInt, u32),
}
fn op_coq(op: &Op) -> String {
    match op {
        Op::Powi(x, e) => format!("PPowi {} {}", cz(x), coq_z(*e)),
        Op::Sqrt(x) => format!("PSqrt {}", cz(x)),
        Op::Cbrt(x) => format!("PCbrt {}", cz(x)),
        Op::NthRoot(x, n) => format!("PNthRoot {} {}", cz(x), coq_z(*n)),
    }
}

fn run_impl(f: Fmt, op: &Op) -> Out {
    match (f, op) {
        (Fmt::Dec, Op::Powi(x, e)) => Out::from_opt(catch(AssertUnwindSafe(|| dec(x).checked_powi(*e).map(dec_big)))),
        (Fmt::PDec, Op::Powi(x, e)) => Out::from_opt(catch(AssertUnwindSafe(|| pdec(x).checked_powi(*e).map(pdec_big)))),
        (Fmt::Dec, Op::Sqrt(x)) => Out::from_opt(catch(AssertUnwindSafe(|| dec(x).checked_sqrt().map(dec_big)))),
        (Fmt::PDec, Op::Sqrt(x)) => Out::from_opt(catch(AssertUnwindSafe(|| pdec(x).checked_sqrt().map(pdec_big)))),
        (Fmt::Dec, Op::Cbrt(x)) => Out::from_opt(catch(AssertUnwindSafe(|| dec(x).checked_cbrt().map(dec_big)))),
        (Fmt::PDec, Op::Cbrt(x)) => Out::from_opt(catch(AssertUnwindSafe(|| pdec(x).checked_cbrt().map(pdec_big)))),
        (Fmt::Dec, Op::NthRoot(x, n)) => Out::from_opt(catch(AssertUnwindSafe(|| dec(x).checked_nth_root(*n).map(dec_big)))),
        (Fmt::PDec, Op::NthRoot(x, n)) => Out::from_opt(catch(AssertUnwindSafe(|| pdec(x).checked_nth_root(*n).map(pdec_big)))),
    }
}

fn ipow(b: &BigInt, e: u64) -> BigInt {
    num_traits::pow(b.clone(), e as usize)
}

/// Err(what) if the property fails; Ok(class) where class is "" or a known-finding class that applies
fn oracle(f: Fmt, op: &Op, out: &Out) -> Result<(), (String, &'static str)> {
    let one = f.one();
    if *out == Out::Panic {
        return Err(("panicked".into(), ""));
    }
    let root_ok = |x: &BigInt, n: u32, out: &Out| -> Result<(), (String, &'static str)> {
        let must_fail = n == 0 || (x.is_negative() && n % 2 == 0);
        match out {
            Out::Err(_) => {
                if must_fail {
                    Ok(())
                } else {
                    Err(("failed although the root exists".into(), ""))
                }
            }
            Out::Ok(r) => {
                if must_fail {
                    return Err(("returned a value for an even root of a negative value / zero degree".into(), ""));
                }
                let y = x * ipow(&one, (n - 1) as u64); // root in subunits = n-th root of x*ONE^(n-1)
                let ra = r.abs();
                let good = ipow(&ra, n as u64) <= y.abs() && y.abs() < ipow(&(&ra + 1), n as u64)
                    && (r.is_zero() || r.sign() == x.sign());
                if good {
                    Ok(())
                } else {
                    Err((format!("{} is not the truncated root", r), ""))
                }
            }
            Out::Panic => unreachable!(),
        }
    };
    match op {
        Op::Sqrt(x) => root_ok(x, 2, out),
        Op::Cbrt(x) => root_ok(x, 3, out),
        Op::NthRoot(x, n) => root_ok(x, *n, out),
        Op::Powi(a, e) => {
            let ea = e.unsigned_abs();
            if a.is_zero() {
                // 0^e: 0 for e > 0, 1 for e = 0, undefined for e < 0
                return match (e.signum(), out) {
                    (1, Out::Ok(r)) if r.is_zero() => Ok(()),
                    (0, Out::Ok(r)) if *r == one => Ok(()),
                    (-1, Out::Err(_)) => Ok(()),
                    _ => Err((format!("0^{} gave {}", e, out.short()), "")),
                };
            }
            if a.abs() == one {
                // (+-1)^e = +-1 is representable for every e
                let expect = if a.is_negative() && ea % 2 == 1 { -one.clone() } else { one.clone() };
                return match out {
                    Out::Ok(r) if *r == expect => Ok(()),
                    _ => Err((
                        format!("({})^{} is exactly {} but the implementation returned {}", a, e, expect, out.short()),
                        if *e == i64::MIN { "powi_exp_i64_min" } else { "" },
                    )),
                };
            }
            if ea <= 3000 {
                // exact value in subunits: num/den
                let (num, den) = if *e >= 0 {
                    (ipow(a, ea), if ea == 0 { BigInt::one() } else { ipow(&one, ea - 1) })
                } else {
                    let d = ipow(a, ea);
                    let n = ipow(&one, ea + 1);
                    if d.is_negative() {
                        (-n, -d)
                    } else {
                        (n, d)
                    }
                };
                let (num, den) = if *e == 0 { (one.clone(), BigInt::one()) } else { (num, den) };
                let exact = (&num % &den).is_zero() && f.fits(&(&num / &den));
                match out {
                    Out::Ok(r) => {
                        if exact {
                            if *r == &num / &den {
                                Ok(())
                            } else {
                                Err((format!("exact result {} is representable but got {}", &num / &den, r), ""))
                            }
                        } else if r.abs() * &den <= num.abs() && (r.is_zero() || r.sign() == num.sign()) {
                            Ok(())
                        } else {
                            Err((format!("returned {} exceeds the exact result in magnitude (or has the wrong sign)", r), ""))
                        }
                    }
                    Out::Err(_) => {
                        if exact {
                            Err((format!("exact result {} is representable but the implementation failed", &num / &den), ""))
                        } else {
                            Ok(())
                        }
                    }
                    Out::Panic => unreachable!(),
                }
            } else {
                // huge exponent: decidable without computing the power when the base is far from 1
                let big = a.abs() >= &one * 2; // |value| >= 2
                let small = a.abs() * 2 <= one; // |value| <= 1/2
                let grows = (big && *e > 0) || (small && *e < 0);
                let shrinks = (small && *e > 0) || (big && *e < 0);
                match out {
                    Out::Err(_) => Ok(()), // not representable in all these cases (overflow or a non-zero value below one subunit)
                    Out::Ok(r) => {
                        if grows {
                            Ok(()) // any representable r is below the exact magnitude 2^3000
                        } else if shrinks {
                            if r.is_zero() {
                                Ok(())
                            } else {
                                Err((format!("returned {} for a value below one subunit", r), ""))
                            }
                        } else {
                            Ok(()) // base within (1/2, 2): only panic-freedom is checked here
                        }
                    }
                    Out::Panic => unreachable!(),
                }
            }
        }
    }
}

fn gen_exp(rng: &mut Rng) -> i64 {
    match rng.below(20) {
        0 => *rng.pick(&[i64::MIN, i64::MAX, i64::MIN + 1, i64::MAX - 1, -(1i64 << 62), 1i64 << 62, (1i64 << 40) + 1]),
        1 => {
            let b = rng.range(12, 62);
            let v = (rng.next_u64() >> (64 - b)) as i64;
            if rng.bool() {
                -v
            } else {
                v
            }
        }
        2 | 3 => rng.range(0, 3000) as i64 - 1500,
        4..=6 => rng.range(0, 4) as i64 - 2,
        _ => rng.range(0, 60) as i64 - 30,
    }
}

/// bases whose small powers are exactly representable: m * 10^k with few significant digits
fn gen_nice(rng: &mut Rng, f: Fmt) -> BigInt {
    let m = BigInt::from(rng.range(1, 40) as i64) * if rng.bool() { 1 } else { -1 };
    let k = rng.range(f.scale() as u64 - 4, f.scale() as u64 + 3) as u32;
    m * pow10(k)
}


/// largest |b| with trunc(b^n / ONE^(n-1)) still representable (found by bisection on exact integers)
fn pow_boundary(f: Fmt, n: u64) -> BigInt {
    let (mut lo, mut hi) = (BigInt::zero(), f.max() + 1);
    while &hi - &lo > BigInt::one() {
        let mid: BigInt = (&lo + &hi) / 2;
        // value of mid^n in subunits, computed with the same per-step truncation-free exact arithmetic
        let v = ipow(&mid, n) / ipow(&f.one(), n - 1);
        if f.fits(&v) {
            lo = mid;
        } else {
            hi = mid;
        }
    }
    lo
}

/// The deterministic boundary family (identical for every seed): roots of MIN, MAX, 0, +-1 atto for every
/// degree 0..70, a wider set of values for degrees up to 8, perfect powers and their neighbours, powers
/// of fixed bases with fixed exponents incl. i64::MIN/MAX, squares / cubes at the overflow boundary.
fn boundary_family() -> Vec<(Fmt, Op)> {
    let mut out = Vec::new();
    for f in FMTS {
        let one = f.one();
        let onep: BigInt = &one + 1;
        let onem: BigInt = &one - 1;
        let few = [f.min(), f.max(), BigInt::zero(), -BigInt::one()];
        let many = [
            f.min(), f.min() + 1, f.max(), f.max() - 1, BigInt::zero(), BigInt::one(), -BigInt::one(), one.clone(), -one.clone(),
            onep.clone(), onem.clone(), -onep.clone(), &one * 2, &one / 2,
        ];
        let many: [BigInt; 14] = many;
        for x in &many {
            out.push((f, Op::Sqrt(x.clone())));
            out.push((f, Op::Cbrt(x.clone())));
        }
        for n in 0..=70u32 {
            let xs: &[BigInt] = if n <= 8 { &many } else { &few };
            for x in xs {
                out.push((f, Op::NthRoot(x.clone(), n)));
            }
        }
        // perfect powers k^n (as values) and one subunit next to them
        for k in [2i64, 3, 10] {
            for n in 2..=8u32 {
                let v = ipow(&BigInt::from(k), n as u64) * &one;
                for sgn in [1, -1] {
                    for dl in -1..=1 {
                        let x = &v * sgn + dl;
                        out.push((f, match n {
                            2 => Op::Sqrt(x),
                            3 => Op::Cbrt(x),
                            _ => Op::NthRoot(x, n),
                        }));
                    }
                }
            }
        }
        // powers
        let two: BigInt = &one * 2;
        let half: BigInt = &one / 2;
        let bases: [BigInt; 18] = [
            BigInt::zero(), BigInt::one(), -BigInt::one(), one.clone(), -one.clone(), onep.clone(), onem.clone(), -onep.clone(), -onem.clone(),
            two.clone(), -two.clone(), half.clone(), -half.clone(), &one * 10, &one / 10, f.min(), f.max(), f.min() + 1,
        ];
        let exps = [i64::MIN, i64::MIN + 1, -64, -63, -3, -2, -1, 0, 1, 2, 3, 63, 64, i64::MAX - 1, i64::MAX];
        for b in &bases {
            for e in exps {
                out.push((f, Op::Powi(b.clone(), e)));
            }
        }
        // squares and cubes at the overflow boundary: the largest base whose power fits, and the next one
        for n in [2u64, 3, 4, 5] {
            let b = pow_boundary(f, n);
            let bp: BigInt = &b + 1;
            for base in [b.clone(), bp.clone(), &b - 1, -b.clone(), -bp.clone()] {
                if f.fits(&base) {
                    out.push((f, Op::Powi(base, n as i64)));
                }
            }
        }
        // reciprocals at the limits: 1/x for the smallest magnitudes
        for x in [BigInt::one(), -BigInt::one(), BigInt::from(2), pow10(f.scale() * 2) / f.max(), pow10(f.scale() * 2) / f.max() + 1] {
            out.push((f, Op::Powi(x.clone(), -1)));
            out.push((f, Op::Powi(x, -2)));
        }
    }
    out
}

fn boundary_class(f: Fmt, op: &Op, out: &Out) -> Vec<String> {
    let mut v = Vec::new();
    let some = if matches!(out, Out::Ok(_)) { "some" } else { "none" };
    let lim = |x: &BigInt| -> Option<&'static str> {
        if *x == f.min() {
            Some("min")
        } else if *x == f.max() {
            Some("max")
        } else if x.is_zero() {
            Some("zero")
        } else if x.abs().is_one() {
            Some("one_atto")
        } else if x.abs() == f.one() {
            Some("unit")
        } else {
            None
        }
    };
    match op {
        Op::Sqrt(x) => {
            if let Some(l) = lim(x) {
                v.push(format!("bnd_{}_sqrt_of_{}_{}", f.name(), l, some));
            }
        }
        Op::Cbrt(x) => {
            if let Some(l) = lim(x) {
                v.push(format!("bnd_{}_cbrt_of_{}_{}", f.name(), l, some));
            }
        }
        Op::NthRoot(x, n) => {
            if let Some(l) = lim(x) {
                let deg = if *n == 0 { "deg0" } else if *n == 1 { "deg1" } else if n % 2 == 0 { "even" } else { "odd" };
                v.push(format!("bnd_{}_root_{}_of_{}_{}", f.name(), deg, l, some));
                if *n >= 60 {
                    v.push(format!("bnd_{}_root_degree_60_to_70", f.name()));
                }
            }
        }
        Op::Powi(b, e) => {
            if *e == i64::MIN || *e == i64::MAX || *e == i64::MIN + 1 || *e == i64::MAX - 1 {
                let en = if *e == i64::MIN { "i64min" } else if *e == i64::MAX { "i64max" } else if *e < 0 { "i64min_plus_1" } else { "i64max_minus_1" };
                v.push(format!("bnd_{}_powi_exp_{}_{}", f.name(), en, some));
            }
            if let Some(l) = lim(b) {
                v.push(format!("bnd_{}_powi_base_{}_{}", f.name(), l, some));
            }
            if (2..=5).contains(e) {
                // exactly at the overflow boundary of this exponent
                let n = *e as u64;
                let val = |z: &BigInt| ipow(z, n) / ipow(&f.one(), n - 1);
                let a = b.abs();
                if f.fits(&val(&a)) && !f.fits(&val(&(&a + 1))) {
                    v.push(format!("bnd_{}_powi_{}_largest_fitting_base_{}", f.name(), e, some));
                } else if !f.fits(&val(&a)) && f.fits(&val(&(&a - 1))) {
                    v.push(format!("bnd_{}_powi_{}_first_overflowing_base_{}", f.name(), e, some));
                }
            }
        }
    }
    v
}

const FAMILY_FLOORS: &[(&str, u64)] = &include!("c26_family_floors.in");

fn main() {
    let args = Args::parse();
    let mut report = Report::new(
        "C26",
        args.seed,
        "deterministic boundary family (every seed): roots of MIN/MAX/0/+-1 atto for every degree 0..70, a wider value set for degrees <= 8, perfect powers +-1 subunit, \
         fixed bases x fixed exponents incl. i64::MIN/MAX +-1, largest base whose 2nd..5th power fits and the next one; then random: checked_powi (exponents -30..30, +-1500, 2^12..2^62, i64::MIN/MAX; bases uniform in bit length, boundaries, short decimals with exact powers), \
         checked_sqrt, checked_cbrt, checked_nth_root (degrees 0..70) incl. perfect powers +-1; non-trivial = inexact root, or power with |exp| >= 2 and base not in {0, +-1}; distinct by operation text",
    );
    let mut cw = CaseWriter::new("RV.Corr.C26_run RV.Lib.DecCore RV.Model.C26_RootPow", "check");
    let root = Rng::new(args.seed);
    let bnds = [boundaries(Fmt::Dec), boundaries(Fmt::PDec)];
    // the known finding first (replayed on every run), then generated cases
    let mut fixed: Vec<(Fmt, Op)> = Vec::new();
    for f in FMTS {
        fixed.push((f, Op::Powi(f.one(), i64::MIN)));
        fixed.push((f, Op::Powi(-f.one(), i64::MIN)));
        fixed.push((f, Op::Powi(f.one(), i64::MIN + 1)));
        fixed.push((f, Op::Powi(-f.one(), i64::MAX)));
        fixed.push((f, Op::Powi(f.one() * 5, i64::MIN)));
        fixed.push((f, Op::Cbrt(f.min())));
        fixed.push((f, Op::NthRoot(f.min(), 69)));
        fixed.push((f, Op::NthRoot(f.max(), 70)));
        fixed.push((f, Op::Sqrt(f.max())));
    }
    fixed.extend(boundary_family());
    let nfam = fixed.len();
    for i in 0..(nfam + args.cases) {
        let mut rng = root.fork(i as u64);
        let (f, op) = if i < fixed.len() {
            fixed[i].clone()
        } else {
            let f = FMTS[rng.usize_below(2)];
            let bnd = &bnds[if f == Fmt::Dec { 0 } else { 1 }];
            let x = if rng.chance(1, 4) { gen_nice(&mut rng, f) } else { gen_value(&mut rng, f, bnd) };
            let op = match rng.below(10) {
                0..=4 => {
                    let e = gen_exp(&mut rng);
                    // keep magnitudes near 1 frequent for medium exponents so that results stay in range
                    let x = if e.unsigned_abs() > 60 && rng.chance(2, 3) {
                        let delta = rand_signed(&mut rng, f.scale() * 3);
                        (f.one() + delta) * if rng.chance(1, 4) { -1 } else { 1 }
                    } else {
                        x
                    };
                    Op::Powi(if f.fits(&x) { x } else { f.one() }, e)
                }
                5 => Op::Sqrt(if rng.chance(1, 8) || !f.fits(&x.abs()) { x } else { x.abs() }),
                6 => Op::Cbrt(x),
                7 => {
                    // perfect n-th powers (in value) and neighbours: x = r^n / ONE^(n-1) +- 1
                    let n = rng.range(2, 9) as u32;
                    let r = rand_signed(&mut rng, (f.bits() - 2 + (n - 1) * f.scale() * 10 / 3) / n);
                    let y = ipow(&r, n as u64);
                    let x2 = trunc_div(&y, &ipow(&f.one(), (n - 1) as u64)) + BigInt::from(rng.range(0, 2) as i64 - 1);
                    let x2 = if f.fits(&x2) { x2 } else { x };
                    match n {
                        2 => Op::Sqrt(x2),
                        3 => Op::Cbrt(x2),
                        _ => Op::NthRoot(x2, n),
                    }
                }
                _ => Op::NthRoot(x, rng.range(0, 70) as u32),
            };
            (f, op)
        };
        let out = run_impl(f, &op);
        let canon = format!("{} {}", f.name(), op_coq(&op));
        let nontrivial = match (&op, &out) {
            (Op::Powi(a, e), _) => e.unsigned_abs() >= 2 && !a.is_zero() && a.abs() != f.one(),
            (Op::Sqrt(x), Out::Ok(r)) => r * r != x * f.one(),
            (Op::Cbrt(x), Out::Ok(r)) => r * r * r != x * f.one() * f.one(),
            (Op::NthRoot(_, n), Out::Ok(_)) => *n >= 2,
            _ => false,
        };
        report.case(&canon, nontrivial);
        for c in boundary_class(f, &op, &out) {
            report.count(&c);
        }
        report.count(match &op {
            Op::Powi(_, e) if *e < 0 => "op_powi_negative_exp",
            Op::Powi(..) => "op_powi_nonnegative_exp",
            Op::Sqrt(_) => "op_sqrt",
            Op::Cbrt(_) => "op_cbrt",
            Op::NthRoot(..) => "op_nth_root",
        });
        report.count(match &out {
            Out::Ok(_) => "out_ok",
            Out::Err(_) => "out_none",
            Out::Panic => "out_panic",
        });
        if let (Op::Powi(a, e), Out::Ok(_)) = (&op, &out) {
            if e.unsigned_abs() >= 2 && e.unsigned_abs() <= 3000 && !a.is_zero() && a.abs() != f.one() {
                let ea = e.unsigned_abs();
                let exact = if *e > 0 { (ipow(a, ea) % ipow(&f.one(), ea - 1)).is_zero() } else { (ipow(&f.one(), ea + 1) % ipow(a, ea)).is_zero() };
                report.count(if exact { "powi_ok_exact" } else { "powi_ok_truncated" });
            }
        }
        if let (Op::NthRoot(x, n), Out::Ok(_)) = (&op, &out) {
            if x.is_negative() && *n >= 3 {
                report.count("odd_root_of_negative");
            }
        }
        if let Err((what, class)) = oracle(f, &op, &out) {
            report.oracle_failure(i, class, &format!("{} {}: {} (implementation returned {})", f.name(), op_coq(&op), what, out.short()), json!({"format": f.name(), "op": op_coq(&op)}));
        }
        if i < 3 {
            report.sample(json!({"format": f.name(), "op": op_coq(&op), "out": out.short()}));
        }
        cw.push(format!("({}, {}, {})", f.coq(), op_coq(&op), out.coq()));
    }
    report.extra.insert("boundary_family_cases".into(), json!(nfam));
    for (k, m) in FAMILY_FLOORS {
        report.floor(k, *m);
    }
    let n = args.cases as u64;
    report.floor("powi_ok_exact", n / 100);
    report.floor("powi_ok_truncated", n / 30);
    report.floor("out_none", n / 30);
    report.floor("odd_root_of_negative", n / 100);
    if !args.oracle_only {
        cw.write(&args.out, args.shards).unwrap();
    }
    report.write(&args.out).unwrap();
}
