//! C36 correspondence harness: StaticManifestInterpreter (radix-transactions) on random InstructionV2
//! sequences with deliberate id misuse, all ValidationRuleset flag combinations, transaction and
//! subintent manifests with blobs / children, SystemTransactionManifestV1 with preallocated addresses.
//! Model: coq/Model/C36_ManifestIds.v (`validate`, `rt_run`).
//! Direct oracle: a plain BTreeSet replay of the id lifecycle (created earlier, not yet consumed,
//! not consumed twice, bucket not consumed while a live proof was created from it, end-of-manifest
//! requirements) — an accepted manifest must pass the replay.
use radix_common::prelude::*;
use radix_engine_interface::prelude::*;
use radix_transactions::manifest::*;
use radix_transactions::prelude::*;
use serde_json::json;
use std::collections::{BTreeMap, BTreeSet};
use vh_common::*;

// ---- abstract instruction (mirror of the Coq type `instr`) ------------------------------------------
#[derive(Clone, Debug, PartialEq)]
enum Arg { Bucket(u32), Proof(u32), Res(u32), Named(u32), Blob(u8), Expr }
#[derive(Clone, Debug, PartialEq)]
enum Kind { Method(Option<u32>), Function(Option<u32>), Direct, YieldToParent, YieldToChild(u32) }
#[derive(Clone, Debug, PartialEq)]
enum AI {
    CreateBucket(bool), CreateProofAZ, CreateProofBucket(u32), ConsumeBucket(u32), ConsumeProof(u32), CloneProof(u32),
    DropMany(bool, bool), Invoke(Kind, Vec<Arg>), Allocate, AssertWorktop(bool), AssertNextCall(bool),
    AssertBucket(u32, bool, bool), VerifyParent,
}

fn blob_hash(i: u8) -> Hash { hash([i]) }
fn blob_index(h: &[u8; 32]) -> u8 { (0..=255u8).find(|i| blob_hash(*i).0 == *h).unwrap_or(255) }

fn walk(v: &ManifestValue, out: &mut Vec<Arg>) {
    match v {
        ManifestValue::Custom { value } => match value {
            ManifestCustomValue::Bucket(b) => out.push(Arg::Bucket(b.0)),
            ManifestCustomValue::Proof(p) => out.push(Arg::Proof(p.0)),
            ManifestCustomValue::AddressReservation(r) => out.push(Arg::Res(r.0)),
            ManifestCustomValue::Address(ManifestAddress::Named(n)) => out.push(Arg::Named(n.0)),
            ManifestCustomValue::Blob(b) => out.push(Arg::Blob(blob_index(&b.0))),
            ManifestCustomValue::Expression(_) => out.push(Arg::Expr),
            _ => {}
        },
        ManifestValue::Tuple { fields } | ManifestValue::Enum { fields, .. } => fields.iter().for_each(|f| walk(f, out)),
        ManifestValue::Array { elements, .. } => elements.iter().for_each(|f| walk(f, out)),
        ManifestValue::Map { entries, .. } => entries.iter().for_each(|(k, v)| { walk(k, out); walk(v, out) }),
        _ => {}
    }
}
fn kind_of(k: &InvocationKind) -> Kind {
    match k {
        InvocationKind::Method { address, .. } => Kind::Method(match address { ManifestGlobalAddress::Named(n) => Some(n.0), _ => None }),
        InvocationKind::Function { address, .. } => Kind::Function(match address { ManifestPackageAddress::Named(n) => Some(n.0), _ => None }),
        InvocationKind::DirectMethod { .. } => Kind::Direct,
        InvocationKind::YieldToParent => Kind::YieldToParent,
        InvocationKind::YieldToChild { child_index } => Kind::YieldToChild(child_index.0),
    }
}
/// the abstraction of one real instruction, through the real `effect()`
fn abstract_effect(e: ManifestInstructionEffect) -> AI {
    use ManifestInstructionEffect as E;
    match e {
        E::CreateBucket { source_amount } => AI::CreateBucket(source_amount.resource_address().is_fungible()),
        E::CreateProof { source_amount } => match source_amount.proof_kind() {
            radix_transactions::validation::ProofKind::BucketProof(b) => AI::CreateProofBucket(b.0),
            radix_transactions::validation::ProofKind::AuthZoneProof => AI::CreateProofAZ,
        },
        E::ConsumeBucket { consumed_bucket, .. } => AI::ConsumeBucket(consumed_bucket.0),
        E::ConsumeProof { consumed_proof, .. } => AI::ConsumeProof(consumed_proof.0),
        E::CloneProof { cloned_proof } => AI::CloneProof(cloned_proof.0),
        E::DropManyProofs { drop_all_named_proofs, drop_all_authzone_signature_proofs, drop_all_authzone_non_signature_proofs } =>
            AI::DropMany(drop_all_named_proofs, drop_all_authzone_signature_proofs || drop_all_authzone_non_signature_proofs),
        E::Invocation { kind, args } => { let mut v = vec![]; walk(args, &mut v); AI::Invoke(kind_of(&kind), v) }
        E::CreateAddressAndReservation { .. } => AI::Allocate,
        E::ResourceAssertion { assertion } => match assertion {
            ResourceAssertion::Worktop(w) => AI::AssertWorktop(match w {
                WorktopAssertion::ResourceNonZeroAmount { .. } => true,
                WorktopAssertion::ResourceAtLeastAmount { amount, .. } => !amount.is_negative(),
                WorktopAssertion::ResourceAtLeastNonFungibles { resource_address, .. } => !resource_address.is_fungible(),
                WorktopAssertion::ResourcesOnly { constraints } | WorktopAssertion::ResourcesInclude { constraints } => constraints.is_valid(),
            }),
            ResourceAssertion::NextCall(NextCallAssertion::ReturnsOnly { constraints })
            | ResourceAssertion::NextCall(NextCallAssertion::ReturnsInclude { constraints }) => AI::AssertNextCall(constraints.is_valid()),
            ResourceAssertion::Bucket(BucketAssertion::Contents { bucket, constraint }) =>
                AI::AssertBucket(bucket.0, constraint.is_valid_for_fungible_use(), constraint.is_valid_for_non_fungible_use()),
        },
        E::Verification { .. } => AI::VerifyParent,
    }
}
fn arg_coq(a: &Arg) -> String {
    match a { Arg::Bucket(b) => format!("ABucket {}", b), Arg::Proof(p) => format!("AProof {}", p), Arg::Res(r) => format!("AReservation {}", r),
              Arg::Named(n) => format!("ANamed {}", n), Arg::Blob(h) => format!("ABlob {}", h), Arg::Expr => "AExpr".into() }
}
fn kind_coq(k: &Kind) -> String {
    let o = |x: &Option<u32>| match x { Some(n) => format!("(Some {})", n), None => "None".into() };
    match k { Kind::Method(n) => format!("(KMethod {})", o(n)), Kind::Function(n) => format!("(KFunction {})", o(n)), Kind::Direct => "KDirect".into(),
              Kind::YieldToParent => "KYieldToParent".into(), Kind::YieldToChild(i) => format!("(KYieldToChild {})", i) }
}
fn ai_coq(i: &AI) -> String {
    match i {
        AI::CreateBucket(f) => format!("ICreateBucket {}", coq_bool(*f)), AI::CreateProofAZ => "ICreateProofAZ".into(),
        AI::CreateProofBucket(b) => format!("ICreateProofBucket {}", b), AI::ConsumeBucket(b) => format!("IConsumeBucket {}", b),
        AI::ConsumeProof(p) => format!("IConsumeProof {}", p), AI::CloneProof(p) => format!("ICloneProof {}", p),
        AI::DropMany(n, a) => format!("IDropMany {} {}", coq_bool(*n), coq_bool(*a)),
        AI::Invoke(k, args) => format!("IInvoke {} {}", kind_coq(k), coq_list(args.iter().map(arg_coq))),
        AI::Allocate => "IAllocate".into(), AI::AssertWorktop(v) => format!("IAssert (AsWorktop {})", coq_bool(*v)),
        AI::AssertNextCall(v) => format!("IAssert (AsNextCall {})", coq_bool(*v)),
        AI::AssertBucket(b, f, n) => format!("IAssert (AsBucket {} {} {})", b, coq_bool(*f), coq_bool(*n)), AI::VerifyParent => "IVerifyParent".into(),
    }
}
fn err_coq(e: &ManifestValidationError) -> String {
    use ManifestValidationError as E;
    match e {
        E::DuplicateBlob(b) => format!("EDuplicateBlob {}", blob_index(&b.0)), E::BlobNotRegistered(b) => format!("EBlobNotRegistered {}", blob_index(&b.0)),
        E::BucketNotYetCreated(b) => format!("EBucketNotYetCreated {}", b.0), E::BucketAlreadyUsed(b, _) => format!("EBucketAlreadyUsed {}", b.0),
        E::BucketConsumedWhilstLockedByProof(b, _) => format!("EBucketLocked {}", b.0),
        E::ProofNotYetCreated(p) => format!("EProofNotYetCreated {}", p.0), E::ProofAlreadyUsed(p, _) => format!("EProofAlreadyUsed {}", p.0),
        E::AddressReservationNotYetCreated(r) => format!("EResNotYetCreated {}", r.0), E::AddressReservationAlreadyUsed(r, _) => format!("EResAlreadyUsed {}", r.0),
        E::NamedAddressNotYetCreated(a) => format!("ENamedNotYetCreated {}", a.0), E::ChildIntentNotRegistered(i) => format!("EChildNotRegistered {}", i.0),
        E::DanglingBucket(b, _) => format!("EDanglingBucket {}", b.0), E::DanglingAddressReservation(r, _) => format!("EDanglingRes {}", r.0),
        E::InstructionNotSupportedInTransactionIntent => "ENotSupportedInTxIntent".into(), E::SubintentDoesNotEndWithYieldToParent => "ESubintentEnd".into(),
        E::ProofCannotBePassedToAnotherIntent => "EProofToOtherIntent".into(), E::InvalidResourceConstraint => "EInvalidConstraint".into(),
        E::InstructionFollowingNextCallAssertionWasNotInvocation => "ENextCallNotInvocation".into(),
        E::ManifestEndedWhilstExpectingNextCallAssertion => "EEndedExpectingNextCall".into(),
        E::ArgsEncodeError(_) | E::ArgsDecodeError(_) | E::TooManyInstructions => "EUnmodelled".into(),
    }
}

// ---- generator ------------------------------------------------------------------------------------------
struct Shadow { buckets: Vec<(bool, bool)>, /* (fungible, live) */ proofs: Vec<(Option<u32>, bool)>, res: Vec<bool>, named: u32 }
impl Shadow {
    fn live_buckets(&self) -> Vec<u32> { (0..self.buckets.len() as u32).filter(|i| self.buckets[*i as usize].1).collect() }
    fn live_proofs(&self) -> Vec<u32> { (0..self.proofs.len() as u32).filter(|i| self.proofs[*i as usize].1).collect() }
    fn live_res(&self) -> Vec<u32> { (0..self.res.len() as u32).filter(|i| self.res[*i as usize]).collect() }
    fn unlocked_buckets(&self) -> Vec<u32> {
        self.live_buckets().into_iter().filter(|b| !self.proofs.iter().any(|(s, l)| *l && *s == Some(*b))).collect()
    }
}
fn res_addr(fungible: bool, i: u8) -> ResourceAddress {
    let mut b = [0u8; NodeId::LENGTH];
    b[0] = if fungible { EntityType::GlobalFungibleResourceManager as u8 } else { EntityType::GlobalNonFungibleResourceManager as u8 };
    b[29] = i;
    ResourceAddress::new_or_panic(b)
}
fn comp_addr(i: u8) -> ComponentAddress {
    let mut b = [0u8; NodeId::LENGTH];
    b[0] = EntityType::GlobalGenericComponent as u8;
    b[29] = i;
    ComponentAddress::new_or_panic(b)
}
/// pick an id: mostly a live one, sometimes (misuse) a consumed / never created one
fn pick_id(rng: &mut Rng, live: &[u32], total: u32, misuse: u64, misused: &mut bool) -> u32 {
    if !live.is_empty() && !rng.chance(misuse, 100) {
        *rng.pick(live)
    } else {
        *misused = true;
        if total > 0 && rng.chance(2, 3) { rng.below(total as u64) as u32 } else { total + rng.below(2) as u32 }
    }
}
fn custom(v: ManifestCustomValue) -> ManifestValue { ManifestValue::Custom { value: v } }

fn gen_constraint(rng: &mut Rng) -> ManifestResourceConstraint {
    match rng.below(6) {
        0 => ManifestResourceConstraint::NonZeroAmount,
        1 => ManifestResourceConstraint::ExactAmount(Decimal::from(rng.below(5) as u32) - if rng.chance(1, 12) { dec!("7") } else { dec!("0") }),
        2 => ManifestResourceConstraint::AtLeastAmount(dec!("1.5")),
        3 => ManifestResourceConstraint::ExactNonFungibles(indexset!(NonFungibleLocalId::integer(1))),
        4 => ManifestResourceConstraint::AtLeastNonFungibles(indexset!()),
        _ => ManifestResourceConstraint::General(GeneralResourceConstraint {
            required_ids: indexset!(), lower_bound: LowerBound::Inclusive(Decimal::from(rng.below(4) as u32)),
            upper_bound: UpperBound::Inclusive(Decimal::from(3 + rng.below(4) as u32)), allowed_ids: AllowedIds::Any }),
    }
}
fn gen_constraints(rng: &mut Rng) -> ManifestResourceConstraints {
    let mut cs = ManifestResourceConstraints::new();
    for k in 0..rng.below(3) as u8 {
        let fung = rng.bool();
        let mut c = gen_constraint(rng);
        if !c.is_valid_for(&res_addr(fung, k)) && rng.chance(4, 5) { c = ManifestResourceConstraint::NonZeroAmount; }
        cs = cs.with_unchecked(res_addr(fung, k), c);
    }
    cs
}

struct Gen<'a> { rng: &'a mut Rng, sh: Shadow, misuse: u64, misused: bool, nblobs: u8, children: u32, subintent: bool }
impl<'a> Gen<'a> {
    fn args(&mut self, allow_proofs: bool) -> ManifestValue {
        let n = self.rng.below(4);
        let mut fields = vec![];
        let mut used_b: BTreeSet<u32> = BTreeSet::new();
        let mut used_p: BTreeSet<u32> = BTreeSet::new();
        let mut used_r: BTreeSet<u32> = BTreeSet::new();
        for _ in 0..n {
            let item = match self.rng.below(10) {
                0 | 1 => {
                    let live: Vec<u32> = self.sh.unlocked_buckets().into_iter().filter(|b| !used_b.contains(b)).collect();
                    let b = pick_id(self.rng, &live, self.sh.buckets.len() as u32, self.misuse, &mut self.misused);
                    used_b.insert(b);
                    custom(ManifestCustomValue::Bucket(ManifestBucket(b)))
                }
                2 if allow_proofs || self.rng.chance(1, 10) => {
                    let live: Vec<u32> = self.sh.live_proofs().into_iter().filter(|b| !used_p.contains(b)).collect();
                    let p = pick_id(self.rng, &live, self.sh.proofs.len() as u32, self.misuse, &mut self.misused);
                    used_p.insert(p);
                    custom(ManifestCustomValue::Proof(ManifestProof(p)))
                }
                3 => {
                    let live: Vec<u32> = self.sh.live_res().into_iter().filter(|b| !used_r.contains(b)).collect();
                    if live.is_empty() && !self.rng.chance(self.misuse, 30) { ManifestValue::U8 { value: 3 } } else {
                        let r = pick_id(self.rng, &live, self.sh.res.len() as u32, self.misuse, &mut self.misused);
                        used_r.insert(r);
                        custom(ManifestCustomValue::AddressReservation(ManifestAddressReservation(r)))
                    }
                }
                4 => {
                    if self.sh.named == 0 && !self.rng.chance(self.misuse, 30) { ManifestValue::String { value: "x".into() } } else {
                        let live: Vec<u32> = (0..self.sh.named).collect();
                        custom(ManifestCustomValue::Address(ManifestAddress::Named(ManifestNamedAddress(pick_id(self.rng, &live, self.sh.named, self.misuse, &mut self.misused)))))
                    }
                }
                5 => {
                    let h = if self.nblobs > 0 && !self.rng.chance(self.misuse, 100) { self.rng.below(self.nblobs as u64) as u8 } else { self.misused = true; self.nblobs + self.rng.below(2) as u8 };
                    custom(ManifestCustomValue::Blob(ManifestBlobRef(blob_hash(h).0)))
                }
                6 => custom(ManifestCustomValue::Expression(if self.rng.bool() { ManifestExpression::EntireWorktop } else { ManifestExpression::EntireAuthZone })),
                7 => custom(ManifestCustomValue::Decimal(ManifestDecimal([1u8; 24]))),
                8 => custom(ManifestCustomValue::Address(ManifestAddress::Static(*comp_addr(1).as_node_id()))),
                _ => ManifestValue::U32 { value: 7 },
            };
            // wrap some items in containers
            let item = match self.rng.below(8) {
                0 => ManifestValue::Enum { discriminator: 1, fields: vec![ManifestValue::Bool { value: true }, item] },
                1 => ManifestValue::Tuple { fields: vec![item, ManifestValue::U8 { value: 0 }] },
                2 => match &item {
                    ManifestValue::Custom { value: ManifestCustomValue::Bucket(_) } => ManifestValue::Array { element_value_kind: ManifestValueKind::Custom(ManifestCustomValueKind::Bucket), elements: vec![item] },
                    ManifestValue::Custom { value: ManifestCustomValue::Proof(_) } => ManifestValue::Array { element_value_kind: ManifestValueKind::Custom(ManifestCustomValueKind::Proof), elements: vec![item] },
                    _ => item,
                },
                3 => ManifestValue::Map { key_value_kind: ManifestValueKind::U8, value_value_kind: ManifestValueKind::Tuple, entries: vec![(ManifestValue::U8 { value: 1 }, ManifestValue::Tuple { fields: vec![item] })] },
                _ => item,
            };
            fields.push(item);
        }
        ManifestValue::Tuple { fields }
    }
    /// apply the shadow effect of an instruction that we expect to be fine (approximate; only steers generation)
    fn apply(&mut self, ai: &AI) {
        match ai {
            AI::CreateBucket(f) => self.sh.buckets.push((*f, true)),
            AI::CreateProofAZ => self.sh.proofs.push((None, true)),
            AI::CreateProofBucket(b) => self.sh.proofs.push((Some(*b), true)),
            AI::ConsumeBucket(b) => if let Some(x) = self.sh.buckets.get_mut(*b as usize) { x.1 = false },
            AI::ConsumeProof(p) => if let Some(x) = self.sh.proofs.get_mut(*p as usize) { x.1 = false },
            AI::CloneProof(p) => { let s = self.sh.proofs.get(*p as usize).map(|x| x.0).unwrap_or(None); self.sh.proofs.push((s, true)) }
            AI::DropMany(true, _) => self.sh.proofs.iter_mut().for_each(|x| x.1 = false),
            AI::Invoke(_, args) => for a in args { match a {
                Arg::Bucket(b) => if let Some(x) = self.sh.buckets.get_mut(*b as usize) { x.1 = false },
                Arg::Proof(p) => if let Some(x) = self.sh.proofs.get_mut(*p as usize) { x.1 = false },
                Arg::Res(r) => if let Some(x) = self.sh.res.get_mut(*r as usize) { *x = false },
                _ => {} } },
            AI::Allocate => { self.sh.res.push(true); self.sh.named += 1 }
            _ => {}
        }
    }
    fn global_addr(&mut self) -> ManifestGlobalAddress {
        if self.sh.named > 0 && self.rng.chance(1, 3) || self.rng.chance(self.misuse, 300) {
            let live: Vec<u32> = (0..self.sh.named).collect();
            ManifestGlobalAddress::Named(ManifestNamedAddress(pick_id(self.rng, &live, self.sh.named, self.misuse, &mut self.misused)))
        } else { ManifestGlobalAddress::Static(comp_addr(2).into()) }
    }
    fn instruction(&mut self) -> InstructionV2 {
        // an id-using instruction drawn while nothing is live would always be a misuse: redraw (keeping
        // the deliberate misuse rate) or fall back to a creating instruction
        for _ in 0..6 {
            let before = self.misused;
            let save = self.rng.clone();
            let ins = self.instruction_raw();
            if self.misused && !before && !save.clone().chance(self.misuse + 1, 12) {
                self.misused = before;
                continue;
            }
            return ins;
        }
        if self.rng.bool() { InstructionV2::TakeAllFromWorktop(TakeAllFromWorktop { resource_address: res_addr(true, 2) }) } else { InstructionV2::PopFromAuthZone(PopFromAuthZone) }
    }
    fn instruction_raw(&mut self) -> InstructionV2 {
        let r = self.rng.below(100);
        let nb = self.sh.buckets.len() as u32; let np = self.sh.proofs.len() as u32;
        let m = self.misuse;
        if r < 14 {
            match self.rng.below(3) {
                0 => InstructionV2::TakeFromWorktop(TakeFromWorktop { resource_address: res_addr(true, 1), amount: dec!("1") }),
                1 => InstructionV2::TakeAllFromWorktop(TakeAllFromWorktop { resource_address: res_addr(self.rng.bool(), 2) }),
                _ => InstructionV2::TakeNonFungiblesFromWorktop(TakeNonFungiblesFromWorktop { resource_address: res_addr(false, 3), ids: vec![NonFungibleLocalId::integer(1)] }),
            }
        } else if r < 22 {
            let extra = if self.rng.chance(1, 6) { 60 } else { 0 };
            let pool = if self.rng.chance(1, 4) { self.sh.live_buckets() } else { self.sh.unlocked_buckets() };
            let b = pick_id(self.rng, &pool, nb, m + extra, &mut self.misused);
            if self.rng.bool() { InstructionV2::ReturnToWorktop(ReturnToWorktop { bucket_id: ManifestBucket(b) }) } else { InstructionV2::BurnResource(BurnResource { bucket_id: ManifestBucket(b) }) }
        } else if r < 32 {
            let b = ManifestBucket(pick_id(self.rng, &self.sh.live_buckets(), nb, m, &mut self.misused));
            match self.rng.below(3) {
                0 => InstructionV2::CreateProofFromBucketOfAll(CreateProofFromBucketOfAll { bucket_id: b }),
                1 => InstructionV2::CreateProofFromBucketOfAmount(CreateProofFromBucketOfAmount { bucket_id: b, amount: dec!("1") }),
                _ => InstructionV2::CreateProofFromBucketOfNonFungibles(CreateProofFromBucketOfNonFungibles { bucket_id: b, ids: vec![] }),
            }
        } else if r < 38 {
            match self.rng.below(4) {
                0 => InstructionV2::PopFromAuthZone(PopFromAuthZone),
                1 => InstructionV2::CreateProofFromAuthZoneOfAll(CreateProofFromAuthZoneOfAll { resource_address: res_addr(true, 1) }),
                2 => InstructionV2::CreateProofFromAuthZoneOfAmount(CreateProofFromAuthZoneOfAmount { resource_address: res_addr(true, 1), amount: dec!("2") }),
                _ => InstructionV2::CreateProofFromAuthZoneOfNonFungibles(CreateProofFromAuthZoneOfNonFungibles { resource_address: res_addr(false, 1), ids: vec![] }),
            }
        } else if r < 46 {
            let p = ManifestProof(pick_id(self.rng, &self.sh.live_proofs(), np, m, &mut self.misused));
            if self.rng.bool() { InstructionV2::DropProof(DropProof { proof_id: p }) } else { InstructionV2::PushToAuthZone(PushToAuthZone { proof_id: p }) }
        } else if r < 51 {
            InstructionV2::CloneProof(CloneProof { proof_id: ManifestProof(pick_id(self.rng, &self.sh.live_proofs(), np, m, &mut self.misused)) })
        } else if r < 56 {
            match self.rng.below(5) {
                0 => InstructionV2::DropNamedProofs(DropNamedProofs), 1 => InstructionV2::DropAllProofs(DropAllProofs),
                2 => InstructionV2::DropAuthZoneProofs(DropAuthZoneProofs), 3 => InstructionV2::DropAuthZoneRegularProofs(DropAuthZoneRegularProofs),
                _ => InstructionV2::DropAuthZoneSignatureProofs(DropAuthZoneSignatureProofs),
            }
        } else if r < 76 {
            let args = self.args(true);
            match self.rng.below(7) {
                0 => InstructionV2::CallFunction(CallFunction {
                    package_address: if self.sh.named > 0 && self.rng.chance(1, 3) || self.rng.chance(m, 300) { let live: Vec<u32> = (0..self.sh.named).collect(); ManifestPackageAddress::Named(ManifestNamedAddress(pick_id(self.rng, &live, self.sh.named, m, &mut self.misused))) } else { ManifestPackageAddress::Static(FAUCET_PACKAGE) },
                    blueprint_name: "B".into(), function_name: "f".into(), args }),
                1 => InstructionV2::CallRoyaltyMethod(CallRoyaltyMethod { address: self.global_addr(), method_name: "m".into(), args }),
                2 => InstructionV2::CallMetadataMethod(CallMetadataMethod { address: self.global_addr(), method_name: "m".into(), args }),
                3 => InstructionV2::CallRoleAssignmentMethod(CallRoleAssignmentMethod { address: self.global_addr(), method_name: "m".into(), args }),
                4 => { let mut b = [0u8; NodeId::LENGTH]; b[0] = EntityType::InternalFungibleVault as u8;
                       InstructionV2::CallDirectVaultMethod(CallDirectVaultMethod { address: InternalAddress::new_or_panic(b), method_name: "m".into(), args }) }
                _ => InstructionV2::CallMethod(CallMethod { address: self.global_addr(), method_name: "m".into(), args }),
            }
        } else if r < 81 {
            InstructionV2::AllocateGlobalAddress(AllocateGlobalAddress { package_address: FAUCET_PACKAGE, blueprint_name: "B".into() })
        } else if r < 91 {
            match self.rng.below(11) {
                0 | 9 | 10 => InstructionV2::AssertWorktopContainsAny(AssertWorktopContainsAny { resource_address: res_addr(true, 1) }),
                1 => InstructionV2::AssertWorktopContains(AssertWorktopContains { resource_address: res_addr(true, 1), amount: if self.rng.chance(1, 5) { dec!("-1") } else { dec!("1") } }),
                2 => InstructionV2::AssertWorktopContainsNonFungibles(AssertWorktopContainsNonFungibles { resource_address: res_addr(self.rng.chance(1, 5), 1), ids: vec![] }),
                3 => InstructionV2::AssertWorktopResourcesOnly(AssertWorktopResourcesOnly { constraints: gen_constraints(self.rng) }),
                4 => InstructionV2::AssertWorktopResourcesInclude(AssertWorktopResourcesInclude { constraints: gen_constraints(self.rng) }),
                5 => InstructionV2::AssertNextCallReturnsOnly(AssertNextCallReturnsOnly { constraints: gen_constraints(self.rng) }),
                6 => InstructionV2::AssertNextCallReturnsInclude(AssertNextCallReturnsInclude { constraints: gen_constraints(self.rng) }),
                _ => InstructionV2::AssertBucketContents(AssertBucketContents { bucket_id: ManifestBucket(pick_id(self.rng, &self.sh.live_buckets(), nb, m, &mut self.misused)), constraint: gen_constraint(self.rng) }),
            }
        } else if r < 95 {
            let allow = self.rng.chance(1, 8);
            let args = self.args(allow);
            if self.children > 0 && !self.rng.chance(m, 100) { InstructionV2::YieldToChild(YieldToChild { child_index: ManifestNamedIntentIndex(self.rng.below(self.children as u64) as u32), args }) }
            else { self.misused = true; InstructionV2::YieldToChild(YieldToChild { child_index: ManifestNamedIntentIndex(self.children + self.rng.below(2) as u32), args }) }
        } else if r < 98 {
            if self.subintent || self.rng.chance(m, 50) { let args = self.args(false); InstructionV2::YieldToParent(YieldToParent { args }) } else { InstructionV2::PopFromAuthZone(PopFromAuthZone) }
        } else if self.subintent || self.rng.chance(m, 50) { InstructionV2::VerifyParent(VerifyParent { access_rule: AccessRule::AllowAll }) } else { InstructionV2::DropAuthZoneProofs(DropAuthZoneProofs) }
    }
}

// ---- direct oracle: plain set replay of the lifecycle ------------------------------------------------
/// Err(description) = the manifest misuses an id / does not end as required
fn replay(ais: &[AI], prealloc: u32, nblobs: u8, children: u32, subintent: bool) -> Result<(), String> {
    let mut lb: BTreeSet<u32> = BTreeSet::new(); let mut nb = 0u32;
    let mut lp: BTreeMap<u32, Option<u32>> = BTreeMap::new(); let mut np = 0u32;
    let mut lr: BTreeSet<u32> = (0..prealloc).collect(); let mut nr = prealloc;
    let mut named = 0u32;
    let mut expecting_call = false;
    let take_bucket = |lb: &mut BTreeSet<u32>, lp: &BTreeMap<u32, Option<u32>>, b: u32| -> Result<(), String> {
        if !lb.contains(&b) { return Err(format!("bucket {} not live", b)); }
        if lp.values().any(|s| *s == Some(b)) { return Err(format!("bucket {} consumed while locked", b)); }
        lb.remove(&b); Ok(())
    };
    for (ix, ai) in ais.iter().enumerate() {
        if expecting_call { if matches!(ai, AI::Invoke(..)) { expecting_call = false } else { return Err(format!("step {}: next-call assertion not followed by an invocation", ix)); } }
        match ai {
            AI::CreateBucket(_) => { lb.insert(nb); nb += 1 }
            AI::CreateProofAZ => { lp.insert(np, None); np += 1 }
            AI::CreateProofBucket(b) => { if !lb.contains(b) { return Err(format!("step {}: proof of dead bucket {}", ix, b)); } lp.insert(np, Some(*b)); np += 1 }
            AI::ConsumeBucket(b) => take_bucket(&mut lb, &lp, *b).map_err(|e| format!("step {}: {}", ix, e))?,
            AI::ConsumeProof(p) => { if lp.remove(p).is_none() { return Err(format!("step {}: proof {} not live", ix, p)); } }
            AI::CloneProof(p) => { match lp.get(p).cloned() { Some(s) => { lp.insert(np, s); np += 1 } None => return Err(format!("step {}: clone of dead proof {}", ix, p)) } }
            AI::DropMany(named_, _) => if *named_ { lp.clear() },
            AI::Invoke(k, args) => {
                match k { Kind::Method(Some(n)) | Kind::Function(Some(n)) => if *n >= named { return Err(format!("step {}: named address {} unknown", ix, n)); },
                          Kind::YieldToChild(c) => if *c >= children { return Err(format!("step {}: child {} not declared", ix, c)); },
                          Kind::YieldToParent => if !subintent { return Err(format!("step {}: yield to parent in a transaction manifest", ix)); }, _ => {} }
                for a in args { match a {
                    Arg::Bucket(b) => take_bucket(&mut lb, &lp, *b).map_err(|e| format!("step {}: {}", ix, e))?,
                    Arg::Proof(p) => { if lp.remove(p).is_none() { return Err(format!("step {}: proof {} not live", ix, p)); } }
                    Arg::Res(r) => { if !lr.remove(r) { return Err(format!("step {}: reservation {} not live", ix, r)); } }
                    Arg::Named(n) => if *n >= named { return Err(format!("step {}: named address {} unknown", ix, n)); },
                    Arg::Blob(h) => if *h >= nblobs { return Err(format!("step {}: blob {} not registered", ix, h)); },
                    Arg::Expr => {} } }
            }
            AI::Allocate => { lr.insert(nr); nr += 1; named += 1 }
            AI::AssertBucket(b, ..) => if !lb.contains(b) { return Err(format!("step {}: assertion on dead bucket {}", ix, b)); },
            _ => {}
        }
    }
    if expecting_call { return Err("ends expecting a call".into()); }
    if !lb.is_empty() { return Err(format!("dangling buckets {:?}", lb)); }
    if !lr.is_empty() { return Err(format!("dangling reservations {:?}", lr)); }
    if subintent && !matches!(ais.last(), Some(AI::Invoke(Kind::YieldToParent, _))) { return Err("subintent does not end with YIELD_TO_PARENT".into()); }
    Ok(())
}


// ---- deterministic scripted family (identical for every seed) ---------------------------------------------
struct Script { class: String, flags: [bool; 6], system: bool, subintent: bool, nblobs: u8, children: u32, prealloc: u32, instrs: Vec<InstructionV2> }
fn scripted() -> Vec<Script> {
    use InstructionV2 as I;
    let fres = || res_addr(true, 1); let nfres = || res_addr(false, 3);
    let take = || I::TakeAllFromWorktop(TakeAllFromWorktop { resource_address: fres() });
    let take_nf = || I::TakeAllFromWorktop(TakeAllFromWorktop { resource_address: nfres() });
    let ret = |b: u32| I::ReturnToWorktop(ReturnToWorktop { bucket_id: ManifestBucket(b) });
    let burn = |b: u32| I::BurnResource(BurnResource { bucket_id: ManifestBucket(b) });
    let pb = |b: u32| I::CreateProofFromBucketOfAll(CreateProofFromBucketOfAll { bucket_id: ManifestBucket(b) });
    let pb_amt = |b: u32| I::CreateProofFromBucketOfAmount(CreateProofFromBucketOfAmount { bucket_id: ManifestBucket(b), amount: dec!("1") });
    let paz = || I::PopFromAuthZone(PopFromAuthZone);
    let dp = |p: u32| I::DropProof(DropProof { proof_id: ManifestProof(p) });
    let push = |p: u32| I::PushToAuthZone(PushToAuthZone { proof_id: ManifestProof(p) });
    let clone = |p: u32| I::CloneProof(CloneProof { proof_id: ManifestProof(p) });
    let drop_all = || I::DropAllProofs(DropAllProofs); let drop_named = || I::DropNamedProofs(DropNamedProofs);
    let drop_az = || I::DropAuthZoneProofs(DropAuthZoneProofs); let drop_az_reg = || I::DropAuthZoneRegularProofs(DropAuthZoneRegularProofs);
    let drop_az_sig = || I::DropAuthZoneSignatureProofs(DropAuthZoneSignatureProofs);
    let b = |x: u32| custom(ManifestCustomValue::Bucket(ManifestBucket(x)));
    let pf = |x: u32| custom(ManifestCustomValue::Proof(ManifestProof(x)));
    let rv = |x: u32| custom(ManifestCustomValue::AddressReservation(ManifestAddressReservation(x)));
    let na = |x: u32| custom(ManifestCustomValue::Address(ManifestAddress::Named(ManifestNamedAddress(x))));
    let bl = |x: u8| custom(ManifestCustomValue::Blob(ManifestBlobRef(blob_hash(x).0)));
    let ex = || custom(ManifestCustomValue::Expression(ManifestExpression::EntireWorktop));
    let tup = |v: Vec<ManifestValue>| ManifestValue::Tuple { fields: v };
    let call = |v: Vec<ManifestValue>| I::CallMethod(CallMethod { address: ManifestGlobalAddress::Static(comp_addr(2).into()), method_name: "m".into(), args: ManifestValue::Tuple { fields: v } });
    let call_named = |n: u32, v: Vec<ManifestValue>| I::CallMethod(CallMethod { address: ManifestGlobalAddress::Named(ManifestNamedAddress(n)), method_name: "m".into(), args: ManifestValue::Tuple { fields: v } });
    let callf_named = |n: u32| I::CallFunction(CallFunction { package_address: ManifestPackageAddress::Named(ManifestNamedAddress(n)), blueprint_name: "B".into(), function_name: "f".into(), args: ManifestValue::Tuple { fields: vec![] } });
    let call_vault = |v: Vec<ManifestValue>| { let mut x = [0u8; NodeId::LENGTH]; x[0] = EntityType::InternalFungibleVault as u8; I::CallDirectVaultMethod(CallDirectVaultMethod { address: InternalAddress::new_or_panic(x), method_name: "m".into(), args: ManifestValue::Tuple { fields: v } }) };
    let alloc = || I::AllocateGlobalAddress(AllocateGlobalAddress { package_address: FAUCET_PACKAGE, blueprint_name: "B".into() });
    let yp = |v: Vec<ManifestValue>| I::YieldToParent(YieldToParent { args: ManifestValue::Tuple { fields: v } });
    let yc = |i: u32, v: Vec<ManifestValue>| I::YieldToChild(YieldToChild { child_index: ManifestNamedIntentIndex(i), args: ManifestValue::Tuple { fields: v } });
    let vp = || I::VerifyParent(VerifyParent { access_rule: AccessRule::AllowAll });
    let valid_cs = || ManifestResourceConstraints::new().with_unchecked(fres(), ManifestResourceConstraint::NonZeroAmount);
    let invalid_cs = || ManifestResourceConstraints::new().with_unchecked(fres(), ManifestResourceConstraint::ExactAmount(dec!("-1")));
    let anc = |ok: bool| I::AssertNextCallReturnsOnly(AssertNextCallReturnsOnly { constraints: if ok { valid_cs() } else { invalid_cs() } });
    let anci = |ok: bool| I::AssertNextCallReturnsInclude(AssertNextCallReturnsInclude { constraints: if ok { valid_cs() } else { invalid_cs() } });
    let awo = |ok: bool| I::AssertWorktopResourcesOnly(AssertWorktopResourcesOnly { constraints: if ok { valid_cs() } else { invalid_cs() } });
    let awc = |neg: bool| I::AssertWorktopContains(AssertWorktopContains { resource_address: fres(), amount: if neg { dec!("-0.000000000000000001") } else { dec!("0") } });
    let awnf = |fung: bool| I::AssertWorktopContainsNonFungibles(AssertWorktopContainsNonFungibles { resource_address: if fung { fres() } else { nfres() }, ids: vec![] });
    let abc = |x: u32, c: ManifestResourceConstraint| I::AssertBucketContents(AssertBucketContents { bucket_id: ManifestBucket(x), constraint: c });
    let half = || ManifestResourceConstraint::ExactAmount(dec!("0.5"));
    let exact_ids = || ManifestResourceConstraint::ExactNonFungibles(indexset!(NonFungibleLocalId::integer(1)));
    // (class, kind: 0 transaction / 1 subintent / 2 system, nblobs, children, prealloc, instructions)
    let base: Vec<(&str, u8, u8, u32, u32, Vec<I>)> = vec![
        ("empty_transaction", 0, 0, 0, 0, vec![]),
        ("lock_drop_all_return", 0, 0, 0, 0, vec![take(), pb(0), drop_all(), ret(0)]),
        ("lock_drop_named_return", 0, 0, 0, 0, vec![take(), pb_amt(0), drop_named(), ret(0)]),
        ("lock_drop_authzone_return", 0, 0, 0, 0, vec![take(), pb(0), drop_az(), ret(0)]),
        ("lock_drop_authzone_regular_return", 0, 0, 0, 0, vec![take(), pb(0), drop_az_reg(), ret(0)]),
        ("lock_drop_authzone_signature_return", 0, 0, 0, 0, vec![take(), pb(0), drop_az_sig(), ret(0)]),
        ("lock_return", 0, 0, 0, 0, vec![take(), pb(0), ret(0)]),
        ("lock_burn", 0, 0, 0, 0, vec![take(), pb(0), burn(0)]),
        ("lock_drop_proof_return", 0, 0, 0, 0, vec![take(), pb(0), dp(0), ret(0)]),
        ("lock_push_return", 0, 0, 0, 0, vec![take(), pb(0), push(0), burn(0)]),
        ("lock_clone_drop_one_return", 0, 0, 0, 0, vec![take(), pb(0), clone(0), dp(0), ret(0)]),
        ("lock_clone_drop_other_return", 0, 0, 0, 0, vec![take(), pb(0), clone(0), dp(1), ret(0)]),
        ("lock_clone_drop_both_return", 0, 0, 0, 0, vec![take(), pb(0), clone(0), dp(0), dp(1), ret(0)]),
        ("lock_clone_of_clone_drop_all", 0, 0, 0, 0, vec![take(), pb(0), clone(0), clone(1), drop_all(), ret(0)]),
        ("lock_two_proofs_drop_named_twice", 0, 0, 0, 0, vec![take(), pb(0), pb(0), drop_named(), drop_named(), ret(0)]),
        ("locks_independent_buckets", 0, 0, 0, 0, vec![take(), take(), pb(0), ret(1), dp(0), ret(0)]),
        ("locks_other_bucket_locked", 0, 0, 0, 0, vec![take(), take(), pb(1), ret(0), ret(1)]),
        ("authzone_proof_does_not_lock", 0, 0, 0, 0, vec![take(), paz(), ret(0)]),
        ("proof_in_call_releases_lock", 0, 0, 0, 0, vec![take(), pb(0), call(vec![pf(0)]), ret(0)]),
        ("proof_in_nested_arg_releases_lock", 0, 0, 0, 0, vec![take(), pb(0), call_vault(vec![tup(vec![ManifestValue::U8 { value: 1 }, tup(vec![pf(0)])])]), ret(0)]),
        ("bucket_in_call_while_locked", 0, 0, 0, 0, vec![take(), pb(0), call(vec![b(0)])]),
        ("proof_then_its_bucket_in_same_call", 0, 0, 0, 0, vec![take(), pb(0), call(vec![pf(0), b(0)])]),
        ("bucket_then_its_proof_in_same_call", 0, 0, 0, 0, vec![take(), pb(0), call(vec![b(0), pf(0)])]),
        ("bucket_with_expression_in_call", 0, 0, 0, 0, vec![take(), call(vec![ex(), b(0)])]),
        ("expression_then_return_consumed", 0, 0, 0, 0, vec![take(), call(vec![b(0), ex()]), ret(0)]),
        ("expression_only_leaves_bucket", 0, 0, 0, 0, vec![take(), call(vec![ex()])]),
        ("bucket_twice_in_args", 0, 0, 0, 0, vec![take(), call(vec![b(0), b(0)])]),
        ("proof_twice_in_args", 0, 0, 0, 0, vec![paz(), call(vec![pf(0), pf(0)])]),
        ("bucket_never_created_0", 0, 0, 0, 0, vec![ret(0)]),
        ("bucket_never_created_next", 0, 0, 0, 0, vec![take(), ret(1)]),
        ("bucket_double_return", 0, 0, 0, 0, vec![take(), ret(0), ret(0)]),
        ("bucket_return_then_burn", 0, 0, 0, 0, vec![take(), ret(0), burn(0)]),
        ("proof_of_consumed_bucket", 0, 0, 0, 0, vec![take(), ret(0), pb(0)]),
        ("proof_of_unknown_bucket", 0, 0, 0, 0, vec![pb(0)]),
        ("clone_consumed_proof", 0, 0, 0, 0, vec![paz(), dp(0), clone(0)]),
        ("clone_unknown_proof", 0, 0, 0, 0, vec![paz(), clone(1)]),
        ("drop_proof_twice", 0, 0, 0, 0, vec![paz(), dp(0), dp(0)]),
        ("push_after_drop_all", 0, 0, 0, 0, vec![paz(), drop_all(), push(0)]),
        ("drop_after_drop_named", 0, 0, 0, 0, vec![paz(), drop_named(), dp(0)]),
        ("drop_after_drop_authzone_ok", 0, 0, 0, 0, vec![paz(), drop_az(), dp(0)]),
        ("drop_all_without_proofs", 0, 0, 0, 0, vec![drop_all(), drop_named(), drop_az()]),
        ("new_proof_after_drop_all_gets_next_id", 0, 0, 0, 0, vec![paz(), drop_all(), paz(), dp(1)]),
        ("dangling_bucket", 0, 0, 0, 0, vec![take()]),
        ("dangling_second_bucket", 0, 0, 0, 0, vec![take(), take(), ret(0)]),
        ("dangling_proof_is_fine", 0, 0, 0, 0, vec![paz()]),
        ("dangling_reservation", 0, 0, 0, 0, vec![alloc()]),
        ("reservation_consumed", 0, 0, 0, 0, vec![alloc(), call(vec![rv(0)])]),
        ("reservation_twice", 0, 0, 0, 0, vec![alloc(), call(vec![rv(0)]), call(vec![rv(0)])]),
        ("reservation_unknown", 0, 0, 0, 0, vec![call(vec![rv(0)])]),
        ("reservation_second_dangling", 0, 0, 0, 0, vec![alloc(), alloc(), call(vec![rv(0)])]),
        ("named_address_in_command", 0, 0, 0, 0, vec![alloc(), call_named(0, vec![rv(0)])]),
        ("named_address_in_command_unknown", 0, 0, 0, 0, vec![call_named(0, vec![])]),
        ("named_address_in_command_next", 0, 0, 0, 0, vec![alloc(), call_named(1, vec![rv(0)])]),
        ("named_package_in_command_unknown", 0, 0, 0, 0, vec![callf_named(0)]),
        ("named_address_in_args_unknown", 0, 0, 0, 0, vec![call(vec![na(0)])]),
        ("named_address_in_args_next", 0, 0, 0, 0, vec![alloc(), call(vec![na(1), rv(0)])]),
        ("named_address_in_args_ok", 0, 0, 0, 0, vec![alloc(), call(vec![na(0), rv(0)])]),
        ("blob_registered_last", 0, 2, 0, 0, vec![call(vec![bl(1)])]),
        ("blob_not_registered_next", 0, 2, 0, 0, vec![call(vec![bl(2)])]),
        ("blob_none_registered", 0, 0, 0, 0, vec![call(vec![bl(0)])]),
        ("yield_child_last_index", 0, 0, 2, 0, vec![yc(1, vec![])]),
        ("yield_child_index_eq_count", 0, 0, 2, 0, vec![yc(2, vec![])]),
        ("yield_child_no_children", 0, 0, 0, 0, vec![yc(0, vec![])]),
        ("yield_child_with_bucket", 0, 0, 1, 0, vec![take(), yc(0, vec![b(0)])]),
        ("yield_child_with_proof", 0, 0, 1, 0, vec![paz(), yc(0, vec![pf(0)])]),
        ("yield_child_with_unknown_proof", 0, 0, 1, 0, vec![yc(0, vec![pf(0)])]),
        ("yield_child_with_locked_bucket", 0, 0, 1, 0, vec![take(), pb(0), yc(0, vec![b(0)])]),
        ("subintent_empty", 1, 0, 0, 0, vec![]),
        ("subintent_only_yield", 1, 0, 0, 0, vec![yp(vec![])]),
        ("subintent_yield_not_last", 1, 0, 0, 0, vec![yp(vec![]), paz()]),
        ("subintent_two_yields", 1, 0, 0, 0, vec![yp(vec![]), yp(vec![])]),
        ("subintent_ends_with_yield_child", 1, 0, 1, 0, vec![yc(0, vec![])]),
        ("subintent_verify_parent", 1, 0, 0, 0, vec![vp(), yp(vec![])]),
        ("subintent_yield_with_bucket", 1, 0, 0, 0, vec![take(), yp(vec![b(0)])]),
        ("subintent_yield_with_proof", 1, 0, 0, 0, vec![paz(), yp(vec![pf(0)])]),
        ("subintent_dangling_bucket_before_yield", 1, 0, 0, 0, vec![take(), yp(vec![])]),
        ("transaction_yield_to_parent", 0, 0, 0, 0, vec![yp(vec![])]),
        ("transaction_verify_parent", 0, 0, 0, 0, vec![vp()]),
        ("next_call_then_call", 0, 0, 0, 0, vec![anc(true), call(vec![])]),
        ("next_call_include_then_vault_call", 0, 0, 0, 0, vec![anci(true), call_vault(vec![])]),
        ("next_call_then_yield_child", 0, 0, 1, 0, vec![anc(true), yc(0, vec![])]),
        ("next_call_then_non_invocation", 0, 0, 0, 0, vec![anc(true), paz()]),
        ("next_call_then_assertion", 0, 0, 0, 0, vec![anc(true), anc(true), call(vec![])]),
        ("next_call_at_end", 0, 0, 0, 0, vec![call(vec![]), anc(true)]),
        ("next_call_invalid_constraints", 0, 0, 0, 0, vec![anc(false), call(vec![])]),
        ("next_call_then_failing_call", 0, 0, 0, 0, vec![anc(true), call(vec![b(0)])]),
        ("subintent_next_call_then_yield", 1, 0, 0, 0, vec![anc(true), yp(vec![])]),
        ("assert_worktop_valid", 0, 0, 0, 0, vec![awo(true), awc(false), awnf(false)]),
        ("assert_worktop_invalid_constraints", 0, 0, 0, 0, vec![awo(false)]),
        ("assert_worktop_negative_amount", 0, 0, 0, 0, vec![awc(true)]),
        ("assert_worktop_ids_on_fungible", 0, 0, 0, 0, vec![awnf(true)]),
        ("assert_bucket_valid_fungible", 0, 0, 0, 0, vec![take(), abc(0, half()), ret(0)]),
        ("assert_bucket_fraction_on_non_fungible", 0, 0, 0, 0, vec![take_nf(), abc(0, half()), ret(0)]),
        ("assert_bucket_ids_on_fungible", 0, 0, 0, 0, vec![take(), abc(0, exact_ids()), ret(0)]),
        ("assert_bucket_ids_on_non_fungible", 0, 0, 0, 0, vec![take_nf(), abc(0, exact_ids()), ret(0)]),
        ("assert_bucket_consumed", 0, 0, 0, 0, vec![take(), ret(0), abc(0, half())]),
        ("assert_bucket_unknown", 0, 0, 0, 0, vec![abc(0, half())]),
        ("assert_bucket_locked_is_fine", 0, 0, 0, 0, vec![take(), pb(0), abc(0, half()), drop_all(), ret(0)]),
        ("system_preallocated_consumed", 2, 0, 0, 2, vec![call(vec![rv(0), rv(1)])]),
        ("system_preallocated_dangling_first", 2, 0, 0, 2, vec![call(vec![rv(1)])]),
        ("system_preallocated_dangling_all", 2, 0, 0, 1, vec![]),
        ("system_preallocated_next_unknown", 2, 0, 0, 1, vec![call(vec![rv(1)])]),
        ("system_allocate_after_preallocated", 2, 0, 0, 1, vec![alloc(), call(vec![rv(0), rv(1)])]),
    ];
    let mut out = vec![];
    for (class, kind, nblobs, children, prealloc, instrs) in base {
        for variant in 0..7usize {
            let mut flags = [true; 6];
            if variant > 0 { flags[variant - 1] = false; }
            out.push(Script { class: format!("s_{}__{}", class, ["all", "no_dup_blobs", "no_blob_refs", "no_lock", "no_dangling", "no_dyn_addr", "no_assert"][variant]),
                flags, system: kind == 2, subintent: kind == 1, nblobs, children, prealloc, instrs: instrs.clone() });
        }
    }
    out
}

fn main() {
    let args = Args::parse();
    let mut report = Report::new(
        "C36", args.seed,
        "random InstructionV2 sequences (len 0..40, every instruction kind, nested argument values with buckets/proofs/reservations/named addresses/blobs/\
         expressions) generated against a shadow id state so that most uses are live, with 0-8% deliberate misuse per id (consumed / never created / locked \
         bucket / undeclared child / unregistered blob), optional clean-up tail; transaction, subintent and system (preallocated addresses) manifests; \
         rulesets all / babylon_equivalent / random flags. non-trivial = at least 6 instructions; distinct by canonical instruction text",
    );
    let mut cw = CaseWriter::new("RV.Corr.C36_run RV.Model.C36_ManifestIds", "check");
    let root = Rng::new(args.seed);
    let scripts = scripted();
    let mut script_classes: Vec<String> = vec![];
    for i in 0..args.cases.max(scripts.len()) {
        let mut rng = root.fork(i as u64);
        let script = scripts.get(i);
        if let Some(sc) = script { report.count(&sc.class); script_classes.push(sc.class.clone()); }
        let flags: [bool; 6] = if let Some(sc) = script { sc.flags } else { match rng.below(20) { 0..=11 => [true; 6], 12..=14 => [false, false, true, false, false, false], _ => [rng.bool(), rng.bool(), rng.bool(), rng.bool(), rng.bool(), rng.bool()] } };
        let ruleset = || ValidationRuleset { validate_no_duplicate_blobs: flags[0], validate_blob_refs: flags[1], validate_bucket_proof_lock: flags[2],
            validate_no_dangling_nodes: flags[3], validate_dynamic_address_in_command_part: flags[4], validate_resource_assertions: flags[5] };
        let all_rules = flags.iter().all(|f| *f);
        let system = if let Some(sc) = script { sc.system } else { i % 9 == 8 };
        let subintent = if let Some(sc) = script { sc.subintent } else { !system && rng.chance(1, 3) };
        let nblobs = if let Some(sc) = script { sc.nblobs } else { rng.below(3) as u8 };
        let children = if let Some(sc) = script { sc.children } else if system { 0 } else { rng.below(3) as u32 };
        let prealloc = if let Some(sc) = script { sc.prealloc } else if system { rng.below(3) as u32 } else { 0 };
        let misuse = *rng.pick(&[0u64, 0, 1, 3, 8]);
        let len = if script.is_some() { 0 } else if i % 7 == 0 { rng.below(5) } else { rng.range(4, 40) } as usize;
        let mut g = Gen { rng: &mut rng, sh: Shadow { buckets: vec![], proofs: vec![], res: vec![true; prealloc as usize], named: 0 }, misuse, misused: false, nblobs, children, subintent };
        let mut instrs: Vec<InstructionV2> = vec![];
        for _ in 0..len {
            let ins = if system { // system manifests use InstructionV1 kinds only
                loop { let c = g.instruction(); if InstructionV1::try_from(AnyInstruction::from(c.clone())).is_ok() { break c; } }
            } else { g.instruction() };
            let ai = abstract_effect(ins.effect());
            g.apply(&ai);
            instrs.push(ins);
        }
        // clean-up tail (mostly): drop proofs, return buckets, pass reservations, yield
        let cleanup = script.is_none() && g.rng.chance(4, 5);
        if cleanup {
            if !g.sh.live_proofs().is_empty() { instrs.push(InstructionV2::DropAllProofs(DropAllProofs)); g.apply(&AI::DropMany(true, true)); }
            for b in g.sh.live_buckets() { instrs.push(InstructionV2::ReturnToWorktop(ReturnToWorktop { bucket_id: ManifestBucket(b) })); }
            let rs = g.sh.live_res();
            if !rs.is_empty() {
                instrs.push(InstructionV2::CallMethod(CallMethod { address: ManifestGlobalAddress::Static(comp_addr(2).into()), method_name: "m".into(),
                    args: ManifestValue::Tuple { fields: rs.iter().map(|r| custom(ManifestCustomValue::AddressReservation(ManifestAddressReservation(*r)))).collect() } }));
            }
            if subintent && g.rng.chance(9, 10) { instrs.push(InstructionV2::YieldToParent(YieldToParent::empty())); }
        }
        let misused = g.misused;
        if let Some(sc) = script { instrs = sc.instrs.clone(); }
        let blobs: IndexMap<Hash, Vec<u8>> = (0..nblobs).map(|k| (blob_hash(k), vec![k])).collect();
        let child_set: IndexSet<ChildSubintentSpecifier> = (0..children).map(|k| ChildSubintentSpecifier { hash: SubintentHash(hash([9, k as u8])) }).collect();
        // ---- run the real interpreter ----
        let (ais, result): (Vec<AI>, Result<Result<(), ManifestValidationError>, String>) = if system {
            let v1: Vec<InstructionV1> = instrs.iter().map(|x| InstructionV1::try_from(AnyInstruction::from(x.clone())).unwrap()).collect();
            let m = SystemTransactionManifestV1 { instructions: v1, blobs: blobs.clone(),
                preallocated_addresses: (0..prealloc).map(|k| PreAllocatedAddress { blueprint_id: BlueprintId::new(&FAUCET_PACKAGE, "B"), address: comp_addr(10 + k as u8).into() }).collect(),
                object_names: ManifestObjectNames::Unknown };
            let ais = m.iter_instruction_effects().map(abstract_effect).collect();
            let rs = ruleset();
            (ais, catch(std::panic::AssertUnwindSafe(|| StaticManifestInterpreter::new(rs, &m).validate())))
        } else {
            let m = EphemeralManifest::new(&instrs, &blobs, &child_set, subintent);
            let ais = m.iter_instruction_effects().map(abstract_effect).collect();
            let rs = ruleset();
            (ais, catch(std::panic::AssertUnwindSafe(|| StaticManifestInterpreter::new(rs, &m).validate())))
        };
        let res_coq = match &result { Ok(Ok(())) => "Ok tt".to_string(), Ok(Err(e)) => format!("Err ({})", err_coq(e)), Err(_) => "Panic".to_string() };
        let canon = coq_list(ais.iter().map(ai_coq));
        report.case(&format!("{}{:?}{}{}{}", canon, flags, subintent, nblobs, children), ais.len() >= 6);
        report.count(match &result { Ok(Ok(())) => "accepted", Ok(Err(_)) => "rejected", Err(_) => "panicked" });
        if let Ok(Err(e)) = &result { report.count(&format!("err_{}", err_coq(e).split(' ').next().unwrap())); }
        report.count(if all_rules { "ruleset_all" } else { "ruleset_other" });
        report.count(if system { "kind_system" } else if subintent { "kind_subintent" } else { "kind_transaction" });
        if misused { report.count("with_misuse"); }
        report.count_n("instructions", ais.len() as u64);
        // ---- oracle ----
        let input = json!({"instructions": ais.iter().map(ai_coq).collect::<Vec<_>>(), "flags": flags, "subintent": subintent, "blobs": nblobs, "children": children, "prealloc": prealloc});
        match &result {
            Err(p) => report.oracle_failure(i, "", &format!("StaticManifestInterpreter panicked: {}", p), input.clone()),
            Ok(Ok(())) => {
                let rp = replay(&ais, prealloc, nblobs, children, subintent);
                if all_rules {
                    if let Err(what) = rp { report.oracle_failure(i, "", &format!("accepted by static validation (all rules) but the lifecycle replay fails: {}", what), input.clone()); }
                    report.count("accepted_all_rules");
                } else if flags[2] && flags[4] && flags[1] {
                    // bucket/proof/reservation part must hold whenever the lock, address and blob checks are on (dangling / end checks may be off)
                    if let Err(what) = rp { if what.starts_with("step") && !(what.contains("assertion on dead bucket") && !flags[5]) { report.oracle_failure(i, "", &format!("accepted but the lifecycle replay fails: {}", what), input.clone()); } }
                }
            }
            Ok(Err(e)) => {
                if all_rules && replay(&ais, prealloc, nblobs, children, subintent).is_ok() && !matches!(e, ManifestValidationError::InvalidResourceConstraint | ManifestValidationError::ProofCannotBePassedToAnotherIntent | ManifestValidationError::InstructionNotSupportedInTransactionIntent) {
                    report.count("rejected_although_replay_ok"); // completeness is not part of the property; counted only
                }
            }
        }
        if i < 3 { report.sample(json!({"instructions": ais.iter().take(20).map(ai_coq).collect::<Vec<_>>(), "result": res_coq})); }
        cw.push(format!(
            "(mkRuleset {} {} {} {} {} {}, mkManifest {} {} {} {} {}, {})",
            coq_bool(flags[0]), coq_bool(flags[1]), coq_bool(flags[2]), coq_bool(flags[3]), coq_bool(flags[4]), coq_bool(flags[5]),
            coq_bool(subintent), prealloc, children, coq_list((0..nblobs).map(|k| format!("{}", k))), canon, res_coq
        ));
    }
    for c in &script_classes { report.floor(c, 1); }
    // every error kind of the interpreter's id machine is produced by the scripted family
    for e in ["EBlobNotRegistered", "EBucketNotYetCreated", "EBucketAlreadyUsed", "EBucketLocked", "EProofNotYetCreated", "EProofAlreadyUsed", "EResNotYetCreated", "EResAlreadyUsed", "ENamedNotYetCreated", "EChildNotRegistered", "EDanglingBucket", "EDanglingRes", "ENotSupportedInTxIntent", "ESubintentEnd", "EProofToOtherIntent", "EInvalidConstraint", "ENextCallNotInvocation", "EEndedExpectingNextCall"] { report.floor(&format!("err_{}", e), 1); }
    let n = args.cases as u64;
    report.floor("accepted", n / 10);
    report.floor("rejected", n / 10);
    report.floor("accepted_all_rules", n / 20);
    report.floor("kind_subintent", n / 10);
    cw.write(&args.out, args.shards).unwrap();
    report.write(&args.out).unwrap();
}
