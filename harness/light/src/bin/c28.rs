//! C28 correspondence harness: Bech32m address text form (AddressBech32Encoder/Decoder, HrpSet,
//! bech32 0.9.1 bit regrouping) and NonFungibleLocalId / NonFungibleGlobalId text forms.
//! Writes the calls and canonicalised results as Coq cases (models: coq/Model/C28_Bech32.v,
//! C28_LocalId.v) and evaluates the property directly: round trips, rejection on other networks
//! and under transplanted HRPs, decode-then-encode canonicity, canonical integers, no panics.
use bech32::{FromBase32, ToBase32, Variant};
use radix_common::address::{AddressBech32DecodeError, AddressBech32Decoder, AddressBech32EncodeError, AddressBech32Encoder};
use radix_common::network::NetworkDefinition;
use radix_common::prelude::*;
use radix_common::types::EntityType;
use serde_json::json;
use std::borrow::Cow;
use std::panic::AssertUnwindSafe;
use std::str::FromStr;
use vh_common::*;

fn net(suffix: &str) -> NetworkDefinition {
    NetworkDefinition { id: 7, logical_name: Cow::Owned("x".into()), hrp_suffix: Cow::Owned(suffix.to_string()) }
}

fn b32_err(e: &bech32::Error) -> &'static str {
    match e {
        bech32::Error::MissingSeparator => "MissingSeparator",
        bech32::Error::InvalidChecksum => "InvalidChecksum",
        bech32::Error::InvalidLength => "InvalidLength",
        bech32::Error::InvalidChar(_) => "InvalidChar",
        bech32::Error::InvalidData(_) => "InvalidData",
        bech32::Error::InvalidPadding => "InvalidPadding",
        bech32::Error::MixedCase => "MixedCase",
    }
}
fn enc_res_coq(r: &Result<Result<String, AddressBech32EncodeError>, String>) -> String {
    match r {
        Err(_) => "Panic".into(),
        Ok(Ok(s)) => format!("(Ok {})", coq_bytes(s.as_bytes())),
        Ok(Err(AddressBech32EncodeError::Bech32mEncodingError(e))) => format!("(Err (EncBech32 {}))", b32_err(e)),
        Ok(Err(AddressBech32EncodeError::FormatError(_))) => "(Err EncFormat)".into(), // not in the model: would disagree
        Ok(Err(AddressBech32EncodeError::MissingEntityTypeByte)) => "(Err EncMissingEntityTypeByte)".into(),
        Ok(Err(AddressBech32EncodeError::InvalidEntityTypeId(_))) => "(Err EncInvalidEntityTypeId)".into(),
    }
}
fn dec_res_coq(r: &Result<Result<(EntityType, Vec<u8>), AddressBech32DecodeError>, String>) -> String {
    match r {
        Err(_) => "Panic".into(),
        Ok(Ok((et, d))) => format!("(Ok ({}, {}))", *et as u8, coq_bytes(d)),
        Ok(Err(AddressBech32DecodeError::MissingEntityTypeByte)) => "(Err DecMissingEntityTypeByte)".into(),
        Ok(Err(AddressBech32DecodeError::Bech32mEncodingError(e))) => format!("(Err (DecBech32 {}))", b32_err(e)),
        Ok(Err(AddressBech32DecodeError::Bech32mDecodingError(e))) => format!("(Err (DecBech32 {}))", b32_err(e)),
        Ok(Err(AddressBech32DecodeError::InvalidVariant(_))) => "(Err DecInvalidVariant)".into(),
        Ok(Err(AddressBech32DecodeError::InvalidEntityTypeId(_))) => "(Err DecInvalidEntityTypeId)".into(),
        Ok(Err(AddressBech32DecodeError::InvalidHrp)) => "(Err DecInvalidHrp)".into(),
    }
}

struct Cx<'a> {
    report: &'a mut Report,
    cw: &'a mut CaseWriter,
    i: usize,
    entity_bytes: Vec<u8>,
}
impl<'a> Cx<'a> {
    fn push(&mut self, canon: String, nontrivial: bool) {
        self.report.case(&canon, nontrivial);
        self.cw.push(canon);
    }
    fn fail(&mut self, what: String, input: serde_json::Value) {
        self.report.oracle_failure(self.i, "", &what, input);
    }
    fn encode(&mut self, suffix: &str, data: &[u8]) -> Option<String> {
        let enc = AddressBech32Encoder::new(&net(suffix));
        let r = catch(AssertUnwindSafe(|| enc.encode(data)));
        self.push(format!("KEncode {} {} {}", coq_bytes(suffix.as_bytes()), coq_bytes(data), enc_res_coq(&r)), matches!(r, Ok(Ok(_))));
        match r {
            Err(_) => {
                self.fail(format!("encode panicked (suffix {:?}, data {})", suffix, hex(data)), json!({"op":"encode","suffix":suffix,"data":hex(data)}));
                None
            }
            Ok(Ok(s)) => {
                self.report.count("encode_ok");
                Some(s)
            }
            Ok(Err(_)) => {
                self.report.count("encode_err");
                None
            }
        }
    }
    fn decode(&mut self, suffix: &str, s: &str) -> Option<Result<(EntityType, Vec<u8>), AddressBech32DecodeError>> {
        let dec = AddressBech32Decoder::new(&net(suffix));
        let r = catch(AssertUnwindSafe(|| dec.validate_and_decode(s)));
        self.push(format!("KDecode {} {} {}", coq_bytes(suffix.as_bytes()), coq_bytes(s.as_bytes()), dec_res_coq(&r)), true);
        match r {
            Err(_) => {
                self.fail(format!("decode panicked on {:?} (suffix {:?})", s, suffix), json!({"op":"decode","suffix":suffix,"string":s}));
                None
            }
            Ok(x) => {
                match &x {
                    Ok((_, data)) => {
                        self.report.count("decode_ok");
                        // canonicity: what decodes re-encodes to the same text (up to case)
                        let enc = AddressBech32Encoder::new(&net(suffix));
                        if enc.encode(data).ok() != Some(s.to_lowercase()) {
                            self.fail(format!("decode accepted {:?} but re-encoding gives a different text", s), json!({"op":"decode_encode","suffix":suffix,"string":s}));
                        }
                    }
                    Err(e) => self.report.count(&format!("decode_err_{}", dec_res_coq(&Ok(Err(e.clone()))).replace(['(', ')'], "").replace(' ', "_"))),
                }
                Some(x)
            }
        }
    }
}

fn gen_suffix(rng: &mut Rng) -> String {
    match rng.below(20) {
        0..=3 => "rdx".into(),
        4..=6 => "tdx_2_".into(),
        7..=9 => "sim".into(),
        10 => "loc".into(),
        11 => "tdx_e_".into(),
        12..=15 => {
            let n = rng.range(0, 10) as usize;
            (0..n).map(|_| *rng.pick(&['a', 'b', 'z', 'q', '0', '1', '2', '9', '_', 'x', 'd', 't'])).collect()
        }
        16 => {
            // unusual but syntactically possible suffixes
            rng.pick(&["", "1", "a1b", "x:y", "~", "!", "net-7", "RDX", "Sim", "é", "a b", "\u{7f}"]).to_string()
        }
        17 => "z".repeat(rng.range(50, 80) as usize),
        _ => {
            let n = rng.range(1, 6) as usize;
            (0..n).map(|_| (b'a' + rng.below(26) as u8) as char).collect()
        }
    }
}

fn gen_data(rng: &mut Rng, entity_bytes: &[u8]) -> Vec<u8> {
    let k = rng.below(100);
    let first = if k < 92 { *rng.pick(entity_bytes) } else { rng.next_u64() as u8 };
    let len = if k < 80 { 29 } else { rng.range(0, 45) as usize };
    let mut d = vec![first];
    let body = match rng.below(6) {
        0 => vec![0u8; len],
        1 => vec![0xffu8; len],
        _ => rng.bytes(len),
    };
    d.extend(body);
    if rng.chance(1, 60) {
        d.clear();
    }
    d
}

const CHARSET: &[u8] = b"qpzry9x8gf2tvdw0s3jn54khce6mua7l";

fn do_address(cx: &mut Cx, rng: &mut Rng) {
    let suffix = gen_suffix(rng);
    let data = gen_data(rng, &cx.entity_bytes.clone());
    // bit regrouping, directly on the crate
    let u5s = data.to_base32();
    cx.push(format!("KToBase32 {} {}", coq_bytes(&data), coq_bytes(&u5s.iter().map(|x| x.to_u8()).collect::<Vec<_>>())), true);
    match Vec::<u8>::from_base32(&u5s) {
        Ok(back) if back == data => {}
        other => cx.fail(format!("from_base32(to_base32({})) = {:?}", hex(&data), other), json!({"op":"bits","data":hex(&data)})),
    }
    let s = match cx.encode(&suffix, &data) {
        Some(s) => s,
        None => return,
    };
    // same network: lossless
    match cx.decode(&suffix, &s) {
        Some(Ok((et, d))) if d == data && et as u8 == data[0] => {}
        other => cx.fail(format!("decode(encode(data)) on the same network = {:?}", other), json!({"op":"roundtrip","suffix":suffix,"data":hex(&data),"string":s})),
    }
    // another network: rejected
    let other = loop {
        let o = gen_suffix(rng);
        if o != suffix {
            break o;
        }
    };
    if let Some(Ok(_)) = cx.decode(&other, &s) {
        cx.fail(format!("address {:?} of network suffix {:?} accepted by network suffix {:?}", s, suffix, other), json!({"op":"other_network","suffix":suffix,"other":other,"string":s}));
    }
    cx.report.count("other_network_checked");
    // mutations
    let chars: Vec<char> = s.chars().collect();
    let sep = s.rfind('1').unwrap();
    match rng.below(10) {
        0 | 1 | 2 => {
            // one character replaced
            let mut c = chars.clone();
            let pos = rng.usize_below(c.len());
            let newc = match rng.below(6) {
                0 | 1 | 2 => CHARSET[rng.usize_below(32)] as char,
                3 => *rng.pick(&['1', 'b', 'i', 'o', 'B', 'Q', ' ', '_', ':', '\u{7f}', '!']),
                4 => *rng.pick(&['é', 'ß', '€', '１', '𝟙']),
                _ => c[pos].to_ascii_uppercase(),
            };
            if newc != c[pos] {
                c[pos] = newc;
                let m: String = c.into_iter().collect();
                cx.report.count("mutation_substitution");
                if let Some(Ok((_, d))) = cx.decode(&suffix, &m) {
                    if m.to_lowercase() != s {
                        cx.fail(format!("single-character mutation {:?} of {:?} accepted (data {})", m, s, hex(&d)), json!({"op":"mutation","suffix":suffix,"string":m}));
                    }
                }
            }
        }
        3 => {
            cx.report.count("mutation_uppercase_all");
            let m = s.to_uppercase();
            match cx.decode(&suffix, &m) {
                Some(Ok((_, d))) if d == data => {}
                Some(Err(_)) if s.chars().any(|c| !c.is_ascii()) || m.to_lowercase() != s => {}
                other => cx.fail(format!("all-uppercase form {:?} = {:?}", m, other), json!({"op":"uppercase","suffix":suffix,"string":m})),
            }
        }
        4 => {
            cx.report.count("mutation_truncate_or_extend");
            let m: String = match rng.below(4) {
                0 => chars[..rng.usize_below(chars.len())].iter().collect(),
                1 => format!("{}{}", s, CHARSET[rng.usize_below(32)] as char),
                2 => chars[rng.usize_below(chars.len())..].iter().collect(),
                _ => format!("{}1", &s[..sep]),
            };
            if let Some(Ok(_)) = cx.decode(&suffix, &m) {
                if m != s {
                    cx.fail(format!("truncated/extended {:?} accepted", m), json!({"op":"truncate","suffix":suffix,"string":m}));
                }
            }
        }
        5 | 6 => {
            // transplanted HRP with a recomputed (valid) checksum: entity type / HRP mismatch
            let other_entity = *rng.pick(&cx.entity_bytes.clone());
            let et = EntityType::from_repr(other_entity).unwrap();
            let enc = AddressBech32Encoder::new(&net(&suffix));
            let hrp = enc.hrp_set.get_entity_hrp(&et).to_string();
            let my_hrp = &s[..sep];
            if let Ok(m) = bech32::encode(&hrp, data.to_base32(), Variant::Bech32m) {
                cx.report.count("mutation_transplanted_hrp");
                match cx.decode(&suffix, &m) {
                    Some(Ok(_)) if hrp == my_hrp => {}
                    Some(Err(AddressBech32DecodeError::InvalidHrp)) if hrp != my_hrp => {
                        cx.report.count("transplanted_hrp_rejected");
                    }
                    other => cx.fail(format!("transplanted HRP {:?} on data of entity byte {}: {:?}", hrp, data[0], other), json!({"op":"transplant","suffix":suffix,"string":m})),
                }
            }
        }
        7 => {
            // same payload under the original Bech32 constant
            if let Ok(m) = bech32::encode(&s[..sep], data.to_base32(), Variant::Bech32) {
                cx.report.count("mutation_bech32_variant");
                match cx.decode(&suffix, &m) {
                    Some(Err(AddressBech32DecodeError::InvalidVariant(_))) => {}
                    other => cx.fail(format!("Bech32 (not m) string {:?}: {:?}", m, other), json!({"op":"variant","suffix":suffix,"string":m})),
                }
            }
        }
        8 => {
            // valid bech32m over arbitrary u5 data (padding / length / entity byte errors)
            let n = rng.range(0, 60) as usize;
            let u5s: Vec<bech32::u5> = (0..n).map(|_| bech32::u5::try_from_u8(rng.below(32) as u8).unwrap()).collect();
            cx.push(
                format!("KFromBase32 {} {}", coq_bytes(&u5s.iter().map(|x| x.to_u8()).collect::<Vec<_>>()), match Vec::<u8>::from_base32(&u5s) {
                    Ok(v) => format!("(Ok {})", coq_bytes(&v)),
                    Err(e) => format!("(Err {})", b32_err(&e)),
                }),
                true,
            );
            if let Ok(m) = bech32::encode(&s[..sep], u5s, Variant::Bech32m) {
                cx.report.count("mutation_random_payload");
                cx.decode(&suffix, &m);
            }
        }
        _ => {
            cx.report.count("mutation_random_string");
            let n = rng.range(0, 30) as usize;
            let m: String = (0..n).map(|_| *rng.pick(&['a', 'q', 'p', '1', '1', '_', 'Z', 'é', '0', 'l', 'x'])).collect();
            cx.decode(&suffix, &m);
        }
    }
}

// ------------------------------------------------------------------------------------------------
// local ids

fn id_coq(id: &NonFungibleLocalId) -> String {
    match id {
        NonFungibleLocalId::String(v) => format!("(LString {})", coq_bytes(v.value().as_bytes())),
        NonFungibleLocalId::Integer(v) => format!("(LInteger {})", v.value()),
        NonFungibleLocalId::Bytes(v) => format!("(LBytes {})", coq_bytes(v.value())),
        NonFungibleLocalId::RUID(v) => format!("(LRuid {})", coq_bytes(v.value())),
    }
}
fn perr_coq(e: &ParseNonFungibleLocalIdError) -> String {
    match e {
        ParseNonFungibleLocalIdError::UnknownType => "UnknownType".into(),
        ParseNonFungibleLocalIdError::InvalidInteger => "InvalidInteger".into(),
        ParseNonFungibleLocalIdError::InvalidBytes => "InvalidBytes".into(),
        ParseNonFungibleLocalIdError::InvalidRUID => "InvalidRUID".into(),
        ParseNonFungibleLocalIdError::ContentValidationError(c) => format!(
            "(ContentValidationError {})",
            match c {
                ContentValidationError::TooLong => "TooLong",
                ContentValidationError::Empty => "Empty",
                ContentValidationError::ContainsBadCharacter => "ContainsBadCharacter",
            }
        ),
    }
}

fn gen_id(rng: &mut Rng) -> NonFungibleLocalId {
    match rng.below(4) {
        0 => {
            let r = rng.range(1, 64) as usize;
            let n = *rng.pick(&[1usize, 2, 5, 63, 64, r]);
            let cs = b"abcxyzABCXYZ0189_";
            let s: String = (0..n).map(|_| cs[rng.usize_below(cs.len())] as char).collect();
            NonFungibleLocalId::string(s).unwrap()
        }
        1 => NonFungibleLocalId::integer(match rng.below(6) {
            0 => rng.below(10),
            1 => *rng.pick(&[0u64, 1, 9, 10, 99, 100, u64::MAX, u64::MAX - 1, 1 << 63, 10_000_000_000_000_000_000]),
            2 => rng.next_u64() >> rng.range(0, 63),
            _ => rng.next_u64(),
        }),
        2 => {
            let r = rng.range(1, 64) as usize;
            let n = *rng.pick(&[1usize, 2, 32, 63, 64, r]);
            NonFungibleLocalId::bytes(rng.bytes(n)).unwrap()
        }
        _ => {
            let b = rng.bytes(32);
            let mut a = [0u8; 32];
            a.copy_from_slice(&b);
            NonFungibleLocalId::ruid(a)
        }
    }
}

fn parse_local(cx: &mut Cx, s: &str) -> Option<Result<NonFungibleLocalId, ParseNonFungibleLocalIdError>> {
    let r = catch(AssertUnwindSafe(|| NonFungibleLocalId::from_str(s)));
    let rc = match &r {
        Err(_) => "Panic".to_string(),
        Ok(Ok(id)) => format!("(Ok {})", id_coq(id)),
        Ok(Err(e)) => format!("(Err {})", perr_coq(e)),
    };
    cx.push(format!("KLocalParse {} {}", coq_bytes(s.as_bytes()), rc), true);
    match r {
        Err(_) => {
            cx.fail(format!("NonFungibleLocalId::from_str({:?}) panicked", s), json!({"op":"local_from_str","string":s}));
            None
        }
        Ok(x) => {
            match &x {
                Ok(id) => {
                    cx.report.count("local_parse_ok");
                    // integer ids only in canonical decimal form; every accepted text re-prints to itself up to hex case
                    let p = id.to_string();
                    let canonical = match id {
                        NonFungibleLocalId::Integer(_) | NonFungibleLocalId::String(_) => p == s,
                        _ => p == s.to_lowercase(),
                    };
                    if !canonical {
                        cx.fail(format!("from_str({:?}) accepted a non-canonical text (prints as {:?})", s, p), json!({"op":"local_canonical","string":s}));
                    }
                }
                Err(_) => {
                    cx.report.count("local_parse_err");
                    if !s.is_ascii() {
                        cx.report.count("local_parse_err_non_ascii");
                    }
                }
            }
            Some(x)
        }
    }
}

fn parse_global(cx: &mut Cx, suffix: &str, s: &str) -> Option<Result<NonFungibleGlobalId, ParseNonFungibleGlobalIdError>> {
    let dec = AddressBech32Decoder::new(&net(suffix));
    let r = catch(AssertUnwindSafe(|| NonFungibleGlobalId::try_from_canonical_string(&dec, s)));
    let rc = match &r {
        Err(_) => "Panic".to_string(),
        Ok(Ok(g)) => format!("(Ok ({}, {}))", coq_bytes(g.resource_address().as_node_id().as_bytes()), id_coq(g.local_id())),
        Ok(Err(ParseNonFungibleGlobalIdError::InvalidResourceAddress)) => "(Err GInvalidResourceAddress)".to_string(),
        Ok(Err(ParseNonFungibleGlobalIdError::RequiresTwoParts)) => "(Err GRequiresTwoParts)".to_string(),
        Ok(Err(ParseNonFungibleGlobalIdError::InvalidNonFungibleLocalId(e))) => format!("(Err (GInvalidLocalId {}))", perr_coq(e)),
    };
    cx.push(format!("KGlobalParse {} {} {}", coq_bytes(suffix.as_bytes()), coq_bytes(s.as_bytes()), rc), true);
    match r {
        Err(_) => {
            cx.fail(format!("NonFungibleGlobalId::try_from_canonical_string({:?}) panicked", s), json!({"op":"global_from_str","suffix":suffix,"string":s}));
            None
        }
        Ok(x) => {
            cx.report.count(if x.is_ok() { "global_parse_ok" } else { "global_parse_err" });
            Some(x)
        }
    }
}

fn do_local(cx: &mut Cx, rng: &mut Rng) {
    let id = gen_id(rng);
    let s = id.to_string();
    cx.push(format!("KLocalPrint {} {}", id_coq(&id), coq_bytes(s.as_bytes())), true);
    match parse_local(cx, &s) {
        Some(Ok(back)) if back == id => {}
        other => cx.fail(format!("from_str(to_string({:?})) = {:?}", s, other), json!({"op":"local_roundtrip","string":s})),
    }
    // binary form
    let bin = scrypto_encode(&id).unwrap();
    match scrypto_decode::<NonFungibleLocalId>(&bin) {
        Ok(back) if back == id => {}
        other => cx.fail(format!("scrypto_decode(scrypto_encode({:?})) = {:?}", s, other), json!({"op":"local_binary","string":s})),
    }
    // global id text form
    if rng.chance(1, 2) {
        let suffix = if rng.chance(4, 5) { rng.pick(&["rdx", "tdx_2_", "sim", "loc"]).to_string() } else { gen_suffix(rng) };
        let mut node = rng.bytes(30);
        node[0] = *rng.pick(&[93u8, 154]);
        let mut a = [0u8; 30];
        a.copy_from_slice(&node);
        let ra = ResourceAddress::new_or_panic(a);
        let g = NonFungibleGlobalId::new(ra, id.clone());
        let enc = AddressBech32Encoder::new(&net(&suffix));
        let printed = catch(AssertUnwindSafe(|| g.to_canonical_string(&enc)));
        cx.push(
            format!("KGlobalPrint {} {} {} {}", coq_bytes(suffix.as_bytes()), coq_bytes(&node), id_coq(&id), match &printed {
                Ok(t) => format!("(Ok {})", coq_bytes(t.as_bytes())),
                Err(_) => "Panic".to_string(),
            }),
            printed.is_ok(),
        );
        if let Ok(text) = printed {
            cx.report.count("global_id_roundtrips");
            let back = parse_global(cx, &suffix, &text);
            let colon = suffix.contains(':');
            match back {
                Some(Ok(b)) if b == g => {}
                Some(Err(ParseNonFungibleGlobalIdError::RequiresTwoParts)) if colon => cx.report.count("global_colon_suffix_unparseable"),
                other => cx.fail(format!("global id text round trip failed for {:?}: {:?}", text, other), json!({"op":"global_roundtrip","suffix":suffix,"string":text})),
            }
            let wrong = if suffix == "loc" { "sim" } else { "loc" };
            if let Some(Ok(_)) = parse_global(cx, wrong, &text) {
                cx.fail(format!("global id {:?} accepted on another network", text), json!({"op":"global_other_network","string":text}));
            }
            // mutated global id text
            let m: String = match rng.below(6) {
                0 => text.replacen(':', "::", 1),
                1 => text.replacen(':', "", 1),
                2 => format!("{}:", text),
                3 => {
                    // a non-resource address in front
                    let mut n2 = node.clone();
                    n2[0] = 193;
                    match enc.encode(&n2) {
                        Ok(a2) => format!("{}:{}", a2, id),
                        Err(_) => text.clone(),
                    }
                }
                4 => {
                    // resource address of the wrong length
                    match enc.encode(&node[..rng.range(1, 29) as usize]) {
                        Ok(a2) => format!("{}:{}", a2, id),
                        Err(_) => text.clone(),
                    }
                }
                _ => text.replacen(':', ":é", 1),
            };
            cx.report.count("global_mutations");
            if let Some(Ok(b)) = parse_global(cx, &suffix, &m) {
                if m != text || b != g {
                    cx.fail(format!("mutated global id {:?} accepted", m), json!({"op":"global_mutation","suffix":suffix,"string":m}));
                }
            }
        } else {
            cx.report.count("global_print_panics_encoder_rejects_hrp");
        }
    }
    // mutated text
    let chars: Vec<char> = s.chars().collect();
    let inner: String = chars[1..chars.len() - 1].iter().collect();
    let (open, close) = (chars[0], chars[chars.len() - 1]);
    let m: String = match rng.below(12) {
        0 => {
            let mut c = chars.clone();
            let pos = rng.usize_below(c.len());
            c[pos] = *rng.pick(&['é', 'ß', '€', '１', '٣', '𝟙', '\u{80}']);
            c.into_iter().collect()
        }
        1 => format!("{}{}{}", open, inner.to_uppercase(), close),
        2 => format!("{}0{}{}", open, inner, close),
        3 => format!("{}+{}{}", open, inner, close),
        4 => format!("{}{}", open, close),
        5 => {
            let mut c = chars.clone();
            let pos = rng.usize_below(c.len());
            c.insert(pos, *rng.pick(&['0', 'a', 'g', '-', ' ', 'é', '#', '<']));
            c.into_iter().collect()
        }
        6 => {
            let mut c = chars.clone();
            let pos = rng.usize_below(c.len());
            c.remove(pos);
            c.into_iter().collect()
        }
        7 => rng.pick(&["#18446744073709551615#", "#18446744073709551616#", "#99999999999999999999#", "#00#", "#-0#", "#-1#", "#+1#", "#１#", "#", "##", "<", ">", "<>", "[]", "{}", "", "[0]", "[0g]", "[AB]", "#1#1#", "<a>b>"]).to_string(),
        8 => format!("{}{}{}", open, "a".repeat(*rng.pick(&[64usize, 65, 128, 129, 130])), close),
        9 => {
            // RUID-shaped with displaced / extra hyphens or multi-byte characters
            let mut c: Vec<char> = "{0123456789abcdef-0123456789abcdef-0123456789abcdef-0123456789abcdef}".chars().collect();
            for _ in 0..rng.range(1, 3) {
                let pos = rng.range(1, 67) as usize;
                c[pos] = *rng.pick(&['-', 'é', 'g', 'A', '0']);
            }
            c.into_iter().collect()
        }
        10 => format!("{}{}{}", *rng.pick(&['<', '#', '[', '{']), inner, *rng.pick(&['>', '#', ']', '}'])),
        _ => {
            let n = rng.range(0, 12) as usize;
            (0..n).map(|_| *rng.pick(&['<', '>', '#', '[', ']', '{', '}', '0', '1', 'a', 'F', '-', 'é', '+'])).collect()
        }
    };
    cx.report.count("local_mutations");
    parse_local(cx, &m);
}

fn do_utf8(cx: &mut Cx, rng: &mut Rng) {
    let n = rng.range(0, 8) as usize;
    let mut b: Vec<u8> = Vec::new();
    for _ in 0..n {
        match rng.below(6) {
            0 => b.push(rng.below(128) as u8),
            1 => b.extend("éß€𝟙\u{7ff}\u{800}\u{ffff}\u{10000}\u{10ffff}\u{d7ff}\u{e000}".chars().nth(rng.usize_below(11)).unwrap().to_string().as_bytes()),
            2 => b.push(*rng.pick(&[0x80u8, 0xbf, 0xc0, 0xc1, 0xc2, 0xdf, 0xe0, 0xed, 0xef, 0xf0, 0xf4, 0xf5, 0xff, 0x9f, 0xa0, 0x8f, 0x90])),
            _ => b.push(rng.next_u64() as u8),
        }
    }
    let v = std::str::from_utf8(&b).is_ok();
    cx.report.count(if v { "utf8_valid" } else { "utf8_invalid" });
    cx.push(format!("KUtf8 {} {}", coq_bytes(&b), coq_bool(v)), true);
}

// ------------------------------------------------------------------------------------------------
// deterministic boundary family (identical for every seed)

fn roundtrip(cx: &mut Cx, suffix: &str, data: &[u8]) -> Option<String> {
    let u5s = data.to_base32();
    cx.push(format!("KToBase32 {} {}", coq_bytes(data), coq_bytes(&u5s.iter().map(|x| x.to_u8()).collect::<Vec<_>>())), true);
    match Vec::<u8>::from_base32(&u5s) {
        Ok(back) if back == data => {}
        other => cx.fail(format!("from_base32(to_base32({})) = {:?}", hex(data), other), json!({"op":"bits","data":hex(data)})),
    }
    let s = cx.encode(suffix, data)?;
    match cx.decode(suffix, &s) {
        Some(Ok((et, d))) if d == data && et as u8 == data[0] => {}
        other => cx.fail(format!("decode(encode(data)) on the same network = {:?}", other), json!({"op":"roundtrip","suffix":suffix,"data":hex(data),"string":s})),
    }
    Some(s)
}

fn must_reject(cx: &mut Cx, suffix: &str, m: &str, original: &str) {
    if let Some(Ok((_, d))) = cx.decode(suffix, m) {
        if m.to_lowercase() != original {
            cx.fail(format!("mutated address {:?} accepted (data {})", m, hex(&d)), json!({"op":"mutation","suffix":suffix,"string":m}));
        }
    }
}

fn print_and_parse(cx: &mut Cx, id: &NonFungibleLocalId) {
    let s = id.to_string();
    cx.push(format!("KLocalPrint {} {}", id_coq(id), coq_bytes(s.as_bytes())), true);
    match parse_local(cx, &s) {
        Some(Ok(back)) if back == *id => {}
        other => cx.fail(format!("from_str(to_string({:?})) = {:?}", s, other), json!({"op":"local_roundtrip","string":s})),
    }
}

fn boundary_family(cx: &mut Cx) {
    let u5 = |v: u8| bech32::u5::try_from_u8(v).unwrap();
    let body: Vec<u8> = (1..=29u8).map(|i| i.wrapping_mul(37)).collect();
    let node = |b: u8| -> Vec<u8> {
        let mut d = vec![b];
        d.extend(body.iter());
        d
    };
    // A. EntityType::from_repr: every first byte
    for b in 0u16..=255 {
        let b = b as u8;
        let d = vec![b, 1, 2];
        cx.report.count("bf_entity_byte");
        if roundtrip(cx, "rdx", &d).is_none() {
            let m = bech32::encode("account_rdx", d.to_base32(), Variant::Bech32m).unwrap();
            cx.decode("rdx", &m);
        }
    }
    // B. data length: empty, 1, every residue mod 5 twice, node id +-1, total text length 89..92
    for n in [0usize, 1, 2, 3, 4, 5, 6, 7, 8, 9, 10, 11, 12, 29, 30, 31, 44, 45, 46] {
        for (k, pat) in [0u8, 0xff, 0x5a].iter().enumerate() {
            for first in [193u8, 194] {
                let mut d: Vec<u8> = if n == 0 { vec![] } else { vec![first] };
                while d.len() < n {
                    d.push(if k == 2 { (d.len() as u8).wrapping_mul(*pat) } else { *pat });
                }
                cx.report.count("bf_data_length");
                roundtrip(cx, "rdx", &d);
            }
        }
    }
    // C. check_hrp in the encoder: character classes, case, length 82/83/84, '1' inside the HRP
    let mut suffixes: Vec<String> = ["", " ", "!", "~", "\u{7f}", "`", "a", "z", "{", "@", "A", "Z", "[", "é", "rDx", "RDX", "rdX", "1", "11", "tdx_1_", "_", "0", "9", ":", "a:b", "a1b1"]
        .iter()
        .map(|x| x.to_string())
        .collect();
    for l in [77usize, 78, 79, 59, 60, 61] {
        suffixes.push("x".repeat(l));
    }
    for suf in suffixes {
        for b in [196u8, 176] {
            cx.report.count("bf_suffix");
            let r = roundtrip(cx, &suf, &node(b));
            // BIP-173: an HRP is 1..=83 US-ASCII characters in 33..=126; the entity prefixes are lower case,
            // so an upper-case letter in the suffix is mixed case. Exactly these HRPs must be accepted.
            let hrp_len = AddressBech32Encoder::new(&net(&suf)).hrp_set.get_entity_hrp(&EntityType::from_repr(b).unwrap()).len();
            let expect_ok = hrp_len <= 83 && suf.bytes().all(|c| (33..=126).contains(&c) && !c.is_ascii_uppercase());
            if r.is_some() != expect_ok {
                cx.fail(format!("encoder {} the HRP with suffix {:?} (HRP length {}), BIP-173 says the opposite", if r.is_some() { "accepted" } else { "rejected" }, suf, hrp_len), json!({"op":"hrp_acceptance","suffix":suf,"entity":b}));
            }
            if let Some(s) = r {
                cx.report.count("bf_suffix_accepted");
                // the neighbouring networks must reject it
                for other in [format!("{}x", suf), if suf.is_empty() { "q".to_string() } else { suf[..suf.len() - 1].to_string() }] {
                    if other != suf && other.is_char_boundary(other.len()) {
                        if let Some(Ok(_)) = cx.decode(&other, &s) {
                            cx.fail(format!("address {:?} of suffix {:?} accepted by suffix {:?}", s, suf, other), json!({"op":"other_network","string":s}));
                        }
                    }
                }
            }
        }
    }
    // D. decoder shapes on a fixed address
    let acc = node(193);
    let s0 = AddressBech32Encoder::new(&net("rdx")).encode(&acc).unwrap();
    let sep = s0.rfind('1').unwrap();
    let (hrp0, data0) = (&s0[..sep], &s0[sep + 1..]);
    let shapes: Vec<String> = vec![
        "".into(), "1".into(), "11".into(), s0.replace('1', ""), format!("1{}", data0), format!("{}1", hrp0), format!("{}1{}", hrp0, &data0[..5]), format!("{}1{}", hrp0, &data0[..6]),
        format!("{}1qqqqq", hrp0), format!("{}1qqqqqq", hrp0), format!("{}1qqqqqq", "a".repeat(83)), format!("{}1qqqqqq", "a".repeat(84)), format!("{}1qqqqqq", "a".repeat(82)),
        format!("acc unt_rdx1{}", data0), format!("acc\u{7f}unt_rdx1{}", data0), format!("accéunt_rdx1{}", data0), format!("{}1{}é", hrp0, data0), format!("{}1é{}", hrp0, data0),
        s0.to_uppercase(), format!("{}1{}", hrp0.to_uppercase(), data0), format!("{}1{}", hrp0, data0.to_uppercase()), format!("Account_rdx1{}", data0), format!("account_rdX1{}", data0),
        format!("{}1{}{}", hrp0, data0[..1].to_uppercase(), &data0[1..]), format!("{}1{}{}", hrp0, &data0[..data0.len() - 1], data0[data0.len() - 1..].to_uppercase()),
        format!("{}1{}", s0, data0), format!("{}{}", s0, "q"), s0[1..].to_string(), s0[..s0.len() - 1].to_string(),
    ];
    for m in shapes {
        cx.report.count("bf_decoder_shape");
        if m == s0.to_uppercase() {
            match cx.decode("rdx", &m) {
                Some(Ok((_, d))) if d == acc => {}
                other => cx.fail(format!("all-uppercase form: {:?}", other), json!({"op":"uppercase","string":m})),
            }
        } else {
            must_reject(cx, "rdx", &m, &s0);
        }
    }
    // HRP without letters (Case::None): the data part decides the case
    for variant_case in 0..4 {
        let base = bech32::encode("2_", acc.to_base32(), Variant::Bech32m).unwrap();
        let sp = base.rfind('1').unwrap();
        let m = match variant_case {
            0 => base.clone(),
            1 => base.to_uppercase(),
            2 => format!("{}{}{}", &base[..sp + 2], base[sp + 2..sp + 3].to_uppercase(), &base[sp + 3..]),
            _ => format!("{}{}", &base[..base.len() - 1], base[base.len() - 1..].to_uppercase()),
        };
        cx.report.count("bf_caseless_hrp");
        cx.decode("rdx", &m);
    }
    // every position substituted once (HRP, separator, data, each of the six checksum symbols)
    let chars0: Vec<char> = s0.chars().collect();
    for pos in 0..chars0.len() {
        let mut c = chars0.clone();
        let idx = CHARSET.iter().position(|x| *x as char == c[pos]);
        c[pos] = match idx {
            Some(i) => CHARSET[(i + 1) % 32] as char,
            None => 'x',
        };
        cx.report.count(if pos + 6 >= chars0.len() { "bf_checksum_symbol_flipped" } else { "bf_each_position_substituted" });
        must_reject(cx, "rdx", &c.into_iter().collect::<String>(), &s0);
    }
    // character classes of the data part (CHARSET_REV edges)
    for ch in ['/', '0', '9', ':', '@', 'A', 'B', 'I', 'O', 'Z', '[', '`', 'a', 'b', 'i', 'o', 'z', '{', '\u{7f}', ' ', '_', '-'] {
        let mut c = chars0.clone();
        c[sep + 3] = ch;
        cx.report.count("bf_data_char_class");
        must_reject(cx, "rdx", &c.into_iter().collect::<String>(), &s0);
    }
    // variant constant
    cx.report.count("bf_variant");
    let mv = bech32::encode(hrp0, acc.to_base32(), Variant::Bech32).unwrap();
    match cx.decode("rdx", &mv) {
        Some(Err(AddressBech32DecodeError::InvalidVariant(_))) => {}
        other => cx.fail(format!("Bech32 (not m) string: {:?}", other), json!({"op":"variant","string":mv})),
    }
    // padding rules of convert_bits: every payload length 0..=17, zero / all-ones / last symbol 1
    for n in 0..=17usize {
        for pat in 0..3 {
            let mut v: Vec<bech32::u5> = (0..n).map(|i| u5(if pat == 1 { 31 } else if i == 0 { 24 } else { 0 })).collect();
            if pat == 2 && n > 0 {
                v[n - 1] = u5(1);
            }
            cx.report.count("bf_padding");
            let raw: Vec<u8> = v.iter().map(|x| x.to_u8()).collect();
            cx.push(
                format!("KFromBase32 {} {}", coq_bytes(&raw), match Vec::<u8>::from_base32(&v) {
                    Ok(x) => format!("(Ok {})", coq_bytes(&x)),
                    Err(e) => format!("(Err {})", b32_err(&e)),
                }),
                true,
            );
            let m = bech32::encode("pool_rdx", v, Variant::Bech32m).unwrap();
            cx.decode("rdx", &m);
        }
    }
    // entity / HRP binding: every entity type under the HRP of the next entity type
    let ebs = cx.entity_bytes.clone();
    let enc = AddressBech32Encoder::new(&net("rdx"));
    for (i, b) in ebs.iter().enumerate() {
        let d = node(*b);
        let own = enc.hrp_set.get_entity_hrp(&EntityType::from_repr(*b).unwrap()).to_string();
        for j in [1usize, 7] {
            let other = ebs[(i + j) % ebs.len()];
            let hrp = enc.hrp_set.get_entity_hrp(&EntityType::from_repr(other).unwrap()).to_string();
            let m = bech32::encode(&hrp, d.to_base32(), Variant::Bech32m).unwrap();
            cx.report.count("bf_transplant");
            match cx.decode("rdx", &m) {
                Some(Ok(_)) if hrp == own => {}
                Some(Err(AddressBech32DecodeError::InvalidHrp)) if hrp != own => {}
                other => cx.fail(format!("HRP {:?} on entity byte {}: {:?}", hrp, b, other), json!({"op":"transplant","string":m})),
            }
        }
    }
    // E. local ids
    for id in [
        NonFungibleLocalId::string("a").unwrap(), NonFungibleLocalId::string("_").unwrap(), NonFungibleLocalId::string("z".repeat(64)).unwrap(),
        NonFungibleLocalId::string("azAZ09_").unwrap(), NonFungibleLocalId::integer(0), NonFungibleLocalId::integer(1), NonFungibleLocalId::integer(9), NonFungibleLocalId::integer(10),
        NonFungibleLocalId::integer(u64::MAX), NonFungibleLocalId::integer(u64::MAX - 1), NonFungibleLocalId::integer(10_000_000_000_000_000_000), NonFungibleLocalId::integer(9_999_999_999_999_999_999),
        NonFungibleLocalId::bytes(vec![0u8]).unwrap(), NonFungibleLocalId::bytes(vec![0xffu8; 64]).unwrap(), NonFungibleLocalId::bytes(vec![0x0f, 0xf0, 0x9a, 0xa9]).unwrap(),
        NonFungibleLocalId::ruid([0u8; 32]), NonFungibleLocalId::ruid([0xffu8; 32]), NonFungibleLocalId::ruid([0xa9u8; 32]),
    ] {
        cx.report.count("bf_local_valid");
        print_and_parse(cx, &id);
    }
    let z64 = "z".repeat(64);
    let z65 = "z".repeat(65);
    let h64 = "ab".repeat(64);
    let h65 = "ab".repeat(65);
    let strings: Vec<String> = vec![
        "<>".into(), "<a>".into(), format!("<{}>", z64), format!("<{}>", z65), "</>".into(), "<0>".into(), "<9>".into(), "<:>".into(), "<@>".into(), "<A>".into(), "<Z>".into(), "<[>".into(),
        "<^>".into(), "<_>".into(), "<`>".into(), "<a>".into(), "<z>".into(), "<{>".into(), "<é>".into(), "<a b>".into(), "<a>b>".into(), "<<a>>".into(), "<".into(), ">".into(), "<a".into(), "a>".into(),
    ];
    for m in &strings {
        cx.report.count("bf_local_string");
        parse_local(cx, m);
    }
    for m in [
        "#0#", "#00#", "#01#", "#1#", "#9#", "#10#", "#09#", "#18446744073709551615#", "#18446744073709551616#", "#18446744073709551614#", "#018446744073709551615#", "#99999999999999999999#",
        "#100000000000000000000#", "#+1#", "#-1#", "#+0#", "##", "#", "# #", "#1 #", "# 1#", "#/#", "#:#", "#1/#", "#1:#", "#a#", "#1a#", "#１#", "#1１#", "#1#1#", "#1", "1#", "#0x1#", "#1_0#",
    ] {
        cx.report.count("bf_local_integer");
        parse_local(cx, m);
    }
    let bytes_strings: Vec<String> = vec![
        "[]".into(), "[0]".into(), "[00]".into(), "[000]".into(), format!("[{}]", h64), format!("[{}]", h65), "[/0]".into(), "[0/]".into(), "[:0]".into(), "[0:]".into(), "[@0]".into(), "[A0]".into(),
        "[F0]".into(), "[G0]".into(), "[0G]".into(), "[`0]".into(), "[a0]".into(), "[f0]".into(), "[g0]".into(), "[0g]".into(), "[aF]".into(), "[é0]".into(), "[0é]".into(), "[0 ]".into(), "[".into(), "]".into(), "[00".into(), "00]".into(),
    ];
    for m in &bytes_strings {
        cx.report.count("bf_local_bytes");
        parse_local(cx, m);
    }
    let ruid = "{0123456789abcdef-0123456789abcdef-0123456789abcdef-0123456789abcdef}";
    let rc: Vec<char> = ruid.chars().collect();
    let mut ruids: Vec<String> = vec![ruid.to_string(), ruid.to_uppercase(), "{}".into(), "{---}".into(), "{".into(), "}".into()];
    for hy in [17usize, 34, 51] {
        // the hyphen replaced by a digit, moved one place left / right, and an extra hyphen next to it
        for (from, to) in [(hy, hy), (hy, hy - 1), (hy, hy + 1)] {
            let mut c = rc.clone();
            c[from] = '0';
            if from != to {
                c[to] = '-';
            }
            ruids.push(c.into_iter().collect());
        }
        for extra in [hy - 1, hy + 1] {
            let mut c = rc.clone();
            c[extra] = '-';
            ruids.push(c.into_iter().collect());
        }
        let mut c = rc.clone();
        c[hy] = 'é';
        ruids.push(c.into_iter().collect());
    }
    for pos in [1usize, 16, 18, 33, 35, 50, 52, 67] {
        for ch in ['g', 'G', 'é', '-', ' '] {
            let mut c = rc.clone();
            c[pos] = ch;
            ruids.push(c.into_iter().collect());
        }
    }
    ruids.push(format!("{}0}}", &ruid[..ruid.len() - 1]));
    ruids.push(format!("{}}}", &ruid[..ruid.len() - 2]));
    ruids.push(format!("{{0{}", &ruid[1..]));
    for m in &ruids {
        cx.report.count("bf_local_ruid");
        parse_local(cx, m);
    }
    for open in ['<', '#', '[', '{'] {
        for close in ['>', '#', ']', '}'] {
            cx.report.count("bf_local_brackets");
            parse_local(cx, &format!("{}1{}", open, close));
            parse_local(cx, &format!("{}{}", open, close));
        }
    }
    for m in ["", "a", "1", " ", "é", "<é", "é>"] {
        cx.report.count("bf_local_brackets");
        parse_local(cx, m);
    }
    // F. global ids
    let res30 = node(93);
    let ra = enc.encode(&res30).unwrap();
    let mut res29 = res30.clone();
    res29.pop();
    let mut res31 = res30.clone();
    res31.push(7);
    let globals: Vec<String> = vec![
        format!("{}:#1#", ra), format!("{}:<a>", ra), format!("{}:[00]", ra), format!("{}:{}", ra, ruid), format!("{}:#01#", ra), format!("{}:", ra), format!("{}", ra), format!(":{}", ra),
        ":".into(), "".into(), "::".into(), ":#1#".into(), format!("{}:#1#:", ra), format!("{}::#1#", ra), format!("{}:#1#:#2#", ra), format!("{}:#1#", enc.encode(&res29).unwrap()),
        format!("{}:#1#", enc.encode(&res31).unwrap()), format!("{}:#1#", enc.encode(&node(154)).unwrap()), format!("{}:#1#", enc.encode(&node(193)).unwrap()), format!("{}:#1#", enc.encode(&node(88)).unwrap()),
        format!("{}:#1#", ra.to_uppercase()), format!("{} :#1#", ra), format!("{}:#1#", AddressBech32Encoder::new(&net("sim")).encode(&res30).unwrap()),
    ];
    for m in &globals {
        cx.report.count("bf_global");
        parse_global(cx, "rdx", m);
    }
}

fn main() {
    let args = Args::parse();
    let mut report = Report::new(
        "C28",
        args.seed,
        "node ids with every entity type (and invalid entity bytes, odd lengths) on mainnet/stokenet/simulator/localnet/random/unusual hrp suffixes; decode on the same and on another network; \
         single-character substitutions, case changes, truncation, transplanted HRPs with recomputed checksum, Bech32 (non-m) variant, random payloads; local ids of all four kinds with a text mutator \
         (non-ASCII, upper-case hex, leading zeros, '+', overflow, hyphen displacement); global id round trips; random byte strings vs from_utf8; non-trivial = accepted encode / any decode or parse call; distinct by canonical text",
    );
    let mut cw = CaseWriter::new("RV.Corr.C28_run RV.Model.C28_Bech32 RV.Model.C28_LocalId RV.Model.C28_GlobalId", "check");
    let entity_bytes: Vec<u8> = (0u16..=255).map(|b| b as u8).filter(|b| EntityType::from_repr(*b).is_some()).collect();
    let root = Rng::new(args.seed);
    // every entity type at least once, on the three public networks
    {
        let mut cx = Cx { report: &mut report, cw: &mut cw, i: 0, entity_bytes: entity_bytes.clone() };
        let mut rng = root.fork(u64::MAX);
        for b in entity_bytes.clone() {
            for suffix in ["rdx", "tdx_2_", "sim"] {
                let mut d = vec![b];
                d.extend(rng.bytes(29));
                if let Some(s) = cx.encode(suffix, &d) {
                    match cx.decode(suffix, &s) {
                        Some(Ok((et, back))) if back == d && et as u8 == b => {}
                        other => cx.fail(format!("round trip failed for entity byte {}: {:?}", b, other), json!({"op":"roundtrip","suffix":suffix,"data":hex(&d)})),
                    }
                }
            }
        }
        for s in ["", "1", "a1", "1qqqqqq", "account_rdx1", "é1qqqqqq", "A1Qqqqqqq"] {
            cx.decode("rdx", s);
        }
        boundary_family(&mut cx);
    }
    for i in 0..args.cases {
        let mut rng = root.fork(i as u64);
        let mut cx = Cx { report: &mut report, cw: &mut cw, i, entity_bytes: entity_bytes.clone() };
        match i % 10 {
            0..=4 => do_address(&mut cx, &mut rng),
            5..=8 => do_local(&mut cx, &mut rng),
            _ => do_utf8(&mut cx, &mut rng),
        }
    }
    let n = args.cases as u64;
    report.floor("encode_ok", n / 4);
    report.floor("decode_ok", n / 4);
    report.floor("other_network_checked", n / 4);
    report.floor("transplanted_hrp_rejected", n / 40);
    report.floor("mutation_substitution", n / 20);
    report.floor("local_parse_ok", n / 4);
    report.floor("local_parse_err", n / 20);
    report.floor("local_parse_err_non_ascii", n / 200);
    report.floor("global_id_roundtrips", n / 20);
    report.floor("global_parse_ok", n / 20);
    report.floor("global_parse_err", n / 20);
    for (class, min) in [
        ("bf_entity_byte", 256), ("bf_data_length", 114), ("bf_suffix", 64), ("bf_suffix_accepted", 43), ("bf_decoder_shape", 29), ("bf_caseless_hrp", 4),
        ("bf_each_position_substituted", 60), ("bf_checksum_symbol_flipped", 6), ("bf_data_char_class", 22), ("bf_variant", 1), ("bf_padding", 54), ("bf_transplant", 44),
        ("bf_local_valid", 18), ("bf_local_string", 26), ("bf_local_integer", 34), ("bf_local_bytes", 28), ("bf_local_ruid", 67), ("bf_local_brackets", 23), ("bf_global", 23),
    ] {
        report.floor(class, min);
    }
    cw.write(&args.out, args.shards).unwrap();
    report.write(&args.out).unwrap();
}
