//! C38 correspondence harness: the bound algebra (LowerBound / UpperBound cmp, add_from, take_amount,
//! constrain_to) used by the static resource movements analyser vs coq/Model/C38_Bounds.v.
//! Direct oracle: soundness on sample points with BigInt arithmetic — for balances x, y inside the
//! operand bounds, x+y / x-t / x must lie inside the result bounds.
use num_bigint::BigInt;
use radix_common::prelude::*;
use radix_transactions::manifest::static_resource_movements::{ResourceBounds, ResourceTakeAmount, StaticResourceMovementsError};
use serde_json::json;
use vh_common::*;

fn scale() -> i128 { 1_000_000_000_000_000_000i128 }
fn dec(a: i128) -> Decimal { Decimal::from_attos(I192::from(a)) }
fn big(d: &Decimal) -> BigInt { d.attos().to_string().parse().unwrap() }
fn zc(d: &Decimal) -> String { coq_z(d.attos().to_string()) }
fn gen_dec(rng: &mut Rng) -> Decimal {
    let k = rng.below(6) as i128;
    match rng.below(12) {
        0 => dec(0), 1 => dec(1), 2 | 3 | 4 => dec(k * scale()), 5 => dec(k * scale() + 1), 6 => dec(k * scale() - 1),
        7 => dec(rng.below(10 * scale() as u64) as i128), 8 => Decimal::MAX, 9 => Decimal::MAX - dec(rng.below(3 * scale() as u64) as i128),
        10 => dec((rng.next_u64() as i128) * (rng.next_u64() as i128 >> 2)), _ => dec(-(rng.below(3 * scale() as u64) as i128)),
    }
}
fn gen_lower(rng: &mut Rng) -> LowerBound { if rng.chance(1, 4) { LowerBound::NonZero } else { LowerBound::Inclusive(gen_dec(rng)) } }
fn gen_upper(rng: &mut Rng) -> UpperBound { if rng.chance(1, 4) { UpperBound::Unbounded } else { UpperBound::Inclusive(gen_dec(rng)) } }
fn lc(l: &LowerBound) -> String { match l { LowerBound::NonZero => "LNonZero".into(), LowerBound::Inclusive(d) => format!("(LIncl {})", zc(d)) } }
fn uc(u: &UpperBound) -> String { match u { UpperBound::Unbounded => "UUnbounded".into(), UpperBound::Inclusive(d) => format!("(UIncl {})", zc(d)) } }
fn ord(o: core::cmp::Ordering) -> &'static str { match o { core::cmp::Ordering::Less => "Lt", core::cmp::Ordering::Equal => "Eq", core::cmp::Ordering::Greater => "Gt" } }
fn sat_l(l: &LowerBound, x: &BigInt) -> bool { match l { LowerBound::NonZero => *x > BigInt::from(0), LowerBound::Inclusive(d) => big(d) <= *x } }
fn sat_u(u: &UpperBound, x: &BigInt) -> bool { match u { UpperBound::Unbounded => true, UpperBound::Inclusive(d) => *x <= big(d) } }
/// a non-negative sample inside (l, u), if any
fn sample(rng: &mut Rng, l: &LowerBound, u: &UpperBound) -> Option<Decimal> {
    let lo = match l { LowerBound::NonZero => dec(1), LowerBound::Inclusive(d) => if d.is_negative() { dec(0) } else { *d } };
    let hi = match u { UpperBound::Unbounded => lo.checked_add(dec(5 * scale())).unwrap_or(Decimal::MAX), UpperBound::Inclusive(d) => *d };
    if lo > hi { return None; }
    Some(match rng.below(3) { 0 => lo, 1 => hi, _ => { let span = hi - lo; let k = rng.below(1000) as i128; lo + (span / Decimal::from(1000u32)) * Decimal::from(k as u32) } })
}


// ---- id-set part: ResourceBounds ------------------------------------------------------------------------
type Ids = Vec<u64>;
fn idset(ids: &Ids) -> IndexSet<NonFungibleLocalId> { ids.iter().map(|i| NonFungibleLocalId::integer(*i)).collect() }
fn ids_of(s: &IndexSet<NonFungibleLocalId>) -> Ids { s.iter().map(|i| match i { NonFungibleLocalId::Integer(x) => x.value(), _ => u64::MAX }).collect() }
fn ids_coq(ids: &Ids) -> String { coq_list(ids.iter().map(|i| format!("{}%N", i))) }
fn gen_ids(rng: &mut Rng, universe: &[u64], max: usize) -> Ids { let mut v = universe.to_vec(); rng.shuffle(&mut v); let n = rng.usize_below(max.min(v.len()) + 1); v.truncate(n); v }
/// a valid non-fungible general constraint over the given id universe
fn gen_general(rng: &mut Rng, universe: &[u64]) -> GeneralResourceConstraint {
    loop {
        let any = rng.chance(2, 5);
        let allow = gen_ids(rng, universe, 6);
        let required = if any { gen_ids(rng, universe, 3) } else { let mut a = allow.clone(); rng.shuffle(&mut a); let n = rng.usize_below(a.len().min(3) + 1); a.truncate(n); a };
        let cap = if any { 7 } else { allow.len() as i128 };
        let lo = rng.below(cap as u64 + 1) as i128;
        let hi = lo.max(required.len() as i128) + rng.below(3) as i128;
        let g = GeneralResourceConstraint {
            required_ids: idset(&required),
            lower_bound: if rng.chance(1, 6) { LowerBound::NonZero } else { LowerBound::Inclusive(dec(lo * scale())) },
            upper_bound: if rng.chance(1, 4) { UpperBound::Unbounded } else { UpperBound::Inclusive(dec(hi * scale())) },
            allowed_ids: if any { AllowedIds::Any } else { AllowedIds::Allowlist(idset(&allow)) },
        };
        if g.is_valid_for_non_fungible_use() { return g; }
    }
}
fn general_coq(r: &IndexSet<NonFungibleLocalId>, l: &LowerBound, u: &UpperBound, a: &AllowedIds) -> String {
    format!("(mkGeneral {} {} {} {})", ids_coq(&ids_of(r)), lc(l), uc(u), match a { AllowedIds::Any => "AnyIds".to_string(), AllowedIds::Allowlist(x) => format!("(Allowlist {})", ids_coq(&ids_of(x))) })
}
fn bounds_coq(b: &ResourceBounds) -> String { general_coq(b.required_ids(), &b.lower_bound(), &b.upper_bound(), b.allowed_ids()) }
fn gres_coq(r: &Result<Result<ResourceBounds, StaticResourceMovementsError>, String>) -> String {
    match r {
        Err(_) => "GPanic".into(),
        Ok(Ok(b)) => format!("(GOk {})", bounds_coq(b)),
        Ok(Err(e)) => format!("(GErr {})", match e {
            StaticResourceMovementsError::DecimalOverflow => "GEOverflow", StaticResourceMovementsError::DuplicateNonFungibleId => "GEDuplicateId",
            StaticResourceMovementsError::TakeCannotBeSatisfied => "GETakeCannotBeSatisfied", StaticResourceMovementsError::DecimalAmountIsNegative => "GENegativeAmount",
            StaticResourceMovementsError::AssertionCannotBeSatisfied => "GEAssertionCannotBeSatisfied", _ => "GEOverflow (* unexpected *)" }),
    }
}
fn as_constraint(b: &ResourceBounds) -> GeneralResourceConstraint {
    GeneralResourceConstraint { required_ids: b.required_ids().clone(), lower_bound: b.lower_bound(), upper_bound: b.upper_bound(), allowed_ids: b.allowed_ids().clone() }
}
/// a concrete balance inside the bounds (required ids padded from the allow-list / with fresh ids)
fn witness(rng: &mut Rng, b: &ResourceBounds, fresh_base: u64) -> Option<Ids> {
    let g = as_constraint(b);
    let lo = match g.lower_bound { LowerBound::NonZero => 1usize, LowerBound::Inclusive(d) => (big(&d) / BigInt::from(scale())).to_string().parse().ok()? };
    let hi = match g.upper_bound { UpperBound::Unbounded => lo + 3, UpperBound::Inclusive(d) => (big(&d) / BigInt::from(scale())).to_string().parse().ok()? };
    let mut ids = ids_of(&g.required_ids);
    let want = lo.max(ids.len()) + if hi > lo.max(ids.len()) { rng.usize_below(hi - lo.max(ids.len()) + 1) } else { 0 };
    if want > 40 { return None; }
    let pool: Vec<u64> = match &g.allowed_ids { AllowedIds::Allowlist(a) => ids_of(a), AllowedIds::Any => (fresh_base..fresh_base + 50).collect() };
    for p in pool { if ids.len() >= want { break; } if !ids.contains(&p) { ids.push(p); } }
    if g.validate_non_fungible_ids(&idset(&ids)).is_ok() { Some(ids) } else { None }
}


// ---- deterministic boundary families (identical for every seed) ---------------------------------------------
fn fam_numeric() -> Vec<(String, LowerBound, LowerBound, UpperBound, UpperBound, Decimal)> {
    let s = scale();
    let lowers: Vec<(&str, LowerBound)> = vec![("nz", LowerBound::NonZero), ("0", LowerBound::Inclusive(dec(0))), ("1atto", LowerBound::Inclusive(dec(1))), ("1", LowerBound::Inclusive(dec(s))),
        ("1p", LowerBound::Inclusive(dec(s + 1))), ("2", LowerBound::Inclusive(dec(2 * s))), ("max", LowerBound::Inclusive(Decimal::MAX)), ("neg", LowerBound::Inclusive(dec(-1)))];
    let uppers: Vec<(&str, UpperBound)> = vec![("unb", UpperBound::Unbounded), ("0", UpperBound::Inclusive(dec(0))), ("1atto", UpperBound::Inclusive(dec(1))), ("1", UpperBound::Inclusive(dec(s))),
        ("2", UpperBound::Inclusive(dec(2 * s))), ("max", UpperBound::Inclusive(Decimal::MAX)), ("maxm", UpperBound::Inclusive(Decimal::MAX - dec(1)))];
    let takes: Vec<(&str, Decimal)> = vec![("0", dec(0)), ("1atto", dec(1)), ("1m", dec(s - 1)), ("1", dec(s)), ("1p", dec(s + 1)), ("2", dec(2 * s)), ("max", Decimal::MAX)];
    let mut v = vec![];
    for (a, l1) in &lowers { for (b, l2) in &lowers { v.push((format!("num_lower_{}_vs_{}", a, b), *l1, *l2, UpperBound::Inclusive(dec(s)), UpperBound::Unbounded, dec(s))); } }
    for (a, u1) in &uppers { for (b, u2) in &uppers { v.push((format!("num_upper_{}_vs_{}", a, b), LowerBound::Inclusive(dec(s)), LowerBound::NonZero, *u1, *u2, dec(s))); } }
    for (a, l1) in &lowers { for (b, t) in &takes { v.push((format!("num_lower_{}_take_{}", a, b), *l1, LowerBound::NonZero, UpperBound::Unbounded, UpperBound::Unbounded, *t)); } }
    for (a, u1) in &uppers { for (b, t) in &takes { v.push((format!("num_upper_{}_take_{}", a, b), LowerBound::NonZero, LowerBound::NonZero, *u1, UpperBound::Unbounded, *t)); } }
    v
}
fn gc(req: &[u64], lo: LowerBound, hi: UpperBound, allow: Option<&[u64]>) -> GeneralResourceConstraint {
    GeneralResourceConstraint { required_ids: idset(&req.to_vec()), lower_bound: lo, upper_bound: hi, allowed_ids: match allow { Some(a) => AllowedIds::Allowlist(idset(&a.to_vec())), None => AllowedIds::Any } }
}
/// (class, b1, b2, assertion, taken ids, take amount)
fn fam_ids() -> Vec<(String, GeneralResourceConstraint, GeneralResourceConstraint, GeneralResourceConstraint, Ids, Decimal)> {
    let s = scale();
    let li = |k: i128| LowerBound::Inclusive(dec(k * s)); let ui = |k: i128| UpperBound::Inclusive(dec(k * s));
    let any0 = || gc(&[], li(0), UpperBound::Unbounded, None);
    let mut v = vec![];
    let mut add = |c: &str, b1: GeneralResourceConstraint, b2: GeneralResourceConstraint, a: GeneralResourceConstraint, taken: &[u64], t: i128| v.push((format!("ids_{}", c), b1, b2, a, taken.to_vec(), dec(t)));
    // add
    add("add_disjoint_allowlists", gc(&[1], li(1), ui(2), Some(&[1, 2])), gc(&[11], li(1), ui(2), Some(&[11, 12])), any0(), &[], 0);
    add("add_overlapping_allowlists", gc(&[1], li(1), ui(2), Some(&[1, 2, 3])), gc(&[2], li(1), ui(2), Some(&[2, 3, 4])), any0(), &[], 0);
    add("add_duplicate_required", gc(&[1, 2], li(2), ui(3), None), gc(&[2], li(1), ui(3), None), any0(), &[], 0);
    add("add_any_plus_allowlist", gc(&[1], li(1), ui(2), None), gc(&[11], li(1), ui(1), Some(&[11])), any0(), &[], 0);
    add("add_allowlist_plus_any", gc(&[1], li(1), ui(1), Some(&[1])), gc(&[], li(0), ui(2), None), any0(), &[], 0);
    add("add_unbounded", gc(&[], li(1), UpperBound::Unbounded, None), gc(&[], LowerBound::NonZero, ui(3), None), any0(), &[], 0);
    add("add_nonzero_plus_zero", gc(&[], LowerBound::NonZero, ui(3), None), gc(&[], li(0), ui(0), None), any0(), &[], 0);
    add("add_exact_plus_exact", gc(&[1, 2], li(2), ui(2), Some(&[1, 2])), gc(&[11], li(1), ui(1), Some(&[11])), any0(), &[], 0);
    add("add_overflow_upper", gc(&[], li(0), UpperBound::Inclusive(Decimal::MAX), None), gc(&[], li(0), ui(1), None), any0(), &[], 0);
    add("add_zero_plus_zero", gc(&[], li(0), ui(0), Some(&[])), gc(&[], li(0), ui(0), Some(&[])), any0(), &[], 0);
    // take ids from b1
    let b = || gc(&[1, 2], li(2), ui(4), Some(&[1, 2, 3, 4]));
    add("take_none", b(), any0(), any0(), &[], 0);
    add("take_required_one", b(), any0(), any0(), &[1], s);
    add("take_all_required", b(), any0(), any0(), &[2, 1], 2 * s);
    add("take_allowed_not_required", b(), any0(), any0(), &[3], s);
    add("take_all_allowlist", b(), any0(), any0(), &[1, 2, 3, 4], 4 * s);
    add("take_not_in_allowlist", b(), any0(), any0(), &[9], 4 * s + 1);
    add("take_more_than_upper", gc(&[], li(0), ui(1), None), any0(), any0(), &[5, 6], 1 * s + 1);
    add("take_exact_all", gc(&[1, 2], li(2), ui(2), Some(&[1, 2])), any0(), any0(), &[1, 2], 2 * s);
    add("take_from_exact_one", gc(&[1, 2], li(2), ui(2), Some(&[1, 2])), any0(), any0(), &[2], s);
    add("take_incomplete_required_remains", gc(&[1], li(1), ui(5), None), any0(), any0(), &[2, 3], 5 * s);
    add("take_from_any_zero_lower", gc(&[], li(0), ui(3), None), any0(), any0(), &[7], 3 * s);
    add("take_lower_eq_upper", gc(&[], li(3), ui(3), Some(&[1, 2, 3])), any0(), any0(), &[1], 3 * s);
    add("take_nonzero_lower", gc(&[], LowerBound::NonZero, ui(3), None), any0(), any0(), &[1], 1);
    add("take_negative_amount", b(), any0(), any0(), &[1], -1);
    add("take_fractional_amount", gc(&[], li(0), ui(3), None), any0(), any0(), &[], s / 2);
    // assertions on b1
    add("assert_allowlist_equal", b(), any0(), gc(&[], li(0), UpperBound::Unbounded, Some(&[4, 3, 2, 1])), &[], 0);
    add("assert_allowlist_subset_keeps_required", b(), any0(), gc(&[], li(0), UpperBound::Unbounded, Some(&[1, 2])), &[], 0);
    add("assert_allowlist_misses_required", b(), any0(), gc(&[], li(0), UpperBound::Unbounded, Some(&[1, 3])), &[], 0);
    add("assert_allowlist_disjoint", gc(&[], li(0), ui(2), Some(&[3, 5, 2])), any0(), gc(&[], li(0), ui(1), Some(&[0])), &[], 0);
    add("assert_allowlist_superset", b(), any0(), gc(&[], li(0), UpperBound::Unbounded, Some(&[0, 1, 2, 3, 4, 5])), &[], 0);
    add("assert_allowlist_on_any", gc(&[1], li(1), ui(3), None), any0(), gc(&[], li(0), UpperBound::Unbounded, Some(&[1, 2])), &[], 0);
    add("assert_adds_required", b(), any0(), gc(&[3], li(1), UpperBound::Unbounded, None), &[], 0);
    add("assert_required_outside_own_allowlist", b(), any0(), gc(&[9], li(1), UpperBound::Unbounded, None), &[], 0);
    add("assert_lower_meets_upper", gc(&[], li(0), ui(3), None), any0(), gc(&[], li(3), UpperBound::Unbounded, None), &[], 0);
    add("assert_lower_crosses_upper", gc(&[], li(0), ui(3), None), any0(), gc(&[], li(4), UpperBound::Unbounded, None), &[], 0);
    add("assert_upper_meets_lower", gc(&[], li(2), ui(5), None), any0(), gc(&[], li(0), ui(2), None), &[], 0);
    add("assert_upper_crosses_lower", gc(&[], li(2), ui(5), None), any0(), gc(&[], li(0), ui(1), None), &[], 0);
    add("assert_nonzero_on_zero_upper", gc(&[], li(0), ui(0), None), any0(), gc(&[], LowerBound::NonZero, UpperBound::Unbounded, None), &[], 0);
    add("assert_nonzero_on_zero_lower", gc(&[], li(0), ui(2), None), any0(), gc(&[], LowerBound::NonZero, UpperBound::Unbounded, None), &[], 0);
    add("assert_identical", b(), any0(), b(), &[], 0);
    v
}

fn main() {
    let args = Args::parse();
    let mut report = Report::new("C38", args.seed,
        "random LowerBound/UpperBound pairs (NonZero / Unbounded / Inclusive of 0, 1 atto, integers +-1 atto, fractional, MAX, near MAX, negative) and take amounts; \
         every operation run on the implementation (panics caught) and printed for the model; soundness sampled with BigInt. non-trivial = both operands Inclusive");
    let mut cw = CaseWriter::new("RV.Corr.C38_run RV.Model.C37_Constraint RV.Model.C38_Bounds", "check");
    let root = Rng::new(args.seed);
    let (fnum, fids) = (fam_numeric(), fam_ids());
    let mut fam_classes: Vec<String> = vec![];
    for i in 0..args.cases.max(fnum.len()) {
        let mut rng = root.fork(i as u64);
        let (mut l1, mut l2, mut u1, mut u2) = (gen_lower(&mut rng), gen_lower(&mut rng), gen_upper(&mut rng), gen_upper(&mut rng));
        let mut t = if rng.chance(1, 12) { gen_dec(&mut rng) } else { let d = gen_dec(&mut rng); if d.is_negative() { dec(0) } else { d } };
        if let Some((c, a, b, x, y, z)) = fnum.get(i) { l1 = *a; l2 = *b; u1 = *x; u2 = *y; t = *z; report.count(c); fam_classes.push(c.clone()); }
        report.case(&format!("{}{}{}{}{}", lc(&l1), lc(&l2), uc(&u1), uc(&u2), t), matches!((&l1, &l2, &u1, &u2), (LowerBound::Inclusive(_), LowerBound::Inclusive(_), UpperBound::Inclusive(_), UpperBound::Inclusive(_))));
        let ladd = { let mut a = l1; match a.add_from(l2) { Ok(()) => Some(a), Err(_) => None } };
        let uadd = { let mut a = u1; match a.add_from(u2) { Ok(()) => Some(a), Err(_) => None } };
        let ltake = catch(move || { let mut a = l1; a.take_amount(t); a });
        let utake = catch(move || { let mut a = u1; a.take_amount(t).map(|_| a) });
        let lcon = { let mut a = l1; a.constrain_to(l2); a };
        let ucon = { let mut a = u1; a.constrain_to(u2); a };
        report.count(if ladd.is_some() { "lower_add_ok" } else { "lower_add_overflow" });
        report.count(match &utake { Ok(Ok(_)) => "upper_take_ok", Ok(Err(_)) => "upper_take_unsatisfiable", Err(_) => "upper_take_panic" });
        // ---- oracle: soundness on sample points ----
        let input = json!({"l1": lc(&l1), "u1": uc(&u1), "l2": lc(&l2), "u2": uc(&u2), "take": t.to_string()});
        if let (Some(x), Some(y)) = (sample(&mut rng, &l1, &u1), sample(&mut rng, &l2, &u2)) {
            if let (Some(l), Some(u)) = (&ladd, &uadd) {
                let s = big(&x) + big(&y);
                if !(sat_l(l, &s) && sat_u(u, &s)) { report.oracle_failure(i, "", &format!("add_from unsound: {} + {} outside ({}, {})", x, y, lc(l), uc(u)), input.clone()); }
                report.count("add_soundness_checked");
            }
            if sat_l(&lcon, &big(&x)) != (sat_l(&l1, &big(&x)) && sat_l(&l2, &big(&x))) || sat_u(&ucon, &big(&x)) != (sat_u(&u1, &big(&x)) && sat_u(&u2, &big(&x))) {
                if sat_l(&l2, &big(&x)) && sat_u(&u2, &big(&x)) { report.oracle_failure(i, "", &format!("constrain_to unsound at {}", x), input.clone()); }
            }
            if !t.is_negative() && t <= x {
                match (&ltake, &utake) {
                    (Ok(l), Ok(Ok(u))) => { let r = big(&x) - big(&t); if !(sat_l(l, &r) && sat_u(u, &r)) { report.oracle_failure(i, "", &format!("take_amount unsound: {} - {} outside ({}, {})", x, t, lc(l), uc(u)), input.clone()); } report.count("take_soundness_checked"); }
                    (_, Ok(Err(_))) => report.oracle_failure(i, "", &format!("take_amount reports unsatisfiable although balance {} >= take {}", x, t), input.clone()),
                    _ => if !l1_negative(&l1) && !u1_negative(&u1) { report.oracle_failure(i, "", "take_amount panicked on valid bounds and non-negative take", input.clone()); },
                }
            }
        }
        let lres = |r: &Option<LowerBound>| match r { Some(l) => format!("(BOk {})", lc(l)), None => "BOverflow".to_string() };
        let ures = |r: &Option<UpperBound>| match r { Some(u) => format!("(BOk {})", uc(u)), None => "BOverflow".to_string() };
        cw.push(format!("CNum (({}, {}, {}, {}, {}), ({}, {}, {}, {}), ({}, {}, {}, {}))",
            lc(&l1), lc(&l2), uc(&u1), uc(&u2), zc(&t),
            ord(l1.cmp(&l2)), ord(u1.cmp(&u2)), lres(&ladd), ures(&uadd),
            match &ltake { Ok(l) => format!("(BOk {})", lc(l)), Err(_) => "BPanic".into() },
            match &utake { Ok(Ok(u)) => format!("(BOk {})", uc(u)), Ok(Err(_)) => "BTakeCannotBeSatisfied".into(), Err(_) => "BPanic".into() },
            lc(&lcon), uc(&ucon)));
    }
    // ---- id-set stream: ResourceBounds::add / take / handle_assertion ----
    for i in 0..(args.cases / 2).max(fids.len()) {
        let mut rng = root.fork(1_000_000 + i as u64);
        let fam_i = fids.get(i);
        if let Some((c, ..)) = fam_i { report.count(c); fam_classes.push(c.clone()); }
        // two universes that overlap a little, so that DuplicateNonFungibleId occurs but is not the norm
        let u1: Vec<u64> = (0..7).collect(); let u2: Vec<u64> = if rng.chance(1, 4) { (4..11).collect() } else { (10..17).collect() };
        let (mut g1, mut g2) = (gen_general(&mut rng, &u1), gen_general(&mut rng, &u2));
        let mut ga = gen_general(&mut rng, &u1); // an assertion on the first balance
        if let Some((_, a, b, c, _, _)) = fam_i { g1 = a.clone(); g2 = b.clone(); ga = c.clone(); }
        let (b1, b2, ba) = match (ResourceBounds::new_for_manifest_constraint(&ManifestResourceConstraint::General(g1.clone())),
                                  ResourceBounds::new_for_manifest_constraint(&ManifestResourceConstraint::General(g2.clone())),
                                  ResourceBounds::new_for_manifest_constraint(&ManifestResourceConstraint::General(ga.clone()))) { (Ok(a), Ok(b), Ok(c)) => (a, b, c), _ => continue };
        let x = witness(&mut rng, &b1, 100);
        let mut taken: Ids = match &x { Some(x) if rng.chance(4, 5) => { let mut t = x.clone(); rng.shuffle(&mut t); let n = rng.usize_below(t.len() + 1); t.truncate(n); t } _ => gen_ids(&mut rng, &u1, 3) };
        let mut t_amt = if rng.chance(1, 10) { dec(-1) } else { dec(rng.below(4) as i128 * scale()) };
        if let Some((_, _, _, _, tk, ta)) = fam_i { taken = tk.clone(); t_amt = *ta; }
        let radd = { let (a, b) = (b1.clone(), b2.clone()); catch(move || a.add(b)) };
        let rtake = { let (a, t) = (b1.clone(), idset(&taken)); catch(move || { let mut a = a; a.mut_take(ResourceTakeAmount::NonFungibles(t)).map(|_| a) }) };
        let rtamt = { let a = b1.clone(); catch(move || { let mut a = a; a.mut_take(ResourceTakeAmount::Amount(t_amt)).map(|_| a) }) };
        let rass = { let (a, b) = (b1.clone(), ba.clone()); catch(move || a.handle_assertion(b)) };
        report.case(&format!("{}{}{}{:?}{}", bounds_coq(&b1), bounds_coq(&b2), bounds_coq(&ba), taken, t_amt), true);
        report.count(match &radd { Ok(Ok(_)) => "ids_add_ok", Ok(Err(_)) => "ids_add_err", Err(_) => "ids_add_panic" });
        report.count(match &rtake { Ok(Ok(_)) => "ids_take_ok", Ok(Err(_)) => "ids_take_err", Err(_) => "ids_take_panic" });
        report.count(match &rass { Ok(Ok(_)) => "ids_assert_ok", Ok(Err(_)) => "ids_assert_err", Err(_) => "ids_assert_panic" });
        // ---- oracle: soundness on concrete balances ----
        let input = json!({"b1": bounds_coq(&b1), "b2": bounds_coq(&b2), "assertion": bounds_coq(&ba), "taken": taken, "x": x});
        for r in [&radd, &rtake, &rtamt, &rass] { if let Err(p) = r { report.oracle_failure(i, "", &format!("ResourceBounds operation panicked: {}", p), input.clone()); } }
        if let Some(x) = &x {
            if let (Some(y), Ok(Ok(sum))) = (witness(&mut rng, &b2, 200), &radd) {
                if !y.iter().any(|i| x.contains(i)) {
                    let mut xy = x.clone(); xy.extend(y.iter().cloned());
                    if as_constraint(sum).validate_non_fungible_ids(&idset(&xy)).is_err() { report.oracle_failure(i, "", &format!("add unsound: {:?} ++ {:?} outside {}", x, y, bounds_coq(sum)), input.clone()); }
                    report.count("ids_add_soundness_checked");
                }
            }
            if taken.iter().all(|t| x.contains(t)) {
                let rest: Ids = x.iter().cloned().filter(|i| !taken.contains(i)).collect();
                match &rtake {
                    Ok(Ok(r)) => { if as_constraint(r).validate_non_fungible_ids(&idset(&rest)).is_err() { report.oracle_failure(i, "", &format!("take unsound: {:?} minus {:?} outside {}", x, taken, bounds_coq(r)), input.clone()); } report.count("ids_take_soundness_checked"); }
                    Ok(Err(_)) => report.count("ids_take_rejected_although_feasible"), // incompleteness (not part of the property); counted
                    Err(_) => {}
                }
            }
            if as_constraint(&ba).validate_non_fungible_ids(&idset(x)).is_ok() {
                match &rass {
                    Ok(Ok(r)) => { if as_constraint(r).validate_non_fungible_ids(&idset(x)).is_err() { report.oracle_failure(i, "", &format!("handle_assertion unsound: {:?} outside {}", x, bounds_coq(r)), input.clone()); } report.count("ids_assert_soundness_checked"); }
                    Ok(Err(_)) => { report.count("ids_assert_rejected_although_satisfied"); if report.notes.len() < 3 { report.notes.push(format!("assertion rejected although the sample balance {:?} satisfies bounds {} and assertion {}", x, bounds_coq(&b1), bounds_coq(&ba))); } }
                    Err(_) => {}
                }
            }
        }
        cw.push(format!("CIds {} {} {} {} {} {} {} {} {}", bounds_coq(&b1), bounds_coq(&b2), bounds_coq(&ba), ids_coq(&taken), zc(&t_amt), gres_coq(&radd), gres_coq(&rtake), gres_coq(&rtamt), gres_coq(&rass)));
    }
    for c in &fam_classes { report.floor(c, 1); }
    let n = args.cases as u64;
    report.floor("ids_add_soundness_checked", n / 40);
    report.floor("ids_take_soundness_checked", n / 40);
    report.floor("ids_assert_ok", n / 40);
    report.floor("add_soundness_checked", n / 10);
    report.floor("take_soundness_checked", n / 20);
    report.floor("upper_take_unsatisfiable", n / 50);
    cw.write(&args.out, args.shards).unwrap();
    report.write(&args.out).unwrap();
}
fn l1_negative(l: &LowerBound) -> bool { matches!(l, LowerBound::Inclusive(d) if d.is_negative()) }
fn u1_negative(u: &UpperBound) -> bool { matches!(u, UpperBound::Inclusive(d) if d.is_negative()) }
