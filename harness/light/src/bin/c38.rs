//! C38 correspondence harness: the bound algebra (LowerBound / UpperBound cmp, add_from, take_amount,
//! constrain_to) used by the static resource movements analyser vs coq/Model/C38_Bounds.v.
//! Direct oracle: soundness on sample points with BigInt arithmetic — for balances x, y inside the
//! operand bounds, x+y / x-t / x must lie inside the result bounds.
use num_bigint::BigInt;
use radix_common::prelude::*;
use serde_json::json;
use vh_common::*;

fn scale() -> i128 { 1_000_000_000_000_000_000i128 }
fn dec(a: i128) -> Decimal { Decimal::from_attos(I192::from(a)) }
fn big(d: &Decimal) -> BigInt { d.attos().to_string().parse().unwrap() }
fn zc(d: &Decimal) -> String { coq_z(d.attos().to_string()) }
fn gen_dec(rng: &mut Rng) -> Decimal {
    let k = rng.below(6) as i128;
    match rng.below(12) {
        0 => dec(0), 1 => dec(1), 2 | 3 | 4 => dec(k * scale()), 5 => dec(k * scale() + 1), 6 => dec(k * scale() - 1),
        7 => dec(rng.below(10 * scale() as u64) as i128), 8 => Decimal::MAX, 9 => Decimal::MAX - dec(rng.below(3 * scale() as u64) as i128),
        10 => dec((rng.next_u64() as i128) * (rng.next_u64() as i128 >> 2)), _ => dec(-(rng.below(3 * scale() as u64) as i128)),
    }
}
fn gen_lower(rng: &mut Rng) -> LowerBound { if rng.chance(1, 4) { LowerBound::NonZero } else { LowerBound::Inclusive(gen_dec(rng)) } }
fn gen_upper(rng: &mut Rng) -> UpperBound { if rng.chance(1, 4) { UpperBound::Unbounded } else { UpperBound::Inclusive(gen_dec(rng)) } }
fn lc(l: &LowerBound) -> String { match l { LowerBound::NonZero => "LNonZero".into(), LowerBound::Inclusive(d) => format!("(LIncl {})", zc(d)) } }
fn uc(u: &UpperBound) -> String { match u { UpperBound::Unbounded => "UUnbounded".into(), UpperBound::Inclusive(d) => format!("(UIncl {})", zc(d)) } }
fn ord(o: core::cmp::Ordering) -> &'static str { match o { core::cmp::Ordering::Less => "Lt", core::cmp::Ordering::Equal => "Eq", core::cmp::Ordering::Greater => "Gt" } }
fn sat_l(l: &LowerBound, x: &BigInt) -> bool { match l { LowerBound::NonZero => *x > BigInt::from(0), LowerBound::Inclusive(d) => big(d) <= *x } }
fn sat_u(u: &UpperBound, x: &BigInt) -> bool { match u { UpperBound::Unbounded => true, UpperBound::Inclusive(d) => *x <= big(d) } }
/// a non-negative sample inside (l, u), if any
fn sample(rng: &mut Rng, l: &LowerBound, u: &UpperBound) -> Option<Decimal> {
    let lo = match l { LowerBound::NonZero => dec(1), LowerBound::Inclusive(d) => if d.is_negative() { dec(0) } else { *d } };
    let hi = match u { UpperBound::Unbounded => lo.checked_add(dec(5 * scale())).unwrap_or(Decimal::MAX), UpperBound::Inclusive(d) => *d };
    if lo > hi { return None; }
    Some(match rng.below(3) { 0 => lo, 1 => hi, _ => { let span = hi - lo; let k = rng.below(1000) as i128; lo + (span / Decimal::from(1000u32)) * Decimal::from(k as u32) } })
}

fn main() {
    let args = Args::parse();
    let mut report = Report::new("C38", args.seed,
        "random LowerBound/UpperBound pairs (NonZero / Unbounded / Inclusive of 0, 1 atto, integers +-1 atto, fractional, MAX, near MAX, negative) and take amounts; \
         every operation run on the implementation (panics caught) and printed for the model; soundness sampled with BigInt. non-trivial = both operands Inclusive");
    let mut cw = CaseWriter::new("RV.Corr.C38_run RV.Model.C37_Constraint RV.Model.C38_Bounds", "check");
    let root = Rng::new(args.seed);
    for i in 0..args.cases {
        let mut rng = root.fork(i as u64);
        let (l1, l2, u1, u2) = (gen_lower(&mut rng), gen_lower(&mut rng), gen_upper(&mut rng), gen_upper(&mut rng));
        let t = if rng.chance(1, 12) { gen_dec(&mut rng) } else { let d = gen_dec(&mut rng); if d.is_negative() { dec(0) } else { d } };
        report.case(&format!("{}{}{}{}{}", lc(&l1), lc(&l2), uc(&u1), uc(&u2), t), matches!((&l1, &l2, &u1, &u2), (LowerBound::Inclusive(_), LowerBound::Inclusive(_), UpperBound::Inclusive(_), UpperBound::Inclusive(_))));
        let ladd = { let mut a = l1; match a.add_from(l2) { Ok(()) => Some(a), Err(_) => None } };
        let uadd = { let mut a = u1; match a.add_from(u2) { Ok(()) => Some(a), Err(_) => None } };
        let ltake = catch(move || { let mut a = l1; a.take_amount(t); a });
        let utake = catch(move || { let mut a = u1; a.take_amount(t).map(|_| a) });
        let lcon = { let mut a = l1; a.constrain_to(l2); a };
        let ucon = { let mut a = u1; a.constrain_to(u2); a };
        report.count(if ladd.is_some() { "lower_add_ok" } else { "lower_add_overflow" });
        report.count(match &utake { Ok(Ok(_)) => "upper_take_ok", Ok(Err(_)) => "upper_take_unsatisfiable", Err(_) => "upper_take_panic" });
        // ---- oracle: soundness on sample points ----
        let input = json!({"l1": lc(&l1), "u1": uc(&u1), "l2": lc(&l2), "u2": uc(&u2), "take": t.to_string()});
        if let (Some(x), Some(y)) = (sample(&mut rng, &l1, &u1), sample(&mut rng, &l2, &u2)) {
            if let (Some(l), Some(u)) = (&ladd, &uadd) {
                let s = big(&x) + big(&y);
                if !(sat_l(l, &s) && sat_u(u, &s)) { report.oracle_failure(i, "", &format!("add_from unsound: {} + {} outside ({}, {})", x, y, lc(l), uc(u)), input.clone()); }
                report.count("add_soundness_checked");
            }
            if sat_l(&lcon, &big(&x)) != (sat_l(&l1, &big(&x)) && sat_l(&l2, &big(&x))) || sat_u(&ucon, &big(&x)) != (sat_u(&u1, &big(&x)) && sat_u(&u2, &big(&x))) {
                if sat_l(&l2, &big(&x)) && sat_u(&u2, &big(&x)) { report.oracle_failure(i, "", &format!("constrain_to unsound at {}", x), input.clone()); }
            }
            if !t.is_negative() && t <= x {
                match (&ltake, &utake) {
                    (Ok(l), Ok(Ok(u))) => { let r = big(&x) - big(&t); if !(sat_l(l, &r) && sat_u(u, &r)) { report.oracle_failure(i, "", &format!("take_amount unsound: {} - {} outside ({}, {})", x, t, lc(l), uc(u)), input.clone()); } report.count("take_soundness_checked"); }
                    (_, Ok(Err(_))) => report.oracle_failure(i, "", &format!("take_amount reports unsatisfiable although balance {} >= take {}", x, t), input.clone()),
                    _ => if !l1_negative(&l1) && !u1_negative(&u1) { report.oracle_failure(i, "", "take_amount panicked on valid bounds and non-negative take", input.clone()); },
                }
            }
        }
        let lres = |r: &Option<LowerBound>| match r { Some(l) => format!("(BOk {})", lc(l)), None => "BOverflow".to_string() };
        let ures = |r: &Option<UpperBound>| match r { Some(u) => format!("(BOk {})", uc(u)), None => "BOverflow".to_string() };
        cw.push(format!("(({}, {}, {}, {}, {}), ({}, {}, {}, {}), ({}, {}, {}, {}))",
            lc(&l1), lc(&l2), uc(&u1), uc(&u2), zc(&t),
            ord(l1.cmp(&l2)), ord(u1.cmp(&u2)), lres(&ladd), ures(&uadd),
            match &ltake { Ok(l) => format!("(BOk {})", lc(l)), Err(_) => "BPanic".into() },
            match &utake { Ok(Ok(u)) => format!("(BOk {})", uc(u)), Ok(Err(_)) => "BTakeCannotBeSatisfied".into(), Err(_) => "BPanic".into() },
            lc(&lcon), uc(&ucon)));
    }
    let n = args.cases as u64;
    report.floor("add_soundness_checked", n / 10);
    report.floor("take_soundness_checked", n / 20);
    report.floor("upper_take_unsatisfiable", n / 50);
    cw.write(&args.out, args.shards).unwrap();
    report.write(&args.out).unwrap();
}
fn l1_negative(l: &LowerBound) -> bool { matches!(l, LowerBound::Inclusive(d) if d.is_negative()) }
fn u1_negative(u: &UpperBound) -> bool { matches!(u, UpperBound::Inclusive(d) if d.is_negative()) }
