//! C14 correspondence harness: SubstateDatabaseOverlay over InMemorySubstateDatabase.
//! A scenario = commits that build the base database, then steps on an owned overlay over it
//! (commit / get / list from a cursor / commit_overlay_into_root_store + dump).  The run starts with a
//! deterministic boundary family (identical for every seed): for three base shapes, every sequence
//! of one or two partition updates from a menu that covers each (staged, incoming) case of
//! merge_database_updates, each branch of the overlay read paths and of OverlayingIterator, with
//! reads at every key and listings from every cursor (keys, deleted keys, neighbours, None), then
//! hand-written multi-node / multi-partition shapes; random histories follow.
//! Every observation is written for the Coq model (coq/Model/C14_Overlay.v, coq/Corr/C14_run.v).
//! Direct oracle: the same reads on (a) a second real InMemorySubstateDatabase that received the
//! same commits directly (the property's own statement) and (b) a plain BTreeMap replay.
#[path = "../store_gen.rs"]
mod store_gen;
use radix_common::prelude::{DatabaseUpdate, IndexMap};
use radix_substate_store_impls::memory_db::InMemorySubstateDatabase;
use radix_substate_store_impls::substate_database_overlay::*;
use radix_substate_store_interface::interface::*;
use serde_json::json;
use store_gen::*;
use vh_common::*;

#[derive(Clone, Debug)]
enum Step {
    Commit(DatabaseUpdates),
    Get(DbPartitionKey, Vec<u8>),
    List(DbPartitionKey, Option<Vec<u8>>),
    ReadAll,
    Merge,
}
struct Scenario {
    u: Universe,
    base: Vec<DatabaseUpdates>,
    steps: Vec<Step>,
    classes: Vec<String>,
}

// ---- building blocks for the deterministic family ----------------------------------------------
fn k(i: u8) -> Vec<u8> {
    vec![i]
}
fn delta(es: &[(Vec<u8>, Option<Vec<u8>>)]) -> PartitionDatabaseUpdates {
    let mut m = IndexMap::new();
    for (key, v) in es {
        m.insert(DbSortKey(key.clone()), match v { Some(v) => DatabaseUpdate::Set(v.clone()), None => DatabaseUpdate::Delete });
    }
    PartitionDatabaseUpdates::Delta { substate_updates: m }
}
fn reset(es: &[(Vec<u8>, Vec<u8>)]) -> PartitionDatabaseUpdates {
    let mut m = IndexMap::new();
    for (key, v) in es {
        m.insert(DbSortKey(key.clone()), v.clone());
    }
    PartitionDatabaseUpdates::Reset { new_substate_values: m }
}
fn commit_of(parts: Vec<(Vec<u8>, u8, PartitionDatabaseUpdates)>) -> DatabaseUpdates {
    let mut du = DatabaseUpdates::default();
    for (nk, pn, pu) in parts {
        du.node_updates.entry(nk).or_default().partition_updates.insert(pn, pu);
    }
    du
}

/// menu of partition updates on the partition ([1], 0) whose base content is one of the base shapes
fn menu() -> Vec<(&'static str, PartitionDatabaseUpdates)> {
    vec![
        ("Dset_present", delta(&[(k(2), Some(vec![22]))])),
        ("Ddel_present", delta(&[(k(2), None)])),
        ("Dset_absent_middle", delta(&[(k(3), Some(vec![33]))])),
        ("Ddel_absent", delta(&[(k(3), None)])),
        ("Dset_before_first_after_last", delta(&[(k(1), Some(vec![11])), (k(5), Some(vec![55]))])),
        ("Ddel_all_consecutive", delta(&[(k(2), None), (k(3), None), (k(4), None)])),
        ("Dmixed", delta(&[(k(4), None), (k(2), Some(vec![])), (vec![2, 0], Some(vec![20]))])),
        ("Dempty", delta(&[])),
        ("Rempty", reset(&[])),
        ("Rsame_key", reset(&[(k(2), vec![202])])),
        ("Rnew_key", reset(&[(k(3), vec![203])])),
        ("Router_keys", reset(&[(k(5), vec![205]), (k(1), vec![201])])),
    ]
}
fn bases() -> Vec<(&'static str, Vec<DatabaseUpdates>)> {
    vec![
        ("base_empty", vec![]),
        ("base_two", vec![commit_of(vec![(vec![1], 0, delta(&[(k(2), Some(vec![2])), (k(4), Some(vec![4]))])), (vec![1], 1, delta(&[(k(2), Some(vec![9]))]))])]),
        ("base_single", vec![commit_of(vec![(vec![1], 0, delta(&[(k(3), Some(vec![3]))]))])]),
    ]
}
fn family_universe() -> Universe {
    Universe {
        node_keys: vec![vec![1], vec![1, 0]],
        parts: vec![0, 1],
        sort_keys: vec![vec![], k(1), k(2), vec![2, 0], k(3), k(4), k(5)],
    }
}
fn kind(name: &str) -> char {
    name.chars().next().unwrap()
}

fn boundary_family() -> Vec<Scenario> {
    let mut v = Vec::new();
    let menu = menu();
    let mut idx = 0usize;
    for (bname, base) in bases() {
        // single update
        for (n1, u1) in &menu {
            v.push(Scenario {
                u: family_universe(),
                base: base.clone(),
                steps: vec![Step::Commit(commit_of(vec![(vec![1], 0, u1.clone())])), Step::ReadAll, Step::Merge, Step::ReadAll],
                classes: vec![format!("bf_{}", bname), format!("bf_seq1_{}", n1), "bf_merge_after_reads".into()],
            });
        }
        // every ordered pair: (staged kind, incoming kind) = DD, DR, RD, RR
        for (n1, u1) in &menu {
            for (n2, u2) in &menu {
                idx += 1;
                let mut steps = vec![
                    Step::Commit(commit_of(vec![(vec![1], 0, u1.clone())])),
                    Step::Commit(commit_of(vec![(vec![1], 0, u2.clone())])),
                    Step::ReadAll,
                ];
                let mut classes = vec![
                    format!("bf_{}", bname),
                    format!("bf_seq2_{}{}", kind(n1), kind(n2)),
                    format!("bf_first_{}", n1),
                    format!("bf_second_{}", n2),
                ];
                if idx % 3 == 0 {
                    steps.push(Step::Merge);
                    steps.push(Step::ReadAll);
                    classes.push("bf_merge_after_reads".into());
                }
                v.push(Scenario { u: family_universe(), base: base.clone(), steps, classes });
            }
        }
    }
    // hand-written shapes at the node / partition level of merge_database_updates and of the read paths
    let two = bases()[1].1.clone();
    let shapes: Vec<(&str, Vec<Step>)> = vec![
        // node absent in the overlay, commit brings two partitions at once (NodeDatabaseUpdates.into())
        ("bf_node_new_two_partitions", vec![
            Step::Commit(commit_of(vec![(vec![1], 1, reset(&[(k(7), vec![7])])), (vec![1], 0, delta(&[(k(2), None)]))])),
            Step::ReadAll]),
        // node present, partition new; then the other partition again
        ("bf_node_present_partition_new", vec![
            Step::Commit(commit_of(vec![(vec![1], 0, delta(&[(k(3), Some(vec![3]))]))])),
            Step::Commit(commit_of(vec![(vec![1], 1, delta(&[(k(2), None)]))])),
            Step::ReadAll,
            Step::Commit(commit_of(vec![(vec![1], 0, reset(&[]))])),
            Step::ReadAll, Step::Merge, Step::ReadAll]),
        // two nodes in one commit, one of them a prefix of the other; second node not in the base
        ("bf_two_nodes_prefix_related", vec![
            Step::Commit(commit_of(vec![(vec![1, 0], 0, delta(&[(k(2), Some(vec![1]))])), (vec![1], 0, delta(&[(k(2), Some(vec![2]))]))])),
            Step::ReadAll,
            Step::Commit(commit_of(vec![(vec![1, 0], 0, delta(&[(k(2), None)]))])),
            Step::ReadAll, Step::Merge, Step::ReadAll]),
        // write-then-remove of a pre-existing key, then write again (three deltas)
        ("bf_set_delete_set_preexisting", vec![
            Step::Commit(commit_of(vec![(vec![1], 0, delta(&[(k(2), Some(vec![1]))]))])),
            Step::Commit(commit_of(vec![(vec![1], 0, delta(&[(k(2), None)]))])),
            Step::ReadAll,
            Step::Commit(commit_of(vec![(vec![1], 0, delta(&[(k(2), Some(vec![3]))]))])),
            Step::ReadAll]),
        // reset, delta on the reset (set, overwrite, delete present, delete absent), reset again, delta
        ("bf_reset_delta_reset_delta", vec![
            Step::Commit(commit_of(vec![(vec![1], 0, reset(&[(k(1), vec![1]), (k(3), vec![3])]))])),
            Step::Commit(commit_of(vec![(vec![1], 0, delta(&[(k(3), None), (k(4), None), (k(1), Some(vec![9])), (k(5), Some(vec![5]))]))])),
            Step::ReadAll,
            Step::Commit(commit_of(vec![(vec![1], 0, reset(&[]))])),
            Step::Commit(commit_of(vec![(vec![1], 0, delta(&[(k(2), Some(vec![8]))]))])),
            Step::ReadAll, Step::Merge, Step::ReadAll]),
        // a staged partition that ends up empty is still yielded by list_partition_keys (C14_list_partition_keys_equality_refuted)
        ("bf_partition_keys_staged_empty", vec![
            Step::Commit(commit_of(vec![(vec![1, 0], 0, reset(&[])), (vec![1], 1, delta(&[(k(2), None)]))])),
            Step::ReadAll, Step::Merge, Step::ReadAll]),
        // merge of an empty overlay, and merge twice
        ("bf_merge_empty_overlay", vec![Step::Merge, Step::ReadAll, Step::Merge, Step::ReadAll]),
        // merge in the middle, then deltas on top of the merged root
        ("bf_merge_then_continue", vec![
            Step::Commit(commit_of(vec![(vec![1], 0, delta(&[(k(2), None), (k(3), Some(vec![3]))]))])),
            Step::Merge,
            Step::Commit(commit_of(vec![(vec![1], 0, delta(&[(k(3), None), (k(4), None)]))])),
            Step::ReadAll, Step::Merge, Step::ReadAll]),
        // delta that deletes everything of a partition and sets nothing; partition disappears on merge
        ("bf_delete_whole_partition_by_delta", vec![
            Step::Commit(commit_of(vec![(vec![1], 1, delta(&[(k(2), None)])), (vec![1], 0, delta(&[(k(2), None), (k(4), None)]))])),
            Step::ReadAll, Step::Merge, Step::ReadAll]),
    ];
    for (name, steps) in shapes {
        v.push(Scenario { u: family_universe(), base: two.clone(), steps, classes: vec![name.to_string()] });
    }
    v
}

fn random_scenario(rng: &mut Rng, i: usize) -> Scenario {
    let u = Universe::small(rng);
    let reset_pct = *rng.pick(&[10u64, 30, 50]);
    let nbase = rng.range(0, 4);
    let base: Vec<DatabaseUpdates> = (0..nbase).map(|_| gen_commit(rng, &u, 20)).collect();
    let pks = u.partition_keys();
    let cursors = u.cursors();
    let ncommits = if i % 8 == 0 { rng.range(1, 2) } else { rng.range(2, 10) };
    let merge_mid = if rng.chance(1, 4) { Some(rng.range(1, ncommits)) } else { None };
    let mut steps = Vec::new();
    for ci in 0..ncommits {
        steps.push(Step::Commit(gen_commit(rng, &u, reset_pct)));
        for _ in 0..rng.range(1, 4) {
            let pk = rng.pick(&pks).clone();
            steps.push(Step::Get(pk.clone(), rng.pick(&u.sort_keys).clone()));
            steps.push(Step::List(pk, rng.pick(&cursors).clone()));
        }
        if merge_mid == Some(ci + 1) {
            steps.push(Step::Merge);
        }
    }
    steps.push(Step::ReadAll);
    if rng.bool() {
        steps.push(Step::Merge);
        for pk in &pks {
            steps.push(Step::List(pk.clone(), rng.pick(&cursors).clone()));
        }
    }
    Scenario { u, base, steps, classes: vec![] }
}

type Dump = Vec<(DbPartitionKey, Vec<(Vec<u8>, Vec<u8>)>)>;
type Failed = Option<(String, serde_json::Value)>;

fn main() {
    let args = Args::parse();
    let mut report = Report::new(
        "C14",
        args.seed,
        "deterministic boundary family (3 base shapes x every single and every ordered pair of 12 partition updates: deltas setting/deleting present, absent, first, last, all keys, empty delta, \
         resets empty/same/new/outer keys; hand-written node/partition-level merge shapes, set-delete-set, reset-delta-reset-delta, merges of empty overlays and mid-history) with reads at all keys and \
         listings from all cursors; then random bases (0..4 commits) and overlay histories (1..10 commits) over a small key universe with prefix-related keys; \
         non-trivial = the history has a reset and a delta on an already staged partition; distinct by canonical text of base + history",
    );
    let mut cw = CaseWriter::new("RV.Lib.Bytes RV.Model.C14_Store RV.Model.C14_Overlay RV.Corr.C14_run", "check");
    let root = Rng::new(args.seed);
    let mut scenarios = boundary_family();
    let n_family = scenarios.len();
    for j in 0..args.cases {
        let mut rng = root.fork(j as u64);
        scenarios.push(random_scenario(&mut rng, j));
    }
    for (i, sc) in scenarios.into_iter().enumerate() {
        for c in &sc.classes {
            report.count(c);
        }
        let mut base = InMemorySubstateDatabase::standard();
        let mut st = RunState::default();
        for c in &sc.base {
            base.commit(c);
            st.direct.commit(c);
            st.replay.commit(c);
            st.canon.push_str(&updates_coq(c));
        }
        st.canon.push('|');
        st.root_copy = Imd2(base.clone());
        // constructors: owned (even cases) / mergeable borrow (odd cases)
        if i % 2 == 0 {
            let mut overlay = SubstateDatabaseOverlay::new_owned(base);
            run_steps(&mut overlay, &sc, &mut st, &mut report);
            let (root_db, left) = overlay.deconstruct();
            final_root_check(&root_db, &left, &mut st);
            report.count("constructor_owned");
        } else {
            {
                let mut overlay = SubstateDatabaseOverlay::new_mergeable(&mut base);
                run_steps(&mut overlay, &sc, &mut st, &mut report);
                let left = overlay.into_database_updates();
                st.left = Some(left);
            }
            let left = st.left.take().unwrap();
            final_root_check(&base, &left, &mut st);
            report.count("constructor_mergeable");
        }
        report.count_n("reads", st.n_reads);
        report.count_n("nonempty_listings", st.n_lists_nonempty);
        if i >= n_family {
            report.count("random_histories");
            if st.saw_reset {
                report.count("histories_with_reset");
            }
            if st.saw_delta_on_staged {
                report.count("histories_with_delta_on_staged_partition");
            }
        }
        report.case(&st.canon, st.saw_reset && st.saw_delta_on_staged);
        if let Some((what, mut input)) = st.failed.take() {
            input["base_commits"] = json!(sc.base.iter().map(updates_coq).collect::<Vec<_>>());
            input["ops"] = json!(st.ops.iter().filter(|o| o.starts_with("OCommit") || o.starts_with("OMerge")).collect::<Vec<_>>());
            input["classes"] = json!(sc.classes);
            report.oracle_failure(i, "", &what, input);
        }
        if i == 0 || i == n_family {
            report.sample(json!({"base_commits": sc.base.iter().map(updates_coq).collect::<Vec<_>>(), "first_ops": st.ops.iter().take(12).collect::<Vec<_>>()}));
        }
        cw.push(format!("({}, {})", coq_list(sc.base.iter().map(updates_coq)), coq_list(st.ops.into_iter())));
    }
    // new_unmergeable (shared borrow): same read paths; checked against the direct database only
    {
        let sc = &boundary_family()[40];
        let mut base = InMemorySubstateDatabase::standard();
        let mut direct = InMemorySubstateDatabase::standard();
        for c in &sc.base {
            base.commit(c);
            direct.commit(c);
        }
        let mut overlay = SubstateDatabaseOverlay::new_unmergeable(&base);
        for s in &sc.steps {
            if let Step::Commit(c) = s {
                overlay.commit(c);
                direct.commit(c);
            }
        }
        for pk in sc.u.partition_keys() {
            for cur in sc.u.cursors() {
                if collect_list(&overlay, &pk, &cur) != collect_list(&direct, &pk, &cur) {
                    report.oracle_failure(0, "", "listing through an unmergeable overlay differs from the database with the commits applied", json!({"pk": pk_coq(&pk)}));
                }
            }
        }
        report.count("constructor_unmergeable");
    }
    // floors: every class of the deterministic family
    for b in ["bf_base_empty", "bf_base_two", "bf_base_single"] {
        report.floor(b, 100);
    }
    for (n, _) in menu() {
        report.floor(&format!("bf_seq1_{}", n), 3);
        report.floor(&format!("bf_first_{}", n), 36);
        report.floor(&format!("bf_second_{}", n), 36);
    }
    for p in ["DD", "DR", "RD", "RR"] {
        report.floor(&format!("bf_seq2_{}", p), 48);
    }
    for c in ["bf_merge_after_reads", "bf_node_new_two_partitions", "bf_node_present_partition_new", "bf_two_nodes_prefix_related", "bf_set_delete_set_preexisting",
              "bf_reset_delta_reset_delta", "bf_partition_keys_staged_empty", "constructor_owned", "constructor_mergeable", "constructor_unmergeable",
              "partition_keys_exact", "partition_keys_with_staged_empty_partitions", "database_updates_observed", "bf_merge_empty_overlay", "bf_merge_then_continue", "bf_delete_whole_partition_by_delta"] {
        report.floor(c, 1);
    }
    let n = args.cases as u64;
    report.floor("partition_resets", n);
    report.floor("partition_deltas", n);
    report.floor("substate_deletes", n);
    report.floor("histories_with_delta_on_staged_partition", n / 4);
    report.floor("nonempty_listings", n);
    report.floor("merges", n / 4);
    if !args.oracle_only {
        cw.write(&args.out, args.shards).unwrap();
    }
    report.write(&args.out).unwrap();
}

type Imd = InMemorySubstateDatabase;

#[derive(Default)]
struct RunState {
    direct: Imd2,
    replay: Replay,
    root_copy: Imd2,
    ops: Vec<String>,
    canon: String,
    failed: Failed,
    staged: std::collections::BTreeSet<(Vec<u8>, u8)>,
    saw_reset: bool,
    saw_delta_on_staged: bool,
    n_reads: u64,
    n_lists_nonempty: u64,
    left: Option<DatabaseUpdates>,
}
/// InMemorySubstateDatabase has no Default; wrap it
struct Imd2(Imd);
impl Default for Imd2 {
    fn default() -> Self {
        Imd2(Imd::standard())
    }
}
impl std::ops::Deref for Imd2 {
    type Target = Imd;
    fn deref(&self) -> &Imd {
        &self.0
    }
}
impl std::ops::DerefMut for Imd2 {
    fn deref_mut(&mut self) -> &mut Imd {
        &mut self.0
    }
}
impl Imd2 {
    fn clone_from_db(db: &Imd) -> Imd2 {
        Imd2(db.clone())
    }
}

fn fail(st: &mut RunState, what: &str, v: serde_json::Value) {
    if st.failed.is_none() {
        st.failed = Some((what.to_string(), v));
    }
}

fn run_steps<S: std::borrow::BorrowMut<Imd>>(overlay: &mut SubstateDatabaseOverlay<S, Imd>, sc: &Scenario, st: &mut RunState, report: &mut Report) {
    let u = &sc.u;
    let pks = u.partition_keys();
    let cursors = u.cursors();
    for step in &sc.steps {
        match step {
            Step::Commit(c) => {
                for (nk, nu) in &c.node_updates {
                    for (pn, pu) in &nu.partition_updates {
                        let key = (nk.clone(), *pn);
                        match pu {
                            PartitionDatabaseUpdates::Reset { .. } => st.saw_reset = true,
                            PartitionDatabaseUpdates::Delta { .. } => {
                                if st.staged.contains(&key) {
                                    st.saw_delta_on_staged = true;
                                }
                            }
                        }
                        st.staged.insert(key);
                    }
                }
                let s = stats(c);
                report.count_n("partition_deltas", s.deltas);
                report.count_n("partition_resets", s.resets);
                report.count_n("empty_resets", s.empty_resets);
                report.count_n("substate_deletes", s.deletes);
                overlay.commit(c);
                st.direct.commit(c);
                st.replay.commit(c);
                st.ops.push(format!("OCommit {}", updates_coq(c)));
                st.canon.push_str(&updates_coq(c));
            }
            Step::Get(pk, sk) => {
                read_get(overlay, st, pk, sk);
            }
            Step::List(pk, cur) => {
                read_list(overlay, st, pk, cur);
            }
            Step::ReadAll => {
                for pk in &pks {
                    for sk in &u.sort_keys {
                        read_get(overlay, st, pk, sk);
                    }
                    for cur in &cursors {
                        read_list(overlay, st, pk, cur);
                    }
                }
                // list_partition_keys of the overlay, as yielded.  Proved relation (C14_list_partition_keys):
                // no duplicates, key order, and the partitions of the database with the commits applied are
                // exactly the yielded ones whose listing through the overlay is non-empty.
                let yielded: Vec<DbPartitionKey> = overlay.list_partition_keys().collect();
                let mut sorted = yielded.clone();
                sorted.sort();
                sorted.dedup();
                let nonempty: Vec<DbPartitionKey> = yielded.iter().filter(|pk| !collect_list(&*overlay, pk, &None).is_empty()).cloned().collect();
                let want: Vec<DbPartitionKey> = st.direct.list_partition_keys().collect();
                if sorted != yielded || nonempty != want {
                    fail(st, "overlay.list_partition_keys is not (ordered, duplicate-free, and a superset whose non-empty members are the partitions of the database with the commits applied)",
                         json!({"yielded": pks_coq(&yielded), "direct": pks_coq(&want)}));
                }
                report.count(if yielded == want { "partition_keys_exact" } else { "partition_keys_with_staged_empty_partitions" });
                st.ops.push(format!("OParts {}", pks_coq(&yielded)));
                // database_updates(): committing it to a copy of the root gives the database with the commits applied
                let du = overlay.database_updates();
                let mut copy = st.root_copy.0.clone();
                copy.commit(&du);
                if copy != st.direct.0 {
                    fail(st, "root.commit(overlay.database_updates()) differs from the database with the commits applied", json!({"updates": updates_coq(&du)}));
                }
                report.count("database_updates_observed");
                st.ops.push(format!("OUpdates {}", updates_coq(&du)));
            }
            Step::Merge => {
                overlay.commit_overlay_into_root_store();
                st.staged.clear();
                st.root_copy = Imd2::clone_from_db(&st.direct.0);
                let dump = dump_root(overlay);
                check_dump(&dump, st);
                st.ops.push(format!("OMerge {}", dump_coq(&dump)));
                st.canon.push_str("|M|");
                report.count("merges");
            }
        }
    }
}

fn final_root_check(root_db: &Imd, left: &DatabaseUpdates, st: &mut RunState) {
    if left.node_updates.is_empty() && *root_db != st.direct.0 {
        fail(st, "merging the overlay into the base does not yield the base with the commits applied", json!({}));
    }
}
fn pks_coq(v: &[DbPartitionKey]) -> String {
    coq_list(v.iter().map(pk_coq))
}

fn read_get<S: std::borrow::Borrow<Imd>>(overlay: &SubstateDatabaseOverlay<S, Imd>, st: &mut RunState, pk: &DbPartitionKey, sk: &Vec<u8>) {
    let got = overlay.get_raw_substate_by_db_key(pk, &DbSortKey(sk.clone()));
    let want = st.direct.get_raw_substate_by_db_key(pk, &DbSortKey(sk.clone()));
    let want2 = st.replay.get(pk, sk);
    if got != want || got != want2 {
        fail(st, "get through the overlay differs from the database with the commits applied",
            json!({"pk": pk_coq(pk), "sk": hex(sk), "overlay": got.as_ref().map(|v| hex(v)), "direct": want.as_ref().map(|v| hex(v)), "replay": want2.as_ref().map(|v| hex(v))}));
    }
    st.n_reads += 1;
    st.ops.push(format!("OGet {} {} {}", pk_coq(pk), cb(sk), coq_option(got.map(|v| cb(&v)))));
}
fn read_list<S: std::borrow::Borrow<Imd>>(overlay: &SubstateDatabaseOverlay<S, Imd>, st: &mut RunState, pk: &DbPartitionKey, cur: &Option<Vec<u8>>) {
    let got = collect_list(overlay, pk, cur);
    let want = collect_list(&st.direct.0, pk, cur);
    let want2 = st.replay.list(pk, cur);
    if got != want || got != want2 {
        fail(st, "listing through the overlay differs from the database with the commits applied",
            json!({"pk": pk_coq(pk), "from": cur.as_ref().map(|k| hex(k)), "overlay": entries_coq(&got), "direct": entries_coq(&want), "replay": entries_coq(&want2)}));
    }
    st.n_reads += 1;
    if !got.is_empty() {
        st.n_lists_nonempty += 1;
    }
    st.ops.push(format!("OList {} {} {}", pk_coq(pk), cursor_coq(cur), entries_coq(&got)));
}

/// partitions of the root (through the overlay whose staging area is empty) with full listings
fn dump_root<S: std::borrow::Borrow<Imd>>(overlay: &SubstateDatabaseOverlay<S, Imd>) -> Dump {
    overlay
        .list_partition_keys()
        .map(|pk| {
            let es = collect_list(overlay, &pk, &None);
            (pk, es)
        })
        .collect()
}
fn dump_coq(d: &Dump) -> String {
    coq_list(d.iter().map(|(pk, es)| format!("({}, {})", pk_coq(pk), entries_coq(es))))
}
fn check_dump(d: &Dump, st: &mut RunState) {
    let want: Dump = st.direct.list_partition_keys().map(|pk| { let es = collect_list(&st.direct.0, &pk, &None); (pk, es) }).collect();
    let want2: Vec<((Vec<u8>, u8), Vec<(Vec<u8>, Vec<u8>)>)> =
        st.replay.parts.iter().map(|(k, p)| (k.clone(), p.iter().map(|(a, b)| (a.clone(), b.clone())).collect())).collect();
    let got2: Vec<((Vec<u8>, u8), Vec<(Vec<u8>, Vec<u8>)>)> = d.iter().map(|(pk, es)| ((pk.node_key.clone(), pk.partition_num), es.clone())).collect();
    if d != &want || got2 != want2 {
        fail(st, "root after commit_overlay_into_root_store differs from the base with the commits applied", json!({"root": dump_coq(d), "direct": dump_coq(&want)}));
    }
}
