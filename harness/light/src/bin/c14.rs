//! C14 correspondence harness: SubstateDatabaseOverlay over InMemorySubstateDatabase.
//! A base database is built by commits; an owned overlay over it receives a random commit history
//! interleaved with reads, cursor listings and (sometimes) commit_overlay_into_root_store.
//! Every observation is written for the Coq model (coq/Model/C14_Overlay.v, coq/Corr/C14_run.v).
//! Direct oracle: the same reads on (a) a second real InMemorySubstateDatabase that received the
//! same commits directly (the property's own statement) and (b) a plain BTreeMap replay.
#[path = "../store_gen.rs"]
mod store_gen;
use radix_substate_store_impls::memory_db::InMemorySubstateDatabase;
use radix_substate_store_impls::substate_database_overlay::*;
use radix_substate_store_interface::interface::*;
use serde_json::json;
use store_gen::*;
use vh_common::*;

fn main() {
    let args = Args::parse();
    let mut report = Report::new(
        "C14",
        args.seed,
        "random base (0..4 commits) and overlay commit histories (1..10 commits of deltas/resets over a small key universe with prefix-related keys), \
         reads at random keys and listings from random cursors after every commit, all keys x all cursors (keys, neighbours, None) at the end, \
         optional merge into the root in the middle and at the end; non-trivial = the history has a reset and a delta on an already staged partition; \
         distinct by canonical text of base + history",
    );
    let mut cw = CaseWriter::new("RV.Lib.Bytes RV.Model.C14_Store RV.Model.C14_Overlay RV.Corr.C14_run", "check");
    let root = Rng::new(args.seed);
    for i in 0..args.cases {
        let mut rng = root.fork(i as u64);
        let u = Universe::small(&mut rng);
        let reset_pct = *rng.pick(&[10u64, 30, 50]);
        // ---- base ----
        let nbase = rng.range(0, 4);
        let mut base = InMemorySubstateDatabase::standard();
        let mut direct = InMemorySubstateDatabase::standard();
        let mut replay = Replay::default();
        let mut base_commits = Vec::new();
        for _ in 0..nbase {
            let c = gen_commit(&mut rng, &u, 20);
            base.commit(&c);
            direct.commit(&c);
            replay.commit(&c);
            base_commits.push(c);
        }
        let mut overlay = SubstateDatabaseOverlay::new_owned(base);
        // ---- history ----
        let pks = u.partition_keys();
        let cursors = u.cursors();
        let ncommits = if i % 8 == 0 { rng.range(1, 2) } else { rng.range(2, 10) };
        let mut ops: Vec<String> = Vec::new();
        let mut canon = String::new();
        for c in &base_commits {
            canon.push_str(&updates_coq(c));
        }
        canon.push('|');
        let mut failed: Option<(String, serde_json::Value)> = None;
        let mut staged: std::collections::BTreeSet<(Vec<u8>, u8)> = Default::default();
        let mut saw_reset = false;
        let mut saw_delta_on_staged = false;
        let mut n_reads = 0u64;
        let mut n_lists_nonempty = 0u64;
        let read = |overlay: &OwnedSubstateDatabaseOverlay<InMemorySubstateDatabase>,
                        direct: &InMemorySubstateDatabase,
                        replay: &Replay,
                        ops: &mut Vec<String>,
                        pk: &DbPartitionKey,
                        sk: Option<&Vec<u8>>,
                        cur: Option<&Option<Vec<u8>>>,
                        failed: &mut Option<(String, serde_json::Value)>| {
            if let Some(sk) = sk {
                let got = overlay.get_raw_substate_by_db_key(pk, &DbSortKey(sk.clone()));
                let want = direct.get_raw_substate_by_db_key(pk, &DbSortKey(sk.clone()));
                let want2 = replay.get(pk, sk);
                if (got != want || got != want2) && failed.is_none() {
                    *failed = Some(("get through the overlay differs from the database with the commits applied".into(),
                        json!({"pk": pk_coq(pk), "sk": hex(sk), "overlay": got.as_ref().map(|v| hex(v)), "direct": want.as_ref().map(|v| hex(v)), "replay": want2.as_ref().map(|v| hex(v))})));
                }
                ops.push(format!("OGet {} {} {}", pk_coq(pk), cb(sk), coq_option(got.map(|v| cb(&v)))));
            }
            if let Some(cur) = cur {
                let got = collect_list(overlay, pk, cur);
                let want = collect_list(direct, pk, cur);
                let want2 = replay.list(pk, cur);
                if (got != want || got != want2) && failed.is_none() {
                    *failed = Some(("listing through the overlay differs from the database with the commits applied".into(),
                        json!({"pk": pk_coq(pk), "from": cur.as_ref().map(|k| hex(k)), "overlay": entries_coq(&got), "direct": entries_coq(&want), "replay": entries_coq(&want2)})));
                }
                ops.push(format!("OList {} {} {}", pk_coq(pk), cursor_coq(cur), entries_coq(&got)));
                return !got.is_empty();
            }
            false
        };
        let merge_mid = if rng.chance(1, 4) { Some(rng.range(1, ncommits)) } else { None };
        for ci in 0..ncommits {
            let c = gen_commit(&mut rng, &u, reset_pct);
            // statistics: resets, and deltas hitting partitions already staged
            for (nk, nu) in &c.node_updates {
                for (pn, pu) in &nu.partition_updates {
                    let key = (nk.clone(), *pn);
                    match pu {
                        PartitionDatabaseUpdates::Reset { .. } => saw_reset = true,
                        PartitionDatabaseUpdates::Delta { .. } => {
                            if staged.contains(&key) {
                                saw_delta_on_staged = true;
                            }
                        }
                    }
                    staged.insert(key);
                }
            }
            let st = stats(&c);
            report.count_n("partition_deltas", st.deltas);
            report.count_n("partition_resets", st.resets);
            report.count_n("empty_resets", st.empty_resets);
            report.count_n("substate_deletes", st.deletes);
            overlay.commit(&c);
            direct.commit(&c);
            replay.commit(&c);
            ops.push(format!("OCommit {}", updates_coq(&c)));
            canon.push_str(&updates_coq(&c));
            // a few random reads after each commit
            for _ in 0..rng.range(1, 4) {
                let pk = rng.pick(&pks).clone();
                let sk = rng.pick(&u.sort_keys).clone();
                read(&overlay, &direct, &replay, &mut ops, &pk, Some(&sk), None, &mut failed);
                n_reads += 1;
                let cur = rng.pick(&cursors).clone();
                if read(&overlay, &direct, &replay, &mut ops, &pk, None, Some(&cur), &mut failed) {
                    n_lists_nonempty += 1;
                }
                n_reads += 1;
            }
            if merge_mid == Some(ci + 1) {
                overlay.commit_overlay_into_root_store();
                staged.clear();
                let dump = dump_root(&overlay);
                check_dump(&dump, &direct, &replay, &mut failed);
                ops.push(format!("OMerge {}", dump_coq(&dump)));
                canon.push_str("|M|");
                report.count("merges");
            }
        }
        // exhaustive reads at the end
        for pk in &pks {
            for sk in &u.sort_keys {
                read(&overlay, &direct, &replay, &mut ops, pk, Some(sk), None, &mut failed);
                n_reads += 1;
            }
            for cur in &cursors {
                if read(&overlay, &direct, &replay, &mut ops, pk, None, Some(cur), &mut failed) {
                    n_lists_nonempty += 1;
                }
                n_reads += 1;
            }
        }
        // informational (outside the property statement): the overlay's list_partition_keys also
        // yields staged partitions that hold no substate once the commits are applied
        {
            let mut a: Vec<DbPartitionKey> = overlay.list_partition_keys().collect();
            a.sort();
            a.dedup();
            let b: Vec<DbPartitionKey> = direct.list_partition_keys().collect();
            report.count(if a == b { "info_overlay_partition_key_set_equal" } else { "info_overlay_partition_key_set_has_empty_staged_partitions" });
        }
        // merge into the root at the end (half of the cases), then dump and re-read
        if rng.bool() {
            overlay.commit_overlay_into_root_store();
            let dump = dump_root(&overlay);
            check_dump(&dump, &direct, &replay, &mut failed);
            ops.push(format!("OMerge {}", dump_coq(&dump)));
            report.count("merges");
            for pk in &pks {
                let cur = rng.pick(&cursors).clone();
                read(&overlay, &direct, &replay, &mut ops, pk, None, Some(&cur), &mut failed);
            }
            let (root_db, left) = overlay.deconstruct();
            if (root_db != direct || !left.node_updates.is_empty()) && failed.is_none() {
                failed = Some(("merging the overlay into the base does not yield the base with the commits applied".into(), json!({})));
            }
        }
        report.count_n("reads", n_reads);
        report.count_n("nonempty_listings", n_lists_nonempty);
        if saw_reset {
            report.count("histories_with_reset");
        }
        if saw_delta_on_staged {
            report.count("histories_with_delta_on_staged_partition");
        }
        report.case(&canon, saw_reset && saw_delta_on_staged);
        if let Some((what, mut input)) = failed {
            input["base_commits"] = json!(base_commits.iter().map(updates_coq).collect::<Vec<_>>());
            input["ops"] = json!(ops.iter().filter(|o| o.starts_with("OCommit") || o.starts_with("OMerge")).collect::<Vec<_>>());
            report.oracle_failure(i, "", &what, input);
        }
        if i < 2 {
            report.sample(json!({"base_commits": base_commits.iter().map(updates_coq).collect::<Vec<_>>(), "first_ops": ops.iter().take(12).collect::<Vec<_>>()}));
        }
        cw.push(format!("({}, {})", coq_list(base_commits.iter().map(updates_coq)), coq_list(ops.into_iter())));
    }
    let n = args.cases as u64;
    report.floor("partition_resets", n);
    report.floor("partition_deltas", n);
    report.floor("substate_deletes", n);
    report.floor("histories_with_delta_on_staged_partition", n / 4);
    report.floor("nonempty_listings", n);
    report.floor("merges", n / 4);
    if !args.oracle_only {
        cw.write(&args.out, args.shards).unwrap();
    }
    report.write(&args.out).unwrap();
}

type Dump = Vec<(DbPartitionKey, Vec<(Vec<u8>, Vec<u8>)>)>;

/// partitions of the root (through the overlay whose staging area is empty) with full listings
fn dump_root(overlay: &OwnedSubstateDatabaseOverlay<InMemorySubstateDatabase>) -> Dump {
    overlay
        .list_partition_keys()
        .map(|pk| {
            let es = collect_list(overlay, &pk, &None);
            (pk, es)
        })
        .collect()
}
fn dump_coq(d: &Dump) -> String {
    coq_list(d.iter().map(|(pk, es)| format!("({}, {})", pk_coq(pk), entries_coq(es))))
}
fn check_dump(d: &Dump, direct: &InMemorySubstateDatabase, replay: &Replay, failed: &mut Option<(String, serde_json::Value)>) {
    let want: Dump = direct.list_partition_keys().map(|pk| { let es = collect_list(direct, &pk, &None); (pk, es) }).collect();
    let want2: Vec<((Vec<u8>, u8), Vec<(Vec<u8>, Vec<u8>)>)> =
        replay.parts.iter().map(|(k, p)| (k.clone(), p.iter().map(|(a, b)| (a.clone(), b.clone())).collect())).collect();
    let got2: Vec<((Vec<u8>, u8), Vec<(Vec<u8>, Vec<u8>)>)> = d.iter().map(|(pk, es)| ((pk.node_key.clone(), pk.partition_num), es.clone())).collect();
    if (d != &want || got2 != want2) && failed.is_none() {
        *failed = Some(("root after commit_overlay_into_root_store differs from the base with the commits applied".into(), json!({"root": dump_coq(d), "direct": dump_coq(&want)})));
    }
}
