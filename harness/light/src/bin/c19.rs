//! C19 harness: crash sweep over RocksDBWithMerkleTreeSubstateStore::commit.
//!
//! Per case: a random history (0..3 earlier commits) builds a pre-commit store in a fresh RocksDB
//! directory under --out; the commit under test is first run to completion with the write trace of
//! the `verif_crash` hook recorded (every individual database write = one numbered step; operations
//! staged into the WriteBatch are traced, not numbered).  Then, for every step k, a CHILD PROCESS
//! (this binary re-executed with --child-dir) runs the same commit on a copy of the pre-commit
//! directory and abort()s right before step k (k = number of steps: runs to completion).  The parent
//! reopens the directory and dumps it.
//!
//! Direct oracle (Rust, independent of the Coq model), for every k:
//!   * the stored root hash equals the root recomputed by feeding all stored substates into a fresh
//!     in-memory tree (put_at_next_version on an empty TypedInMemoryTreeStore);
//!   * every tree node reachable from the stored version's root is present and the tree's leaves are
//!     exactly the stored substates (list_substate_hashes_at_version on the reopened store);
//!   * (substates, version, root) equal the pre-commit or the post-commit state; the complete run
//!     equals the post-commit state with version = pre + 1.
//! Model side (coq/Corr/C19_run.v): the recorded trace must be the step layout the model derives
//! from the updates, and every dumped store must equal the model's prefix state.
#[path = "../jmt_common.rs"]
mod jmt_common;
use jmt_common::*;
use radix_common::crypto::{hash, Hash};
use radix_common::prelude::scrypto_decode;
use radix_substate_store_impls::rocks_db_with_merkle_tree::{verif_crash, Metadata, Options, RocksDBWithMerkleTreeSubstateStore};
use radix_substate_store_impls::state_tree::tree_store::TypedInMemoryTreeStore;
use radix_substate_store_impls::state_tree::{list_substate_hashes_at_version, put_at_next_version};
use radix_substate_store_interface::interface::*;
use serde_json::{json, Value};
use std::collections::BTreeMap;
use std::os::unix::process::ExitStatusExt;
use std::path::{Path, PathBuf};
use vh_common::*;

const CFS: [&str; 4] = ["meta", "substates", "merkle_nodes", "stale_merkle_tree_parts"];

fn open_store(dir: &Path, pruning: bool) -> RocksDBWithMerkleTreeSubstateStore {
    let mut options = Options::default();
    options.create_if_missing(true);
    options.create_missing_column_families(true);
    options.set_max_file_opening_threads(1); // default 16 threads per open: too costly for a sweep
    options.set_log_level(radix_substate_store_impls::rocks_db_with_merkle_tree::LogLevel::Error);
    RocksDBWithMerkleTreeSubstateStore::with_options(&options, dir.to_path_buf(), pruning)
}

fn copy_dir(from: &Path, to: &Path) {
    let _ = std::fs::remove_dir_all(to);
    std::fs::create_dir_all(to).unwrap();
    for e in std::fs::read_dir(from).unwrap() {
        let e = e.unwrap();
        let p = e.path();
        if p.is_file() {
            if e.file_name() == "LOCK" {
                continue;
            }
            std::fs::copy(&p, to.join(e.file_name())).unwrap();
        }
    }
}

// ---- commit (de)serialisation for the child process ----------------------------------------------

fn commit_to_json(c: &Commit) -> Value {
    Value::Array(
        c.iter()
            .map(|(ek, pus)| {
                json!([hex(ek), pus.iter().map(|(p, u)| match u {
                    PUpd::Delta(l) => json!([p, "D", l.iter().map(|(k, v)| json!([hex(k), v.as_ref().map(|v| hex(v))])).collect::<Vec<_>>()]),
                    PUpd::Reset(l) => json!([p, "R", l.iter().map(|(k, v)| json!([hex(k), hex(v)])).collect::<Vec<_>>()]),
                }).collect::<Vec<_>>()])
            })
            .collect(),
    )
}
fn unhex(s: &str) -> Vec<u8> {
    (0..s.len() / 2).map(|i| u8::from_str_radix(&s[2 * i..2 * i + 2], 16).unwrap()).collect()
}
fn commit_from_json(v: &Value) -> Commit {
    v.as_array()
        .unwrap()
        .iter()
        .map(|e| {
            let ek = unhex(e[0].as_str().unwrap());
            let pus = e[1]
                .as_array()
                .unwrap()
                .iter()
                .map(|pu| {
                    let p = pu[0].as_u64().unwrap() as u8;
                    let l = pu[2].as_array().unwrap();
                    let u = if pu[1].as_str().unwrap() == "D" {
                        PUpd::Delta(l.iter().map(|kv| (unhex(kv[0].as_str().unwrap()), kv[1].as_str().map(unhex))).collect())
                    } else {
                        PUpd::Reset(l.iter().map(|kv| (unhex(kv[0].as_str().unwrap()), unhex(kv[1].as_str().unwrap()))).collect())
                    };
                    (p, u)
                })
                .collect();
            (ek, pus)
        })
        .collect()
}

// ---- child: run the commit, abort before step k ---------------------------------------------------

fn child_main(args: &Args) -> ! {
    let dir = PathBuf::from(&args.extra["child-dir"]);
    let k: u64 = args.extra["abort-at"].parse().unwrap();
    let pruning = args.extra["pruning"] == "1";
    let commit = commit_from_json(&serde_json::from_str(&std::fs::read_to_string(&args.extra["commit-file"]).unwrap()).unwrap());
    let mut store = open_store(&dir, pruning);
    verif_crash::arm(Some(k), false);
    store.commit(&to_db_updates(&commit));
    verif_crash::disarm();
    drop(store);
    std::process::exit(0)
}

// ---- dump of a (re)opened directory ----------------------------------------------------------------

#[derive(Clone, Debug, PartialEq)]
struct Dump {
    version: u64,
    root: Vec<u8>,
    subs: Vec<(Vec<u8>, Vec<u8>)>, // raw substates CF (encoded key, value), in key order
    nodes: Vec<Vec<u8>>,           // raw merkle_nodes CF keys
    stale: Vec<Vec<u8>>,           // raw stale_merkle_tree_parts CF keys
    api_subs: BTreeMap<SubKey, Vec<u8>>,
    recomputed_root: Vec<u8>,
    tree_leaves: Result<BTreeMap<SubKey, Hash>, String>,
}

fn recompute_root(db: &BTreeMap<SubKey, Vec<u8>>) -> Result<Vec<u8>, String> {
    catch(std::panic::AssertUnwindSafe(|| {
        let store = TypedInMemoryTreeStore::new();
        put_at_next_version(&store, None, &to_db_updates(&commit_of_map(db))).0.to_vec()
    }))
}

fn dump(dir: &Path, pruning: bool) -> Result<Dump, String> {
    // through the store's own API (what a user of the reopened store sees)
    let (version, root, api_subs, tree_leaves) = {
        let store = catch(std::panic::AssertUnwindSafe(|| open_store(dir, pruning))).map_err(|e| format!("reopen panicked: {}", e))?;
        let version = store.get_current_version();
        let root = store.get_current_root_hash().0.to_vec();
        let mut api_subs = BTreeMap::new();
        for pk in store.list_partition_keys() {
            for (sk, v) in store.list_raw_values_from_db_key(&pk, None) {
                api_subs.insert((pk.node_key.clone(), pk.partition_num, sk.0), v);
            }
        }
        let tree_leaves = if version == 0 {
            Ok(BTreeMap::new())
        } else {
            catch(std::panic::AssertUnwindSafe(|| {
                let mut m = BTreeMap::new();
                for (pk, by_sort) in list_substate_hashes_at_version(&store, version) {
                    for (sk, h) in by_sort {
                        m.insert((pk.node_key.clone(), pk.partition_num, sk.0), h);
                    }
                }
                m
            }))
        };
        (version, root, api_subs, tree_leaves)
    };
    // raw column families
    let mut raw_options = rocksdb::Options::default();
    raw_options.set_max_file_opening_threads(1);
    let db = rocksdb::DB::open_cf_for_read_only(&raw_options, dir, CFS, false).map_err(|e| format!("raw open: {}", e))?;
    let all = |cf: &str| -> Vec<(Vec<u8>, Vec<u8>)> {
        db.iterator_cf(db.cf_handle(cf).unwrap(), rocksdb::IteratorMode::Start).map(|kv| { let (k, v) = kv.unwrap(); (k.to_vec(), v.to_vec()) }).collect()
    };
    let subs = all("substates");
    let nodes = all("merkle_nodes").into_iter().map(|(k, _)| k).collect();
    let stale = all("stale_merkle_tree_parts").into_iter().map(|(k, _)| k).collect();
    let meta = all("meta");
    let (rv, rr) = match meta.as_slice() {
        [] => (0u64, vec![0u8; 32]),
        [(k, v)] if k.is_empty() => {
            let m: Metadata = scrypto_decode(v).map_err(|e| format!("meta decode {:?}", e))?;
            (m.current_state_version, m.current_state_root_hash.0.to_vec())
        }
        _ => return Err("meta CF has unexpected keys".into()),
    };
    if rv != version || rr != root {
        return Err("raw meta CF disagrees with get_current_version/get_current_root_hash".into());
    }
    if subs.len() != api_subs.len() {
        if std::env::var("C19_DEBUG").is_ok() {
            eprintln!("RAW:");
            for (k, v) in &subs { eprintln!("  {} -> {}", hex(k), hex(v)); }
            eprintln!("API:");
            for (k, v) in &api_subs { eprintln!("  {} {} {} -> {}", hex(&k.0), k.1, hex(&k.2), hex(v)); }
        }
        return Err(format!("raw substates CF ({}) and the listing API ({}) disagree on the number of substates", subs.len(), api_subs.len()));
    }
    let recomputed_root = recompute_root(&api_subs)?;
    Ok(Dump { version, root, subs, nodes, stale, api_subs, recomputed_root, tree_leaves })
}

/// the property's statement on one reopened store
fn consistent(d: &Dump) -> Result<(), String> {
    if d.root != d.recomputed_root {
        return Err(format!(
            "stored root {} (version {}) does not describe the {} stored substates (recomputed root {})",
            hex(&d.root), d.version, d.api_subs.len(), hex(&d.recomputed_root)
        ));
    }
    match &d.tree_leaves {
        Err(e) => return Err(format!("tree at stored version {} is not complete: {}", d.version, e)),
        Ok(l) => {
            let want: BTreeMap<SubKey, Hash> = d.api_subs.iter().map(|(k, v)| (k.clone(), hash(v))).collect();
            if *l != want {
                return Err(format!("leaves of the tree at stored version {} ({}) differ from the stored substates ({})", d.version, l.len(), want.len()));
            }
        }
    }
    Ok(())
}

// ---- Coq printers -------------------------------------------------------------------------------------

/// byte string packed as a list of primitive integers 0x01 b1 .. bk, k <= 7 (`ub` in Corr/C19_run.v)
fn pb(bs: &[u8]) -> String {
    format!("(ub {})", pk_bytes(bs))
}
fn coq_updates(c: &Commit) -> String {
    coq_list(c.iter().map(|(ek, pus)| {
        format!(
            "({}, {})",
            pb(ek),
            coq_list(pus.iter().map(|(p, u)| {
                let us = match u {
                    PUpd::Delta(l) => format!(
                        "PDelta {}",
                        coq_list(l.iter().map(|(k, v)| match v {
                            Some(v) => format!("({}, USet {})", pb(k), pb(v)),
                            None => format!("({}, UDelete)", pb(k)),
                        }))
                    ),
                    PUpd::Reset(l) => format!("PReset {}", coq_list(l.iter().map(|(k, v)| format!("({}, {})", pb(k), pb(v))))),
                };
                format!("({}, {})", p, us)
            }))
        )
    }))
}
fn coq_obs(d: &Dump) -> String {
    format!(
        "(mkObs {} {} {} {} {})",
        d.version,
        pb(&d.root),
        coq_list(d.subs.iter().map(|(k, v)| format!("({}, {})", pb(k), pb(v)))),
        coq_list(d.nodes.iter().map(|k| pb(k))),
        coq_list(d.stale.iter().map(|k| pb(k)))
    )
}
fn tag_coq(tag: &str) -> Option<&'static str> {
    Some(match tag {
        "direct:put:substates" => "TDirectPutSub",
        "direct:delete:substates" => "TDirectDelSub",
        "direct:delete_range:substates" => "TDirectDelRangeSub",
        "batch:put:substates" => "TBatchPutSub",
        "batch:delete:substates" => "TBatchDelSub",
        "batch:delete_range:substates" => "TBatchDelRangeSub",
        "batch:put:merkle_nodes" => "TBatchPutNode",
        "batch:put:stale_merkle_tree_parts" => "TBatchPutStale",
        "batch:put:meta" => "TBatchPutMeta",
        "write_batch" => "TWriteBatch",
        "direct:delete:merkle_nodes" => "TDirectDelNode",
        _ => return None,
    })
}

fn shrink_values(c: &mut Commit, rng: &mut Rng) {
    // values do not influence the write layout; keep case files small (mostly <= 6 bytes)
    for (_, pus) in c.iter_mut() {
        for (_, u) in pus.iter_mut() {
            let f = |v: &mut Vec<u8>, rng: &mut Rng| {
                if v.len() > 6 && !rng.chance(1, 25) {
                    v.truncate(6)
                }
            };
            match u {
                PUpd::Delta(l) => l.iter_mut().for_each(|(_, v)| if let Some(v) = v { f(v, rng) }),
                PUpd::Reset(l) => l.iter_mut().for_each(|(_, v)| f(v, rng)),
            }
        }
    }
}

struct CrashResult {
    k: usize,
    aborted: bool,
    exit_ok: bool,
    dump: Result<Dump, String>,
}


struct Plan {
    class: Option<String>, // Some = member of the deterministic boundary family
    pruning: bool,
    prior: Vec<Commit>,
    commit: Commit,
    expect_panic: bool,
}

fn random_plan(i: usize, rng: &mut Rng, thorough: bool) -> Plan {
    let pools = gen_pools(rng);
    let pruning = !rng.chance(1, 3);
    let nprior = if rng.chance(1, 6) { 0 } else { rng.range(1, if thorough { 6 } else { 3 }) } as usize;
    let mut db: BTreeMap<SubKey, Vec<u8>> = BTreeMap::new();
    let mut prior = vec![];
    for _ in 0..nprior {
        let mut c = gen_commit(rng, &pools, &db);
        shrink_values(&mut c, rng);
        apply_to_map(&mut db, &c);
        prior.push(c);
    }
    let mut commit = gen_commit(rng, &pools, &db);
    if count_ops(&commit).0 + count_ops(&commit).1 + count_ops(&commit).2 == 0 && !rng.chance(1, 6) {
        commit = gen_commit(rng, &pools, &db);
    }
    shrink_values(&mut commit, rng);
    // a small stream of commits the state tree rejects by panicking (a sort key that is a proper
    // prefix of another one in the same partition: known finding C15 merkle-prefix-keys): a commit
    // that dies this way must leave the pre-commit store
    let mut expect_panic = false;
    if i % 12 == 11 {
        'outer: for (_, pus) in commit.iter_mut() {
            for (_, u) in pus.iter_mut() {
                if let PUpd::Delta(l) = u {
                    if let Some((k, Some(_))) = l.iter().find(|(_, v)| v.is_some()).cloned() {
                        let mut k2 = k.clone();
                        k2.push(0);
                        l.push((k2, Some(vec![1])));
                        expect_panic = true;
                        break 'outer;
                    }
                }
            }
        }
    }
    Plan { class: None, pruning, prior, commit, expect_panic }
}

/// The deterministic boundary family: every branch of `commit` (no metadata yet / metadata present,
/// Delta Set / Delete, Reset with and without new values, on present / absent / single-key partitions,
/// pruning on / off, stale single nodes / stale subtrees, tiers that disappear, store that becomes
/// empty, empty commits) and multi-commit shapes (reset-then-delta, write-then-remove, refill of an
/// emptied store), each with pruning enabled and disabled, every crash point swept.
fn family() -> Vec<Plan> {
    const E1: &[u8] = &[0x11, 0x22];
    const E2: &[u8] = &[0x11, 0x23]; // shares three nibbles with E1
    const E3: &[u8] = &[0x90, 0x00];
    const A: &[u8] = &[0x10, 0x00];
    const B: &[u8] = &[0x10, 0x01]; // shares three nibbles with A
    const C: &[u8] = &[0x1f, 0xff];
    const D: &[u8] = &[0xa0, 0x00];
    const X: &[u8] = &[0x55, 0x55]; // never in the base history
    const Y: &[u8] = &[0x66, 0x66];
    fn set(k: &[u8], v: &[u8]) -> (Vec<u8>, Option<Vec<u8>>) {
        (k.to_vec(), Some(v.to_vec()))
    }
    fn del(k: &[u8]) -> (Vec<u8>, Option<Vec<u8>>) {
        (k.to_vec(), None)
    }
    fn delta(l: Vec<(Vec<u8>, Option<Vec<u8>>)>) -> PUpd {
        PUpd::Delta(l)
    }
    fn reset(l: Vec<(&[u8], &[u8])>) -> PUpd {
        PUpd::Reset(l.into_iter().map(|(k, v)| (k.to_vec(), v.to_vec())).collect())
    }
    fn one(e: &[u8], p: u8, u: PUpd) -> Commit {
        vec![(e.to_vec(), vec![(p, u)])]
    }
    // base history: e1/p0 {a,b,c,d}, e1/p1 {a}, e2/p0 {a,d}, e3/p255 {c}
    let h: Vec<Commit> = vec![
        vec![
            (E1.to_vec(), vec![(0, delta(vec![set(A, &[1]), set(B, &[2]), set(C, &[3])])), (1, delta(vec![set(A, &[9])]))]),
            (E2.to_vec(), vec![(0, delta(vec![set(A, &[4]), set(D, &[5])]))]),
        ],
        vec![(E1.to_vec(), vec![(0, delta(vec![set(B, &[22]), set(D, &[7])]))]), (E3.to_vec(), vec![(255, delta(vec![set(C, &[8])]))])],
    ];
    let delete_everything: Commit = vec![
        (E1.to_vec(), vec![(0, delta(vec![del(A), del(B), del(C), del(D)])), (1, delta(vec![del(A)]))]),
        (E2.to_vec(), vec![(0, delta(vec![del(A), del(D)]))]),
        (E3.to_vec(), vec![(255, delta(vec![del(C)]))]),
    ];
    let with = |extra: Commit| -> Vec<Commit> {
        let mut v = h.clone();
        v.push(extra);
        v
    };
    let big = vec![0xabu8; 300];
    let scenarios: Vec<(&str, Vec<Commit>, Commit, bool)> = vec![
        ("first_commit_single_set", vec![], one(E1, 0, delta(vec![set(A, &[1])])), false),
        ("first_commit_empty", vec![], vec![], false),
        ("first_commit_reset_with_values", vec![], one(E1, 0, reset(vec![(A, &[1]), (B, &[2])])), false),
        ("first_commit_delete_absent", vec![], one(E1, 0, delta(vec![del(A)])), false),
        ("delta_set_new_key", h.clone(), one(E1, 0, delta(vec![set(X, &[1])])), false),
        ("delta_overwrite", h.clone(), one(E1, 0, delta(vec![set(A, &[77])])), false),
        ("delta_overwrite_same_value", h.clone(), one(E1, 0, delta(vec![set(A, &[1])])), false),
        ("delta_delete_existing", h.clone(), one(E1, 0, delta(vec![del(A)])), false),
        ("delta_delete_absent", h.clone(), one(E1, 0, delta(vec![del(X)])), false),
        ("delta_mixed_ops", h.clone(), one(E1, 0, delta(vec![set(X, &[1]), set(A, &[77]), del(B), del(Y)])), false),
        ("delta_empty_and_big_values", h.clone(), one(E1, 0, delta(vec![set(X, &[]), set(Y, &big)])), false),
        ("delete_last_substate_of_partition", h.clone(), one(E1, 1, delta(vec![del(A)])), false),
        ("delete_last_substate_of_entity", h.clone(), one(E3, 255, delta(vec![del(C)])), false),
        ("delete_everything", h.clone(), delete_everything.clone(), false),
        ("reset_nonempty_with_values", h.clone(), one(E1, 0, reset(vec![(A, &[5]), (Y, &[6])])), false),
        ("reset_nonempty_to_empty", h.clone(), one(E1, 0, reset(vec![])), false),
        ("reset_absent_partition_with_values", h.clone(), one(E1, 7, reset(vec![(A, &[1])])), false),
        ("reset_absent_partition_empty", h.clone(), one(E1, 7, reset(vec![])), false),
        ("reset_single_key_partition", h.clone(), one(E1, 1, reset(vec![(B, &[3])])), false),
        ("reset_last_partition_255", h.clone(), one(E3, 255, reset(vec![(A, &[1]), (C, &[2])])), false),
        ("reset_and_delta_same_node", h.clone(), vec![(E1.to_vec(), vec![(0, reset(vec![(A, &[5])])), (1, delta(vec![set(B, &[1])]))])], false),
        (
            "multi_node_delta_reset_delete",
            h.clone(),
            vec![(E1.to_vec(), vec![(0, delta(vec![set(X, &[1])]))]), (E2.to_vec(), vec![(0, reset(vec![(C, &[1])]))]), (E3.to_vec(), vec![(255, delta(vec![del(C)]))])],
            false,
        ),
        ("delta_after_reset", with(one(E1, 0, reset(vec![(A, &[5]), (B, &[6])]))), one(E1, 0, delta(vec![del(A), set(C, &[1])])), false),
        ("write_then_remove", with(one(E1, 0, delta(vec![set(X, &[1])]))), one(E1, 0, delta(vec![del(X)])), false),
        ("refill_emptied_store", with(delete_everything.clone()), one(E2, 0, delta(vec![set(A, &[1])])), false),
        ("empty_commit_on_nonempty_store", h.clone(), vec![], false),
        ("empty_delta", h.clone(), one(E1, 0, delta(vec![])), false),
        ("node_without_partitions", h.clone(), vec![(E1.to_vec(), vec![])], false),
        ("commit_dies_in_tree_computation", h.clone(), one(E1, 0, delta(vec![set(X, &[1]), set(&[0x55, 0x55, 0x00], &[2])])), true),
    ];
    let mut out = vec![];
    for (name, prior, commit, expect_panic) in scenarios {
        for pruning in [true, false] {
            out.push(Plan {
                class: Some(format!("fam_{}_{}", name, if pruning { "pruning_on" } else { "pruning_off" })),
                pruning,
                prior: prior.clone(),
                commit: commit.clone(),
                expect_panic,
            });
        }
    }
    out
}

fn main() {
    let args = Args::parse();
    if args.extra.contains_key("child-dir") {
        child_main(&args);
    }
    let thorough = args.tier == "thorough";
    let mut report = Report::new(
        "C19",
        args.seed,
        "random pre-commit histories (0..3 commits; thorough 0..6) and a commit under test (deltas, deletes, partition resets over 1..6 entities x 1..4 \
         partitions x 2..10 prefix-free sort keys sharing nibble prefixes; pruning on for ~2/3 of the cases) on RocksDBWithMerkleTreeSubstateStore in fresh \
         directories; the commit is crashed (child process abort) before every individual database write and the directory reopened; \
         non-trivial = commit under test that changes the substates of a non-empty store; distinct by canonical text of history + commit",
    );
    report.floor("crash_runs", 2 * args.cases as u64);
    report.floor("cases_with_prior_history", (args.cases / 5) as u64);
    report.floor("crash_points_after_first_write", (args.cases / 4) as u64);
    report.floor("obs_pre", (args.cases / 2) as u64);
    report.floor("obs_post", (args.cases / 2) as u64);
    // produced by the deterministic family alone (independent of the seed)
    report.floor("trace.batch:delete_range:substates", 16);
    report.floor("trace.batch:delete:substates", 20);
    report.floor("trace.batch:put:substates", 40);
    report.floor("trace.batch:put:stale_merkle_tree_parts", 25);
    report.floor("trace.direct:delete:merkle_nodes", 100);
    report.floor("pruned_node_versions_checked", 100);
    report.floor("crash_points_after_first_write", 100);
    report.floor("cases_commit_panicked_in_tree_computation", 2);
    let mut cw = CaseWriter::new("RV.Lib.Bytes RV.Model.C14_Store RV.Model.C19_CrashCommit RV.Corr.C19_run", "check");
    let root = Rng::new(args.seed);
    let tmp = args.out.join("rocks_tmp");
    let _ = std::fs::remove_dir_all(&tmp);
    std::fs::create_dir_all(&tmp).unwrap();
    let exe = std::env::current_exe().unwrap();
    let mut sample_trace_done = false;
    // the deterministic boundary family (identical for every seed) comes first, then the random stream
    let mut plans: Vec<Plan> = family();
    let n_family = plans.len();
    for p in &plans {
        report.floor(p.class.as_ref().unwrap(), 1);
    }
    for i in 0..args.cases {
        let mut rng = root.fork(i as u64);
        plans.push(random_plan(i, &mut rng, thorough));
    }
    report.extra.insert("family_cases".into(), json!(n_family));
    for (i, plan) in plans.into_iter().enumerate() {
        let mut rng = root.fork(1_000_000 + i as u64);
        let Plan { class, pruning, prior, commit, expect_panic } = plan;
        let is_family = class.is_some();
        let nprior = prior.len();
        let mut db: BTreeMap<SubKey, Vec<u8>> = BTreeMap::new();
        for c in &prior {
            apply_to_map(&mut db, c);
        }
        let mut db_post = db.clone();
        apply_to_map(&mut db_post, &commit);
        let canon = format!("{} {} {}", pruning, coq_list(prior.iter().map(coq_updates)), coq_updates(&commit));
        let input = json!({"pruning": pruning, "prior_commits": prior.iter().map(commit_to_json).collect::<Vec<_>>(), "commit": commit_to_json(&commit)});
        if nprior > 0 { report.count("cases_with_prior_history"); }
        report.count(if pruning { "cases_pruning_on" } else { "cases_pruning_off" });
        let (sets, dels, resets, _) = count_ops(&commit);
        report.count_n("commit_sets", sets);
        report.count_n("commit_deletes", dels);
        report.count_n("commit_resets", resets);

        // pre-commit directory
        let base = tmp.join(format!("base_{}", i));
        let _ = std::fs::remove_dir_all(&base);
        let built = catch(std::panic::AssertUnwindSafe(|| {
            let mut store = open_store(&base, pruning);
            for c in &prior {
                store.commit(&to_db_updates(c));
            }
        }));
        if let Err(e) = built {
            report.case(&canon, false);
            report.oracle_failure(i, "", &format!("building the pre-commit store panicked: {}", e), input);
            continue;
        }
        // reference run with the trace recorded
        let refd = tmp.join(format!("ref_{}", i));
        copy_dir(&base, &refd);
        let pre = dump(&refd, pruning);
        let traced = catch(std::panic::AssertUnwindSafe(|| {
            let mut store = open_store(&refd, pruning);
            verif_crash::arm(None, true);
            store.commit(&to_db_updates(&commit));
            verif_crash::disarm()
        }));
        let trace = match traced {
            Ok(t) => t,
            Err(e) => {
                verif_crash::disarm();
                report.case(&canon, false);
                if !expect_panic {
                    report.oracle_failure(i, "", &format!("commit panicked: {}", e), input);
                } else {
                    // the commit died inside the tree computation: the store must be the pre-commit one
                    report.count("cases_commit_panicked_in_tree_computation");
                    if let Some(c) = &class {
                        report.count(c);
                    }
                    let after = dump(&refd, pruning);
                    match (&pre, &after) {
                        (Ok(a), Ok(b)) => {
                            if let Err(e2) = consistent(b) {
                                report.oracle_failure(i, "", &format!("store after a commit that panicked ({}) is inconsistent: {}", e, e2), input.clone());
                            }
                            if (&a.api_subs, a.version, &a.root, &a.nodes) != (&b.api_subs, b.version, &b.root, &b.nodes) {
                                report.oracle_failure(i, "", &format!("store after a commit that panicked ({}) is not the pre-commit store", e), input.clone());
                            }
                        }
                        _ => report.oracle_failure(i, "", "dump failed around a panicking commit", input.clone()),
                    }
                }
                let _ = std::fs::remove_dir_all(&refd);
                let _ = std::fs::remove_dir_all(&base);
                continue;
            }
        };
        if expect_panic {
            report.count("cases_prefix_keys_did_not_panic");
        }
        let post = dump(&refd, pruning);
        let _ = std::fs::remove_dir_all(&refd);
        let (pre, post) = match (pre, post) {
            (Ok(a), Ok(b)) => (a, b),
            (a, b) => {
                report.case(&canon, false);
                report.oracle_failure(i, "", &format!("dump failed: {:?} {:?}", a.err(), b.err()), input);
                continue;
            }
        };
        let steps: Vec<&(String, Vec<u8>, Vec<u8>)> = trace.iter().filter(|t| !t.0.starts_with("batch:")).collect();
        let n = steps.len();
        report.count_n("crash_points", n as u64);
        report.count_n("trace_entries", trace.len() as u64);
        for t in &trace {
            report.count(&format!("trace.{}", t.0));
        }
        if !sample_trace_done && n >= 3 {
            sample_trace_done = true;
            report.sample(json!({"case": i, "pruning": pruning, "trace_tags": trace.iter().map(|t| t.0.clone()).collect::<Vec<_>>()}));
        }
        // side condition of the composed theorem (C19_composed_crash_safe): the pruning loop deletes only
        // nodes of versions older than the one being committed (key = 8-byte big-endian version ++ path)
        for t in trace.iter().filter(|t| t.0 == "direct:delete:merkle_nodes") {
            let v = u64::from_be_bytes(t.1[..8].try_into().unwrap());
            report.count("pruned_node_versions_checked");
            if v >= post.version {
                report.oracle_failure(i, "", &format!("the pruning loop deleted node {} of version {} while committing version {}", hex(&t.1), v, post.version), input.clone());
            }
        }
        let changes = db_post != db;
        report.case(&canon, changes && !db.is_empty());
        // a family class counts only if the scenario has the intended shape and the whole sweep was usable
        let class_ok = match &class {
            Some(c) if c.starts_with("fam_reset_") || c.starts_with("fam_first_commit_reset") || c.starts_with("fam_multi_node") => {
                trace.iter().any(|t| t.0 == "batch:delete_range:substates")
            }
            _ => true,
        };

        // the crash sweep
        let commit_file = tmp.join(format!("commit_{}.json", i));
        std::fs::write(&commit_file, serde_json::to_string(&commit_to_json(&commit)).unwrap()).unwrap();
        // quick tier: at most 8 crash points per commit (first three, last two, random others)
        let mut ks: Vec<usize> = (0..=n).collect();
        if !thorough && ks.len() > 8 {
            let mut keep: std::collections::BTreeSet<usize> = [0, 1, 2, n - 1, n].into_iter().collect();
            if is_family {
                // deterministic choice for the family: also the third write, the middle, the one before last
                keep.extend([3, n / 2, n - 2]);
            }
            while keep.len() < 8 {
                keep.insert(rng.usize_below(n + 1));
            }
            ks = keep.into_iter().collect();
            report.count("cases_with_sampled_crash_points");
        }
        report.count_n("crash_runs", ks.len() as u64);
        let mut results: Vec<CrashResult> = Vec::new();
        let par = 8usize;
        for chunk in ks.chunks(par) {
            let rs: Vec<CrashResult> = std::thread::scope(|s| {
                let hs: Vec<_> = chunk
                    .iter()
                    .map(|&k| {
                        let base = &base;
                        let tmp = &tmp;
                        let exe = &exe;
                        let commit_file = &commit_file;
                        s.spawn(move || {
                            let dir = tmp.join(format!("crash_{}_{}", i, k));
                            copy_dir(base, &dir);
                            let st = std::process::Command::new(exe)
                                .arg("--child-dir").arg(&dir)
                                .arg("--abort-at").arg(k.to_string())
                                .arg("--pruning").arg(if pruning { "1" } else { "0" })
                                .arg("--commit-file").arg(commit_file)
                                .arg("--out").arg(tmp)
                                .stdout(std::process::Stdio::null())
                                .stderr(std::process::Stdio::null())
                                .status()
                                .expect("spawn child");
                            let aborted = st.signal() == Some(6);
                            let exit_ok = st.code() == Some(0);
                            let d = dump(&dir, pruning);
                            let _ = std::fs::remove_dir_all(&dir);
                            CrashResult { k, aborted, exit_ok, dump: d }
                        })
                    })
                    .collect();
                hs.into_iter().map(|h| h.join().unwrap()).collect()
            });
            results.extend(rs);
        }
        let _ = std::fs::remove_file(&commit_file);
        let _ = std::fs::remove_dir_all(&base);

        // oracle
        let mut obs: Vec<String> = vec![];
        let mut usable = true;
        for r in &results {
            let what_step = if r.k < n { format!("crash before write {} of {} ({})", r.k, n, steps[r.k].0) } else { format!("complete run ({} writes)", n) };
            let mut inp = input.clone();
            inp["crash_before_step"] = json!(r.k);
            inp["steps"] = json!(steps.iter().map(|t| t.0.clone()).collect::<Vec<_>>());
            if (r.k < n && !r.aborted) || (r.k == n && !r.exit_ok) {
                report.oracle_failure(i, "", &format!("{}: child did not stop as expected (aborted={}, exit_ok={}): the step sequence is not deterministic", what_step, r.aborted, r.exit_ok), inp.clone());
                usable = false;
                continue;
            }
            let d = match &r.dump {
                Ok(d) => d,
                Err(e) => {
                    report.oracle_failure(i, "", &format!("{}: the store cannot be reopened/dumped: {}", what_step, e), inp);
                    usable = false;
                    continue;
                }
            };
            if r.k >= 1 && r.k < n { report.count("crash_points_after_first_write"); }
            if let Err(e) = consistent(d) {
                report.oracle_failure(i, "", &format!("{}: reopened store is inconsistent: {}", what_step, e), inp.clone());
            }
            let key = |d: &Dump| (d.api_subs.clone(), d.version, d.root.clone());
            let is_pre = key(d) == key(&pre);
            let is_post = key(d) == key(&post);
            if !is_pre && !is_post {
                report.oracle_failure(i, "", &format!("{}: reopened store is neither the pre-commit nor the post-commit state (version {}, {} substates; pre: version {}, {} substates; post: version {}, {} substates)",
                    what_step, d.version, d.api_subs.len(), pre.version, pre.api_subs.len(), post.version, post.api_subs.len()), inp.clone());
            }
            report.count(if is_pre && is_post { "obs_pre_eq_post" } else if is_pre { "obs_pre" } else if is_post { "obs_post" } else { "obs_neither" });
            if r.k == n {
                if !is_post || d.version != pre.version + 1 || d.nodes != post.nodes || d.stale != post.stale {
                    report.oracle_failure(i, "", &format!("{}: differs from the reference run of the same commit", what_step), inp.clone());
                }
                if d.api_subs != db_post {
                    report.oracle_failure(i, "", &format!("{}: substates differ from the plain BTreeMap replay of the commit", what_step), inp.clone());
                }
            }
            obs.push(format!("({}, {})", r.k, coq_obs(d)));
        }
        if let Some(c) = &class {
            if usable && class_ok {
                report.count(c);
            }
        }
        if !usable || args.oracle_only {
            continue;
        }
        let trace_coq = coq_list(trace.iter().map(|(t, k, k2)| match tag_coq(t) {
            Some(c) => format!("({}, {}, {})", c, pb(k), pb(k2)),
            None => format!("(TUnknown, {}, {})", pb(k), pb(k2)),
        }));
        // model inputs taken from the observation: keys of the new tree nodes (staged puts) and of the
        // stale nodes deleted after the batch (both computed by the state tree, outside this model), new root
        let new_nodes = coq_list(trace.iter().filter(|t| t.0 == "batch:put:merkle_nodes").map(|t| pb(&t.1)));
        let deleted = coq_list(trace.iter().filter(|t| t.0 == "direct:delete:merkle_nodes").map(|t| pb(&t.1)));
        cw.push(format!(
            "(mkCase {} {} {} {} {} {} {} {})",
            coq_bool(pruning),
            coq_obs(&pre),
            coq_updates(&commit),
            new_nodes,
            deleted,
            pb(&post.root),
            trace_coq,
            coq_list(obs)
        ));
    }
    let _ = std::fs::remove_dir_all(&tmp);
    if !args.oracle_only {
        cw.write(&args.out, args.shards).unwrap();
    }
    report.write(&args.out).unwrap();
}
