//! C17 correspondence harness: random commit histories (deltas, deletes, partition resets, empty
//! deltas; keys sharing long nibble prefixes) on the real 3-tier state tree; writes the history and
//! everything observed (root per commit, stale parts per commit, final node store, nodes reachable
//! from the final root, list_substate_hashes) as Coq cases for Corr/C17_run.v.
//! Direct oracle (Rust only): root == root of a fresh tree over the final substate set == root of a
//! randomly re-batched history; empty <=> zero root; listing == hashes of the stored values.
#[path = "../jmt_common.rs"]
mod jmt_common;
use jmt_common::*;
use serde_json::json;
use std::collections::BTreeMap;
use vh_common::*;

fn main() {
    let args = Args::parse();
    let mut report = Report::new(
        "C17",
        args.seed,
        "a deterministic boundary family (one history per branch/shape class of the update algorithm, identical for every seed) followed by random commit histories (1..8 commits of deltas/deletes/resets/empty deltas over 1..6 entities x 1..4 partitions x 2..10 \
         prefix-free sort keys built to share nibble prefixes); non-trivial = >= 2 commits, a delete or reset hit existing data and \
         the final database is non-empty; distinct by canonical text of the history",
    );
    let mut cw = CaseWriter::new("RV.Corr.C17_run RV.Model.C17_Jmt RV.Model.C18_Store", "check");
    let root = Rng::new(args.seed);
    let family = boundary_family();
    for i in 0..args.cases {
        let mut rng = root.fork(i as u64);
        let pools = gen_pools(&mut rng);
        let boundary = family.get(i);
        let long_keys = pools.entities[0].len() > 8;
        let n = if let Some(b) = boundary {
            b.commits.len()
        } else if rng.chance(1, 8) {
            rng.range(1, 2) as usize
        } else if long_keys {
            rng.range(2, 3) as usize
        } else {
            rng.range(2, 8) as usize
        };
        let mut db: BTreeMap<SubKey, Vec<u8>> = BTreeMap::new();
        let mut commits = vec![];
        let mut removed_existing = false;
        for j in 0..n {
            let c = match boundary {
                Some(b) => b.commits[j].clone(),
                None => gen_commit(&mut rng, &pools, &db),
            };
            let before = db.len();
            let mut db2 = db.clone();
            apply_to_map(&mut db2, &c);
            let (sets, dels, resets, empties) = count_ops(&c);
            if db2.len() < before || (resets > 0 && before > 0) {
                removed_existing = true;
            }
            report.count_n("sets", sets);
            report.count_n("deletes", dels);
            report.count_n("resets", resets);
            report.count_n("empty_deltas", empties);
            db = db2;
            commits.push(c);
        }
        if let Some(b) = boundary {
            report.count(&format!("boundary.{}", b.class));
        } else {
            report.count("random_histories");
        }
        report.count_n("commits", n as u64);
        if pools.variable_len && boundary.is_none() {
            report.count("cases_with_variable_length_sort_keys");
        }
        let canon = coq_list(commits.iter().map(coq_commit));
        report.case(&canon, n >= 2 && removed_existing && !db.is_empty());
        let input = json!({"commits": canon});
        let out = match run_history(&commits, false, false) {
            Ok(o) => o,
            Err(e) => {
                report.oracle_failure(i, "", &format!("put_at_next_version panicked: {}", e), input);
                continue;
            }
        };
        if db.is_empty() {
            report.count("final_db_empty");
        } else {
            report.count("final_db_nonempty");
        }
        report.count_n("final_nodes", out.store.tree_nodes.borrow().len() as u64);
        if let Err(what) = oracle_c17(&mut rng, &commits, &out, &db) {
            report.oracle_failure(i, "", &what, input.clone());
        }
        if let Some(b) = boundary {
            // canonical shape of the substate tier of (E1, partition 6): one substate = a leaf root,
            // none = no tier, several = an internal root with that many children
            match reachable(&out.store, out.version.unwrap()) {
                Ok(r) => {
                    let got = shape_of(&r);
                    if b.shape != Shape::Any && got != b.shape {
                        report.oracle_failure(i, "", &format!("boundary case {}: substate tier root of (E1,6) is {:?}, canonical shape is {:?}", b.class, got, b.shape), input.clone());
                    }
                }
                Err(e) => report.oracle_failure(i, "", &format!("boundary case {}: {}", b.class, e), input.clone()),
            }
        }
        if i < 2 {
            report.sample(json!({"commits": canon.chars().take(600).collect::<String>(), "roots": out.roots.iter().map(|h| h.to_string()).collect::<Vec<_>>()}));
        }
        if !args.oracle_only {
            match coq_case(false, &commits, &out) {
                Ok(t) => {
                    cw.push(t);
                }
                Err(e) => report.oracle_failure(i, "", &format!("dump failed: {}", e), input),
            }
        }
    }
    report.floor("deletes", args.cases as u64 / 2);
    report.floor("resets", args.cases as u64 / 8);
    report.floor("final_db_nonempty", args.cases as u64 / 3);
    if args.cases >= family.len() {
        for b in &family {
            report.floor(&format!("boundary.{}", b.class), 1);
        }
        if args.cases > family.len() {
            report.floor("random_histories", 1);
        }
    }
    if !args.oracle_only {
        cw.write(&args.out, args.shards).unwrap();
    }
    report.write(&args.out).unwrap();
}
